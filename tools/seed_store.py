#!/venv/bin/python
"""evaluate every delivered change in /tmp/wt-CNN/OUT and store the confirmed ones under /verif/seeded/<id>/"""
import json, os, shutil, subprocess, sys
out = []
for i in range(1, 20):
    pid = 'C%02d' % i
    for k in (1, 2, 3, 4):
        d = '/tmp/wt-%s/OUT' % pid
        if not os.path.exists('%s/m%d.diff' % (d, k)):
            continue
        r = subprocess.run(['/verif/tools/seed_eval.py', pid, '%s/m%d.diff' % (d, k), '%s/m%d_demo.py' % (d, k)], capture_output=True, text=True)
        try:
            res = json.loads(r.stdout)
        except ValueError:
            print(pid, k, 'eval failed', r.stdout[-300:], r.stderr[-300:]); continue
        sid = '%s-m%d' % (pid, k)
        note = {}
        try:
            note = json.load(open('%s/m%d.json' % (d, k)))
        except Exception:
            pass
        det = sorted(c for c, v in res['checks_firing'].items() if v['rc'] == 1)
        err = sorted(c for c, v in res['checks_firing'].items() if v['rc'] == 2)
        print('%s confirmed=%s own=%s firing=%s errors=%s' % (sid, res['confirmed'], res['detected_by_own_check'], det, err))
        if not res['confirmed']:
            continue
        sd = '/verif/seeded/%s' % sid
        os.makedirs(sd, exist_ok=True)
        shutil.copy('%s/m%d.diff' % (d, k), sd + '/patch.diff')
        shutil.copy('%s/m%d_demo.py' % (d, k), sd + '/demo.py')
        meta = {
            'id': sid, 'property': pid, 'origin': 'independent sub-agent given only the property text and a scratch worktree',
            'summary': note.get('summary'), 'breaks': note.get('breaks'), 'needs_to_manifest': note.get('needs_to_manifest'),
            'why_tests_pass': note.get('why_tests_pass'), 'files': note.get('files'),
            'confirmed_by': {
                'commands': ['git -C <scratch worktree> apply patch.diff',
                             '/venv/bin/python -m pytest -q -p no:cacheprovider --timeout=900 --continue-on-collection-errors',
                             'PYTHONPATH=<worktree> /venv/bin/python demo.py   (with and without the change)',
                             'git -C /repo apply patch.diff; ./check <every property> --quiet --no-evidence; git -C /repo checkout -- .'],
                'suite_with_change': res.get('suite'), 'demo_exit_without_change': res.get('demo_without_change'),
                'demo_exit_with_change': res.get('demo_with_change'), 'demo_tail': res.get('demo_tail')},
            'checks_firing': {c: v['lines'][:2] for c, v in res['checks_firing'].items()},
            'detected_by_own_check': res['detected_by_own_check'],
            'detected_by': det, 'analysis_errors': err,
        }
        json.dump(meta, open(sd + '/meta.json', 'w'), indent=1)
        out.append(meta)
json.dump([{k: m[k] for k in ('id', 'property', 'detected_by_own_check', 'detected_by', 'analysis_errors')} for m in out], open('/verif/seeded/INDEX.json', 'w'), indent=1)
print('stored', len(out), 'own-detected', sum(1 for m in out if m['detected_by_own_check']))
