#!/bin/sh
# tools/seed_report.sh PID...  -> one block per delivered change
for p in "$@"; do for k in 1 2; do [ -f /tmp/wt-$p/OUT/m$k.diff ] || continue; /verif/tools/seed_eval.py $p /tmp/wt-$p/OUT/m$k.diff /tmp/wt-$p/OUT/m${k}_demo.py 2>&1 > /tmp/seed-$p-m$k.json; /venv/bin/python -c "
import json,sys
r=json.load(open('/tmp/seed-$p-m$k.json')); print('$p m$k confirmed=%s suite=%s demo(w/o,with)=(%s,%s) own=%s'%(r['confirmed'],r.get('suite'),r.get('demo_without_change'),r.get('demo_with_change'),r['detected_by_own_check']))
for k,v in r['checks_firing'].items(): print('  ',k,v['rc'],[l[:210] for l in v['lines'][:1]])
"; done; done
