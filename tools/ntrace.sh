#!/bin/sh
id=$1; c=$2
d=$(mktemp -d /tmp/nt-XXXXXX)
mkdir -p $d/js $d/scripts
cp -r /repo/athlib $d/athlib; cp -r /repo/js/src $d/js/src; cp -r /repo/json $d/json; cp /repo/scripts/make-patterns-js.py $d/scripts/ 2>/dev/null
P=/verif/neutral/$id/patch.diff; [ -f $P ] || P=/verif/seeded/$id/patch.diff
(cd $d && patch -p1 -s -i $P) || echo PATCH-FAILED
cd /verif && SA_NO_VIEWS=1 SA_TRACE=1 /venv/bin/python - $c $d <<'PY'
import sys, traceback
sys.path.insert(0,'/verif')
from sa import cli
try:
    ctx, err = cli.analyse(sys.argv[1], 'quick', sys.argv[2], 0)
    print("err", err[:2] if err else None); print(err[2] if err and len(err)>2 else "")
    import sa.cli
    for f in ctx.findings[:8]: print('F', f.rule, f.key[:100], (f.msg or '')[:200])
except Exception:
    traceback.print_exc()
PY
rm -rf $d
