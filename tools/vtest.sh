#!/bin/sh
# usage: vtest.sh <id> <view-name> : build one view of the patched tree and keep it at /tmp/vt (prints changed files)
id=$1; view=${2:-helpers}
rm -rf /tmp/vt0; mkdir -p /tmp/vt0/js /tmp/vt0/scripts
cp -r /repo/athlib /tmp/vt0/athlib; cp -r /repo/js/src /tmp/vt0/js/src; cp -r /repo/json /tmp/vt0/json; cp /repo/scripts/make-patterns-js.py /tmp/vt0/scripts/
P=/verif/neutral/$id/patch.diff; [ -f $P ] || P=/verif/seeded/$id/patch.diff
(cd /tmp/vt0 && patch -p1 -s -i $P) || echo PATCH-FAILED
cd /verif && /venv/bin/python - $view <<'PY'
import sys, shutil
sys.path.insert(0,'/verif')
from sa.views import VIEWS, make_view
cfg=dict(VIEWS)[sys.argv[1]]
d,ch=make_view('/tmp/vt0',*cfg)
shutil.rmtree('/tmp/vt',ignore_errors=True); shutil.move(d,'/tmp/vt')
print('changed',ch)
PY
