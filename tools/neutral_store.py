#!/venv/bin/python
"""False-alarm round: take the harmless changes delivered in /tmp/nt-CNN/OUT (n1..n4.diff + probe.py), confirm each in its
worktree (suite unchanged, differential probe digest unchanged unless the change is declared a feature), run EVERY check on a
scratch copy of /repo with the change applied, and store it under /verif/neutral/<CNN>-n<k>/.
usage: neutral_store.py [CNN ...]     (first run records silent_on_first_evaluation; later runs keep it)"""
import concurrent.futures as cf
import json, os, shutil, subprocess, sys
sys.path.insert(0, os.path.join(os.path.dirname(os.path.abspath(__file__)), '..'))
from sa.selftest import make_copy

PIDS = ['C%02d' % i for i in range(1, 20)]
NROUND = os.environ.get('NROUND', '1')
WT = '/tmp/nt-%s' if NROUND == '1' else '/tmp/n' + NROUND + '-%s'
TAG = 'n' if NROUND == '1' else 'n' + NROUND


def sh(cmd, cwd=None, env=None, timeout=1800):
    r = subprocess.run(cmd, shell=True, cwd=cwd, env=env, capture_output=True, text=True, timeout=timeout)
    return r.returncode, r.stdout + r.stderr


def run_checks(patch, own):
    d = make_copy('/repo')
    res = {}
    try:
        rc, out = sh('git apply --unsafe-paths --directory %s %s' % (d, patch), cwd='/')
        if rc != 0:
            rc, out = sh('patch -p1 -s -i %s' % patch, cwd=d)
        if rc != 0:
            return {'apply': {'rc': 3, 'lines': [out[-200:]]}}
        for p in PIDS:
            for tier in (['quick', 'thorough'] if p == own else ['quick']):
                rc, out = sh('./check %s --repo %s --tier %s --quiet --no-evidence' % (p, d, tier), cwd='/verif', timeout=900)
                lines = [l[:400] for l in out.splitlines() if l.startswith(('FINDING', 'ANALYSIS-ERROR'))]
                if rc != 0 or [l for l in lines if l.startswith('FINDING')]:
                    res['%s/%s' % (p, tier)] = {'rc': rc, 'lines': lines[:4]}
    finally:
        shutil.rmtree(d, ignore_errors=True)
    return res


def one(pid, k, head):
    wt = WT % pid
    src = '%s/OUT/n%d.diff' % (wt, k)
    if not os.path.exists(src) or os.path.getsize(src) == 0:
        return None
    sid = ('%s-%s%d' if NROUND == '1' else '%s-%s-%d') % (pid, TAG, k)
    note = {}
    try:
        note = json.load(open('%s/OUT/n%d.json' % (wt, k)))
    except Exception:
        pass
    tmp = '/tmp/_neutral_%s.diff' % sid
    shutil.copy(src, tmp)
    alarms = run_checks(tmp, pid)
    sd = '/verif/neutral/%s' % sid
    os.makedirs(sd, exist_ok=True)
    shutil.copy(tmp, sd + '/patch.diff')
    os.remove(tmp)
    mp = sd + '/meta.json'
    old = json.load(open(mp)) if os.path.exists(mp) else {}
    meta = {'id': sid, 'property': pid, 'kind': note.get('kind'),
            'origin': 'independent sub-agent given only the property text and a scratch worktree (false-alarm round %s)' % NROUND,
            'summary': note.get('summary'), 'why_harmless': note.get('why_harmless'), 'files': note.get('files'),
            'confirmed_by': old.get('confirmed_by'),
            'verdict': old.get('verdict', 'harmless'),
            'alarms_on_first_evaluation': old.get('alarms_on_first_evaluation', alarms),
            'alarms_now': alarms}
    json.dump(meta, open(mp, 'w'), indent=1)
    return sid, alarms


def confirm(pid, head):
    """sequential per worktree: suite + probe digests"""
    wt = WT % pid
    env = dict(os.environ, PYTHONPATH=wt)
    sh('git checkout -q -- . ; git reset -q --hard ; git checkout -q --detach %s' % head, cwd=wt)
    out = {}
    if not os.path.exists(wt + '/OUT/probe.py'):
        d0 = None
    else:
        rc, o = sh('/venv/bin/python OUT/probe.py 2>&1 | tail -2', cwd=wt, env=env, timeout=1200)
        d0 = o.strip().splitlines()[-2:]
    for k in (1, 2, 3, 4):
        src = '%s/OUT/n%d.diff' % (wt, k)
        if not os.path.exists(src) or os.path.getsize(src) == 0:
            continue
        rc, o = sh('git apply %s' % src, cwd=wt)
        if rc != 0:
            out[k] = {'applies': False, 'why': o[-200:]}
            sh('git checkout -q -- . ; git reset -q --hard', cwd=wt)
            continue
        rcs, outs = sh('/venv/bin/python -m pytest -q -p no:cacheprovider --timeout=900 --continue-on-collection-errors 2>&1 | tail -3', cwd=wt, env=env)
        suite = [l for l in outs.splitlines() if 'passed' in l or 'failed' in l][-1:]
        d1 = None
        if d0 is not None:
            rc, o = sh('/venv/bin/python OUT/probe.py 2>&1 | tail -2', cwd=wt, env=env, timeout=1200)
            d1 = o.strip().splitlines()[-2:]
        sh('git checkout -q -- . ; git reset -q --hard ; git clean -fdq -- athlib js json', cwd=wt)
        out[k] = {'applies': True, 'repo_head': head, 'suite_with_change': suite, 'probe_before': d0, 'probe_after': d1,
                  'probe_equal': d0 == d1, 'suite_ok': bool(suite) and suite[0].strip().startswith('3 failed, 92 passed')}
    return out


def main():
    head = sh('git -C /repo rev-parse HEAD')[1].strip()
    assert sh('git -C /repo status --short')[1].strip() == '', 'repo not clean'
    pids = sys.argv[1:] or PIDS
    skip_confirm = os.environ.get('NOCONFIRM') == '1'
    conf = {}
    if not skip_confirm:
        with cf.ThreadPoolExecutor(max_workers=8) as ex:
            for pid, c in zip(pids, ex.map(lambda p: confirm(p, head), pids)):
                conf[pid] = c
    jobs = [(p, k) for p in pids for k in (1, 2, 3, 4)]
    with cf.ThreadPoolExecutor(max_workers=14) as ex:
        for r in ex.map(lambda a: one(a[0], a[1], head), jobs):
            if r is None:
                continue
            sid, alarms = r
            pid, k = sid[:3], sid.rsplit('-', 1)[1].lstrip('n') if NROUND != '1' else sid.split('-n')[1]
            mp = '/verif/neutral/%s/meta.json' % sid
            meta = json.load(open(mp))
            c = conf.get(pid, {}).get(int(k))
            if c is not None:
                meta['confirmed_by'] = c
                json.dump(meta, open(mp, 'w'), indent=1)
            c = meta.get('confirmed_by') or {}
            print('%s kind=%s suite_ok=%s probe_equal=%s alarms=%s' % (
                sid, meta.get('kind'), c.get('suite_ok'), c.get('probe_equal'),
                {a: v['rc'] for a, v in alarms.items()}))
            for a, v in alarms.items():
                for l in v['lines'][:2]:
                    print('     ', a, l[:230])
    for pid in pids:
        p = (WT % pid) + '/OUT/probe.py'
        if os.path.exists(p):
            os.makedirs('/verif/neutral/probes', exist_ok=True)
            shutil.copy(p, '/verif/neutral/probes/%s_probe%s.py' % (pid, '' if NROUND == '1' else NROUND))


if __name__ == '__main__':
    main()
