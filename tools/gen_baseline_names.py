#!/venv/bin/python
"""spec/baseline_names.json: the functions and module/class level names of every athlib module on the tree the rules were written
against (run on the clean /repo HEAD).  sa/views.py treats any other helper / constant as new and looks through it."""
import ast, json, os, sys
sys.path.insert(0, os.path.join(os.path.dirname(os.path.abspath(__file__)), '..'))
from sa.views import module_names, module_fingerprints
out = {}
root = sys.argv[1] if len(sys.argv) > 1 else '/repo'
for d, _, fs in os.walk(os.path.join(root, 'athlib')):
    for f in sorted(fs):
        if f.endswith('.py'):
            p = os.path.join(d, f)
            rel = os.path.relpath(p, root)
            try:
                tree = ast.parse(open(p, encoding='utf-8').read())
                fns, consts = module_names(tree)
            except SyntaxError:
                continue
            cv = {}
            for st in tree.body:
                if isinstance(st, (ast.Assign, ast.AnnAssign)) and st.value is not None:
                    tg = st.targets if isinstance(st, ast.Assign) else [st.target]
                    if len(tg) == 1 and isinstance(tg[0], ast.Name) and tg[0].id.startswith('_') and not tg[0].id.startswith('__'):
                        cv[tg[0].id] = ast.unparse(st.value)[:200]
            out[rel] = {'functions': fns, 'constants': consts, 'fingerprints': module_fingerprints(tree), 'private_values': cv}
json.dump(out, open(os.path.join(os.path.dirname(os.path.abspath(__file__)), '..', 'spec', 'baseline_names.json'), 'w'), indent=0, sort_keys=True)
print(len(out), 'modules')
