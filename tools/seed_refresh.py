#!/venv/bin/python
"""re-run every check against every stored seeded change (applied to /repo, then undone) and refresh meta.json / INDEX.json.
usage: seed_refresh.py [round]"""
import json, os, subprocess, sys
def sh(cmd, cwd=None):
    r = subprocess.run(cmd, shell=True, cwd=cwd, capture_output=True, text=True, timeout=1800)
    return r.returncode, r.stdout + r.stderr
assert sh('git -C /repo status --short')[1].strip() == '', 'repo not clean'
rnd = int(sys.argv[1]) if len(sys.argv) > 1 else None
ip = '/verif/seeded/INDEX.json'
idx = json.load(open(ip))
for e in idx:
    if rnd and e.get('round', 1) != rnd:
        continue
    sid, pid = e['id'], e['property']
    patch = '/verif/seeded/%s/patch.diff' % sid
    rc, out = sh('git -C /repo apply %s' % patch)
    how = 'as stored'
    if rc != 0:
        rc, out = sh('git -C /repo apply -3 %s && git -C /repo reset -q' % patch)
        how = '3way'
    if rc != 0:
        print(sid, 'DOES NOT APPLY', out[-150:]); sh('git -C /repo checkout -- .'); continue
    caught = {}
    try:
        for p in ['C%02d' % i for i in range(1, 20)]:
            for tier in (['quick', 'thorough'] if p == pid else ['quick']):
                rc, out = sh('./check %s --tier %s --quiet --no-evidence' % (p, tier), cwd='/verif')
                if rc != 0:
                    caught['%s/%s' % (p, tier)] = {'rc': rc, 'lines': [l[:300] for l in out.splitlines() if l.startswith(('FINDING', 'ANALYSIS-ERROR'))][:3]}
    finally:
        sh('git -C /repo checkout -- . ; git -C /repo clean -fdq -- athlib js json')
    det = sorted(c for c, v in caught.items() if v['rc'] == 1)
    err = sorted(c for c, v in caught.items() if v['rc'] == 2)
    own = any(c.startswith(pid + '/') for c in det)
    mp = '/verif/seeded/%s/meta.json' % sid
    m = json.load(open(mp))
    m.update({'checks_firing': {c: v['lines'][:2] for c, v in caught.items()}, 'detected_by_own_check': own, 'detected_by': det, 'analysis_errors': err})
    json.dump(m, open(mp, 'w'), indent=1)
    e.update({'detected_by_own_check': own, 'detected_by': det, 'analysis_errors': err})
    print(sid, how, 'own=%s' % own, det, err)
json.dump(idx, open(ip, 'w'), indent=1)
