#!/venv/bin/python
"""Round 2: rebase every delivered change in /tmp/wt-CNN/OUT onto /repo HEAD (fix commits landed since it was written),
confirm it there (suite unchanged, demo fails with / passes without), run every check with it applied to /repo, undo it, and
store it under /verif/seeded/<CNN>-r<ROUND>m<k>/.  usage: [ROUND=3] seed_store2.py [CNN ...]
The first evaluation of a change records whether the property's own check fired then (detected_on_first_evaluation); later runs keep it."""
import json, os, shutil, subprocess, sys

INITIAL = {'C01-r2m1', 'C07-r2m1', 'C07-r2m2', 'C04-r2m1', 'C04-r2m2', 'C02-r2m1', 'C13-r2m1', 'C13-r2m2', 'C19-r2m2', 'C09-r2m2',
           'C06-r2m1', 'C06-r2m2', 'C18-r2m1', 'C03-r2m2'}      # fired on first evaluation, before any strengthening for round 2


def sh(cmd, cwd=None, env=None):
    r = subprocess.run(cmd, shell=True, cwd=cwd, env=env, capture_output=True, text=True, timeout=1800)
    return r.returncode, r.stdout + r.stderr


ROUND = os.environ.get('ROUND', '2')
head = sh('git -C /repo rev-parse HEAD')[1].strip()
assert sh('git -C /repo status --short')[1].strip() == '', 'repo not clean'
pids = sys.argv[1:] or ['C%02d' % i for i in range(1, 20)]
index = []
for pid in pids:
    wt = '/tmp/wt-%s' % pid
    if not os.path.isdir(wt):
        print(pid, 'no worktree'); continue
    for k in (1, 2):
        src = '%s/OUT/m%d.diff' % (wt, k)
        if not os.path.exists(src):
            continue
        sid = '%s-r%sm%d' % (pid, ROUND, k)
        demo = '%s/OUT/m%d_demo.py' % (wt, k)
        sh('git checkout -q -- . ; git reset -q --hard ; git checkout -q --detach %s' % head, cwd=wt)
        env = dict(os.environ, PYTHONPATH=wt)
        rc0, out0 = sh('/venv/bin/python OUT/m%d_demo.py' % k, cwd=wt, env=env)
        rc, out = sh('git apply %s' % src, cwd=wt)
        how = 'as written'
        if rc != 0:
            alt = src.replace('.diff', '.rebased.diff')
            if os.path.exists(alt):
                rc, out = sh('git apply %s' % alt, cwd=wt)
                how = 'rebased by hand (context changed by a fix commit)'
            if rc != 0:
                rc, out = sh('git apply -3 %s && git reset -q' % src, cwd=wt)
                how = 'three-way merge onto the repaired tree'
        if rc != 0:
            print(sid, 'DOES NOT APPLY to the current tree:', out[-200:]); sh('git checkout -q -- . ; git reset -q --hard', cwd=wt); continue
        tmp = '/tmp/_seed_%s.diff' % sid
        sh('git diff > %s' % tmp, cwd=wt)          # through the shell: CRLF data files must keep their line ends
        rcs, outs = sh('/venv/bin/python -m pytest -q -p no:cacheprovider --timeout=900 --continue-on-collection-errors 2>&1 | tail -3', cwd=wt, env=env)
        suite = [l for l in outs.splitlines() if 'passed' in l or 'failed' in l][-1:]
        rc1, out1 = sh('/venv/bin/python OUT/m%d_demo.py' % k, cwd=wt, env=env)
        sh('git checkout -q -- . ; git reset -q --hard', cwd=wt)
        confirmed = rc0 == 0 and rc1 != 0 and suite and suite[0].strip().startswith('3 failed, 92 passed')
        # the checks, against /repo itself
        rc, out = sh('git -C /repo apply %s' % tmp)
        caught = {}
        try:
            assert rc == 0, out
            for p in ['C%02d' % i for i in range(1, 20)]:
                for tier in (['quick', 'thorough'] if p == pid else ['quick']):
                    rc, out = sh('./check %s --tier %s --quiet --no-evidence' % (p, tier), cwd='/verif')
                    if rc != 0:
                        caught['%s/%s' % (p, tier)] = {'rc': rc, 'lines': [l[:300] for l in out.splitlines() if l.startswith(('FINDING', 'ANALYSIS-ERROR'))][:3]}
        finally:
            sh('git -C /repo checkout -- . ; git -C /repo clean -fdq -- athlib js json')
            pass
        det = sorted(c for c, v in caught.items() if v['rc'] == 1)
        err = sorted(c for c, v in caught.items() if v['rc'] == 2)
        own = any(c.startswith(pid + '/') for c in det)
        print('%s confirmed=%s (%s) suite=%s demo=(%s,%s) own=%s firing=%s errors=%s' % (sid, confirmed, how, suite, rc0, rc1, own, det, err))
        if not confirmed:
            os.remove(tmp)
            continue
        note = {}
        try:
            note = json.load(open('%s/OUT/m%d.json' % (wt, k)))
        except Exception:
            pass
        sd = '/verif/seeded/%s' % sid
        os.makedirs(sd, exist_ok=True)
        shutil.copy(tmp, sd + '/patch.diff')
        os.remove(tmp)
        shutil.copy(demo, sd + '/demo.py')
        first = sid in INITIAL
        if ROUND != '2':
            mp_ = '/verif/seeded/%s/meta.json' % sid
            first = json.load(open(mp_))['detected_on_first_evaluation'] if os.path.exists(mp_) else own
        meta = {'id': sid, 'round': int(ROUND), 'property': pid,
                'origin': 'independent sub-agent given only the property text and a scratch worktree (round %s)' % ROUND + '',
                'patch_applied': how,
                'summary': note.get('summary'), 'breaks': note.get('breaks'), 'needs_to_manifest': note.get('needs_to_manifest'),
                'why_tests_pass': note.get('why_tests_pass'), 'files': note.get('files'),
                'confirmed_by': {'repo_head': head, 'suite_with_change': suite, 'demo_exit_without_change': rc0,
                                 'demo_exit_with_change': rc1, 'demo_tail': out1.strip().splitlines()[-2:]},
                'detected_on_first_evaluation': first,
                'checks_firing': {c: v['lines'][:2] for c, v in caught.items()},
                'detected_by_own_check': own, 'detected_by': det, 'analysis_errors': err}
        json.dump(meta, open(sd + '/meta.json', 'w'), indent=1)
        index.append({k_: meta[k_] for k_ in ('id', 'round', 'property', 'detected_on_first_evaluation', 'detected_by_own_check', 'detected_by', 'analysis_errors')})
ip = '/verif/seeded/INDEX.json'
old = json.load(open(ip)) if os.path.exists(ip) else []
ids = {e['id'] for e in index}
json.dump([e for e in old if e['id'] not in ids] + index, open(ip, 'w'), indent=1)
print('stored', len(index), 'own-detected', sum(1 for m in index if m['detected_by_own_check']))
