#!/venv/bin/python
"""Like seed_store2.py, but parallel and without touching /repo: every delivered change in /tmp/wt-CNN/OUT is confirmed in its
own worktree (suite unchanged, demo passes without / fails with the change), and the checks run on a scratch copy of /repo with
the change applied (sa.selftest.make_copy + git apply --directory, removed at once), so that several evaluations - and the
false-alarm tool - can run at the same time.  usage: ROUND=6 seed_store3.py [CNN ...]
The first evaluation of a change records whether the property's own check fired then (detected_on_first_evaluation); later runs keep it."""
import concurrent.futures as cf
import json, os, shutil, subprocess, sys
sys.path.insert(0, os.path.join(os.path.dirname(os.path.abspath(__file__)), '..'))
from sa.selftest import make_copy

PIDS = ['C%02d' % i for i in range(1, 20)]
ROUND = os.environ.get('ROUND', '6')


def sh(cmd, cwd=None, env=None, timeout=1800):
    r = subprocess.run(cmd, shell=True, cwd=cwd, env=env, capture_output=True, text=True, timeout=timeout)
    return r.returncode, r.stdout + r.stderr


def confirm(pid, head):
    """sequential inside one worktree; returns {k: {...}}"""
    wt = '/tmp/wt-%s' % pid
    out = {}
    if not os.path.isdir(wt):
        return out
    env = dict(os.environ, PYTHONPATH=wt)
    for k in (1, 2):
        src = '%s/OUT/m%d.diff' % (wt, k)
        if not os.path.exists(src) or os.path.getsize(src) == 0:
            continue
        sid = '%s-r%sm%d' % (pid, ROUND, k)
        sh('git checkout -q -- . ; git reset -q --hard ; git checkout -q --detach %s' % head, cwd=wt)
        rc0, out0 = sh('/venv/bin/python OUT/m%d_demo.py' % k, cwd=wt, env=env, timeout=900)
        rc, o = sh('git apply %s' % src, cwd=wt)
        how = 'as written'
        if rc != 0:
            rc, o = sh('git apply -3 %s && git reset -q' % src, cwd=wt)
            how = 'three-way merge onto the repaired tree'
        if rc != 0:
            out[k] = {'sid': sid, 'applies': False, 'why': o[-200:]}
            sh('git checkout -q -- . ; git reset -q --hard', cwd=wt)
            continue
        tmp = '/tmp/_seed_%s.diff' % sid
        sh('git add -N athlib js json ; git diff -- athlib js json > %s ; git reset -q' % tmp, cwd=wt)   # through the shell: CRLF data files must keep their line ends
        rcs, outs = sh('/venv/bin/python -m pytest -q -p no:cacheprovider --timeout=900 --continue-on-collection-errors --ignore=OUT 2>&1 | tail -3', cwd=wt, env=env)
        suite = [l for l in outs.splitlines() if 'passed' in l or 'failed' in l][-1:]
        rc1, out1 = sh('/venv/bin/python OUT/m%d_demo.py' % k, cwd=wt, env=env, timeout=900)
        sh('git checkout -q -- . ; git reset -q --hard ; git clean -fdq -- athlib js json', cwd=wt)
        out[k] = {'sid': sid, 'applies': True, 'how': how, 'tmp': tmp, 'suite': suite, 'rc0': rc0, 'rc1': rc1,
                  'demo_tail': out1.strip().splitlines()[-2:],
                  'confirmed': bool(rc0 == 0 and rc1 != 0 and suite and suite[0].strip().startswith('3 failed, 92 passed'))}
    return out


def run_checks(patch, own):
    d = make_copy('/repo')
    res = {}
    try:
        rc, out = sh('git apply --unsafe-paths --directory %s %s' % (d, patch), cwd='/')
        if rc != 0:
            rc, out = sh('patch -p1 -s -i %s' % patch, cwd=d)
        if rc != 0:
            return {'apply': {'rc': 3, 'lines': [out[-200:]]}}
        for p in PIDS:
            for tier in (['quick', 'thorough'] if p == own else ['quick']):
                rc, out = sh('./check %s --repo %s --tier %s --quiet --no-evidence' % (p, d, tier), cwd='/verif', timeout=1200)
                if rc != 0:
                    res['%s/%s' % (p, tier)] = {'rc': rc, 'lines': [l[:300] for l in out.splitlines() if l.startswith(('FINDING', 'ANALYSIS-ERROR'))][:3]}
    finally:
        shutil.rmtree(d, ignore_errors=True)
    return res


def main():
    head = sh('git -C /repo rev-parse HEAD')[1].strip()
    pids = sys.argv[1:] or PIDS
    conf = {}
    with cf.ThreadPoolExecutor(max_workers=8) as ex:
        for pid, c in zip(pids, ex.map(lambda p: confirm(p, head), pids)):
            conf[pid] = c
    jobs = [(pid, k, c) for pid in pids for k, c in sorted(conf[pid].items())]
    for pid, k, c in jobs:
        if not c.get('applies'):
            print(c['sid'], 'DOES NOT APPLY:', c.get('why'))
        elif not c['confirmed']:
            print('%s NOT CONFIRMED suite=%s demo=(%s,%s)' % (c['sid'], c['suite'], c['rc0'], c['rc1']))
    jobs = [j for j in jobs if j[2].get('applies')]
    index = []
    with cf.ThreadPoolExecutor(max_workers=int(os.environ.get('SA_JOBS', '10'))) as ex:
        for (pid, k, c), caught in zip(jobs, ex.map(lambda j: run_checks(j[2]['tmp'], j[0]), jobs)):
            sid = c['sid']
            det = sorted(x for x, v in caught.items() if v['rc'] == 1)
            err = sorted(x for x, v in caught.items() if v['rc'] == 2)
            own = any(x.startswith(pid + '/') for x in det)
            print('%s confirmed=%s (%s) suite=%s demo=(%s,%s) own=%s firing=%s errors=%s' % (
                sid, c['confirmed'], c['how'], c['suite'], c['rc0'], c['rc1'], own, det, err))
            for x in det + err:
                for l in caught[x]['lines'][:1]:
                    print('      ', x, l[:200])
            if not c['confirmed']:
                os.remove(c['tmp'])
                continue
            wt = '/tmp/wt-%s' % pid
            note = {}
            try:
                note = json.load(open('%s/OUT/m%d.json' % (wt, k)))
            except Exception:
                pass
            sd = '/verif/seeded/%s' % sid
            os.makedirs(sd, exist_ok=True)
            shutil.copy(c['tmp'], sd + '/patch.diff')
            os.remove(c['tmp'])
            shutil.copy('%s/OUT/m%d_demo.py' % (wt, k), sd + '/demo.py')
            mp_ = sd + '/meta.json'
            first = json.load(open(mp_))['detected_on_first_evaluation'] if os.path.exists(mp_) else own
            meta = {'id': sid, 'round': int(ROUND), 'property': pid,
                    'origin': 'independent sub-agent given only the property text and a scratch worktree (round %s)' % ROUND,
                    'patch_applied': c['how'],
                    'summary': note.get('summary'), 'breaks': note.get('breaks'), 'needs_to_manifest': note.get('needs_to_manifest'),
                    'why_tests_pass': note.get('why_tests_pass'), 'files': note.get('files'),
                    'confirmed_by': {'repo_head': head, 'suite_with_change': c['suite'], 'demo_exit_without_change': c['rc0'],
                                     'demo_exit_with_change': c['rc1'], 'demo_tail': c['demo_tail'],
                                     'checks_run_on': 'scratch copy of /repo with the patch applied (./check --repo)'},
                    'detected_on_first_evaluation': first,
                    'checks_firing': {x: v['lines'][:2] for x, v in caught.items()},
                    'detected_by_own_check': own, 'detected_by': det, 'analysis_errors': err}
            json.dump(meta, open(mp_, 'w'), indent=1)
            index.append({k_: meta[k_] for k_ in ('id', 'round', 'property', 'detected_on_first_evaluation', 'detected_by_own_check', 'detected_by', 'analysis_errors')})
    for pid in pids:
        b = '/tmp/wt-%s/OUT/baseline_defect.md' % pid
        if os.path.exists(b):
            os.makedirs('/verif/seeded/baseline_reports', exist_ok=True)
            shutil.copy(b, '/verif/seeded/baseline_reports/%s-r%s.md' % (pid, ROUND))
    ip = '/verif/seeded/INDEX.json'
    old = json.load(open(ip)) if os.path.exists(ip) else []
    ids = {e['id'] for e in index}
    json.dump([e for e in old if e['id'] not in ids] + index, open(ip, 'w'), indent=1)
    print('stored', len(index), 'own-detected', sum(1 for m in index if m['detected_by_own_check']))


if __name__ == '__main__':
    main()
