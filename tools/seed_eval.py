#!/venv/bin/python
"""tools/seed_eval.py PID PATCH DEMO  -> confirms a seeded change (suite unchanged, demo fails with / passes without) in a
scratch worktree, then applies it to /repo, runs every check, and undoes it.  Prints a JSON summary."""
import json, os, subprocess, sys, tempfile, shutil
pid, patch, demo = sys.argv[1:4]
patch, demo = os.path.abspath(patch), os.path.abspath(demo)
def sh(cmd, cwd=None, env=None, timeout=900):
    r = subprocess.run(cmd, shell=True, cwd=cwd, env=env, capture_output=True, text=True, timeout=timeout)
    return r.returncode, (r.stdout + r.stderr)
res = {'property': pid, 'patch': patch}
wt = '/tmp/wt-%s' % pid          # the scratch worktree the change was written in (demos assert this path)
own = os.path.isdir(wt)
if not own:
    wt = tempfile.mkdtemp(prefix='seedwt-')
    os.rmdir(wt)
    rc, out = sh('git -C /repo worktree add -q --detach %s HEAD' % wt)
    assert rc == 0, out
try:
    sh('git checkout -- .', cwd=wt)
    env = dict(os.environ, PYTHONPATH=wt)
    os.makedirs(os.path.join(wt, 'OUT'), exist_ok=True)
    dst = os.path.join(wt, 'OUT', '_confirm_demo.py')
    shutil.copy(demo, dst)
    rc0, out0 = sh('/venv/bin/python OUT/_confirm_demo.py', cwd=wt, env=env)
    res['demo_without_change'] = rc0
    rc, out = sh('git apply %s' % patch, cwd=wt)
    res['applies'] = rc == 0
    if rc != 0:
        res['apply_error'] = out[-300:]
    else:
        rc, out = sh('/venv/bin/python -m pytest -q -p no:cacheprovider --timeout=900 --continue-on-collection-errors 2>&1 | tail -3', cwd=wt, env=env)
        res['suite'] = [l for l in out.splitlines() if 'passed' in l or 'failed' in l][-1:]
        rc1, out1 = sh('/venv/bin/python OUT/_confirm_demo.py', cwd=wt, env=env)
        res['demo_with_change'] = rc1
        res['demo_tail'] = out1.strip().splitlines()[-2:]
finally:
    sh('git checkout -- .', cwd=wt)
    try:
        os.remove(os.path.join(wt, 'OUT', '_confirm_demo.py'))
    except OSError:
        pass
    if not own:
        sh('git -C /repo worktree remove --force %s' % wt)
res['confirmed'] = bool(res.get('applies') and res.get('demo_without_change') == 0 and res.get('demo_with_change') not in (0, None)
                        and res.get('suite') and res['suite'][0].strip().startswith('3 failed, 92 passed'))
# now the checks against /repo with the patch applied
rc, out = sh('git -C /repo status --short')
assert out.strip() == '', 'repo not clean: ' + out
rc, out = sh('git -C /repo apply %s' % patch)
if rc != 0:
    # /repo has moved on (fix commits) since the change was written: three-way merge, working tree only
    rc, out = sh('git -C /repo apply -3 %s && git -C /repo reset -q' % patch)
    res['applied_to_repo_by'] = '3way' if rc == 0 else 'FAILED: ' + out[-200:]
    if rc != 0:
        sh('git -C /repo checkout -- . ; git -C /repo reset -q; git -C /repo checkout -- .')
caught = {}
try:
    if rc == 0:
        for p in ['C%02d' % i for i in range(1, 20)]:
            for tier in (['quick', 'thorough'] if p == pid else ['quick']):
                rc, out = sh('./check %s --tier %s --quiet --no-evidence' % (p, tier), cwd='/verif')
                f = [l for l in out.splitlines() if l.startswith(('FINDING', 'ANALYSIS-ERROR'))]
                if rc != 0:
                    caught['%s/%s' % (p, tier)] = {'rc': rc, 'lines': [l[:260] for l in f[:4]]}
finally:
    sh('git -C /repo checkout -- .')
    sh('git -C /repo clean -fdq -- athlib js json')
res['checks_firing'] = caught
res['detected_by_own_check'] = any(k.startswith(pid + '/') and v['rc'] == 1 for k, v in caught.items())
print(json.dumps(res, indent=1))
