#!/venv/bin/python
"""Generate the sub-agent prompts of the seeding (breaking changes) and false-alarm (harmless changes) rounds.
The sub-agents get ONLY the property text and their own scratch worktree; nothing from /verif goes into a prompt except the
one-line summaries of changes already delivered for that property (so that they are not repeated).

usage: prompts.py seed <round> <steer-file|->      -> /tmp/props/prompt<round>-CNN.md, worktrees /tmp/wt-CNN
       prompts.py neutral <round>                  -> /tmp/props/promptN<round>-CNN.md, worktrees /tmp/n<round>-CNN
"""
import glob, json, os, subprocess, sys

VERIF = os.path.dirname(os.path.dirname(os.path.abspath(__file__)))
OUT = '/tmp/props'

SEED = r'''You are helping to evaluate a verification tool by producing realistic *faulty changes* to a small open-source library.

Your working copy: `__WT__` — a git worktree of openath/athlib (Python, plus a JavaScript port under js/src), a utility library for track-and-field athletics. Work ONLY inside `__WT__`. Do not read or touch `/repo`, `/verif` or any other worktree. Do not commit anything. There is no network. Keep your own messages short (long outputs have crashed earlier helpers): never print whole files or long lists, pipe command output through `| tail -5` or `| cut -c1-200 | head -20`.

The property that the library is supposed to satisfy (read it carefully):

---
__PROP__
---

__TAKEN__Your task: produce TWO different changes to the library source (files under `athlib/`, `js/src/` or `json/`; NOT tests) each of which
  1. BREAKS the property above (a user relying on the property would get a wrong result, an unexpected exception, a corrupted state, a different answer between the two ports, ... whatever the property forbids),
  2. still lets the existing test suite pass exactly as before. Run it with:
       `cd __WT__ && /venv/bin/python -m pytest -q -p no:cacheprovider --timeout=900 --continue-on-collection-errors 2>&1 | tail -3`
     The expected baseline result is `3 failed, 92 passed` (the 3 failures are pre-existing and unrelated); your change must give exactly the same counts and the same failing tests,
  3. looks like a plausible programming mistake or well-meant refactor (an off-by-one, a swapped argument, a dropped guard, a changed constant in an untested table row, a cache keyed wrongly, a reordered statement, a regex alternative added, a port that drifts, ...), NOT an obviously malicious or random edit,
  4. needs something SPECIFIC to manifest — an unusual input, a particular multi-step sequence of calls, a particular interleaving of threads, a rarely used option, a boundary value, or two cooperating sites that each look fine alone — so that ordinary use and the existing tests would not expose it at once.
The two changes must use different mechanisms / touch different logic (not two variants of the same edit). Keep each change small (a few lines).

For each change k in {1, 2} deliver in `__WT__/OUT/`:
  * `mK.diff` — the change as a unified diff produced with `git -C __WT__ diff > __WT__/OUT/mK.diff` while ONLY that change is applied to the worktree (revert the other one first with `git -C __WT__ checkout -- .`; the OUT directory is untracked and survives),
  * `mK_demo.py` — a small self-contained Python program (it may spawn `node` for JS if the property is about the JS port; node 20 is installed, but Babel/Mocha are not, so load the JS sources by reading the files, stripping the import/export lines and eval-ing them) that exits with status 0 when the property holds for the scenario it exercises and with a NON-ZERO status (e.g. a failed assert) when it is violated. It must be run as `cd __WT__ && PYTHONPATH=__WT__ /venv/bin/python OUT/mK_demo.py` — make sure it imports athlib from the worktree (print `athlib.__file__` at the start). It must FAIL with your change applied and PASS on the unchanged worktree. Verify both yourself.
  * `mK.json` — `{"summary": "...what the change does...", "breaks": "...which clause of the property and how...", "needs_to_manifest": "...the specific input / sequence / interleaving...", "why_tests_pass": "...", "files": [...]}`.

If, while looking for a change, you notice that the UNCHANGED worktree already violates the property for some input, also write `OUT/baseline_defect.md` with the exact call and what it returns (two or three lines); do not spend long on it.

Before you finish: leave the worktree clean (`git -C __WT__ checkout -- .`), keep only the OUT directory, and check that `git -C __WT__ status --short` shows only `?? OUT/`. In your final answer list the files you produced and, for each change, one sentence on what it breaks and what it needs to manifest. If after serious effort you can only produce one valid change, deliver one and say so.
'''

NEUTRAL = r'''You are helping to evaluate a verification tool for FALSE ALARMS by producing realistic *harmless changes* to a small open-source library: the kind of edit a maintainer makes every week that does NOT change what the library does.

Your working copy: `@WT@` — a git worktree of openath/athlib (Python, plus a JavaScript port under js/src), a utility library for track-and-field athletics. Work ONLY inside `@WT@`. Do not read or touch `/repo`, `/verif` or any other worktree. Do not commit anything. There is no network. Keep your own messages short (long outputs have crashed earlier helpers): never print whole files or long lists, pipe command output through `| tail -5` or `| cut -c1-200 | head -20`.

The property that the library satisfies today and must STILL satisfy after each of your changes (read it carefully, then find the functions, tables and patterns that implement it):

---
@PROP@
---

Your task: produce FOUR different changes to the library source (files under `athlib/`, `js/src/` or `json/`; NOT tests), each of which
  1. edits the code that IMPLEMENTS the property above (the functions, classes, regular expressions or tables the property talks about, or the helpers they call) — not unrelated code, and not only comments/docstrings/blank lines,
  2. PRESERVES behaviour: for every input, every public function touched returns the same value, raises the same exception type in the same cases and leaves the same state behind as before (so the property necessarily still holds). Exception: at most ONE of the four may be a small genuine *feature or hardening* (kind "feature" below) that changes behaviour only for inputs that were refused/unsupported before, and under which the property as stated above still holds for every input,
  3. lets the existing test suite pass exactly as before. Run it with:
       `cd @WT@ && /venv/bin/python -m pytest -q -p no:cacheprovider --timeout=900 --continue-on-collection-errors 2>&1 | tail -3`
     The expected baseline result is `3 failed, 92 passed` (the 3 failures are pre-existing and unrelated); your change must give exactly the same counts,
  4. looks like something a reviewer would approve without discussion, and is of moderate size (roughly 10-80 changed lines; not a one-token edit, not a rewrite of a whole module).

The four changes must be of four DIFFERENT kinds from this list (say which in the json):
  * "control-flow": restructure without changing meaning — if/elif chain <-> early returns <-> dispatch table; loop <-> comprehension / any() / all() / next(); merge or split conditions; negate a condition and swap the branches; try/except <-> explicit test where exactly equivalent; while <-> for.
  * "extract-inline": extract part of a function into a new helper (module function, nested function, static method or method), or inline an existing small helper into its callers, or move a helper to another module of the package and import it.
  * "rename-reorder": rename local variables, parameters that are never passed by keyword, private helpers or private attributes consistently; reorder independent statements, independent functions in a module, entries of a dict/set literal, alternatives of a regular expression that cannot both match.
  * "modernise": newer idioms with identical meaning — f-strings or str.format instead of % (same digits printed!), type hints, keyword-only markers that no caller violates, `in (a, b)` instead of chained ==, enumerate/zip instead of indexing, dict.get, context managers, constants given names, walrus, unpacking.
  * "performance": hoist a regex compile or a constant computation to module level, precompute a lookup table from the existing data, replace a linear scan by a dict/bisect lookup, avoid recomputing a value in a loop, a cache that is keyed by EVERYTHING the result depends on and never handed out for mutation.
  * "data-form": write an existing constant table, pattern or coefficient set in another but equivalent form (built by a comprehension, split over several named parts and joined, a tuple of tuples instead of a dict, a verbose regex with the same language, a pattern assembled from named sub-patterns) — every value / the accepted language exactly as before. Beware of traps such as `\d` vs `[0-9]` (not the same on str patterns), `$` vs `\Z`, float literals that print differently.
  * "feature": (at most one) a new optional keyword whose default keeps today's behaviour, a clearer error message with the same exception type, extra input validation that refuses (with the exception type the property names) only what already failed, logging, a new table row / event / accepted spelling that is consistent with the property.
Make the four changes independent of each other (each is a separate diff against the unchanged worktree) and, between them, touch at least two different functions or tables. If the property involves the JavaScript port, at least one change should be to the JavaScript side (or to both sides consistently).

@EXTRA@Be careful: the point of the exercise is that the changes are REALLY harmless. Think about corner cases (empty strings, None, negative numbers, 0 decimals, upper/lower case, whitespace, float rounding, dict ordering, mutable defaults, exceptions raised in a different order). Convince yourself by differential testing: BEFORE changing anything, write `OUT/probe.py`, a deterministic program that imports athlib from the worktree, calls the functions the property is about on a broad sample (several thousand inputs: valid, boundary and invalid ones; for stateful classes several hundred scripted call sequences, observing every public observer after each step), records for each call the repr of the result or the exception type name, and prints ONE line: the sha256 of all records plus the number of records. Run it on the unchanged worktree and note the digest; every behaviour-preserving change must reproduce the same digest (a "feature" change may differ only through inputs refused before — then make the probe print a second digest restricted to inputs that were accepted before, which must agree).

For each change k in {1, 2, 3, 4} deliver in `@WT@/OUT/`:
  * `nK.diff` — the change as a unified diff produced with `git -C @WT@ diff > @WT@/OUT/nK.diff` while ONLY that change is applied to the worktree (revert the previous one first with `git -C @WT@ checkout -- .`; the OUT directory is untracked and survives; for a NEW file use `git -C @WT@ add -N <file>` first so that the diff contains it, and `git -C @WT@ reset -q` + delete it afterwards),
  * `nK.json` — `{"kind": "...one of the kinds above...", "techniques": [...], "summary": "...what the change does...", "why_harmless": "...the argument that behaviour / the property is preserved, including the corner cases you checked...", "files": [...], "probe_digest_before": "...", "probe_digest_after": "..."}`.
and once: `OUT/probe.py` (run as `cd @WT@ && PYTHONPATH=@WT@ /venv/bin/python OUT/probe.py`; it must print `athlib.__file__` first so that it is clear the worktree is imported; it may spawn `node` for the JavaScript port — node 20 is installed, but Babel/Mocha are not, so load the JS sources by reading the files, stripping the import/export lines and eval-ing them).

Before you finish: leave the worktree clean (`git -C @WT@ checkout -- .`), keep only the OUT directory, and check that `git -C @WT@ status --short` shows only `?? OUT/`. In your final answer list, for each change, its kind and one sentence on what it does. If after serious effort you can only produce three valid changes, deliver three and say so.
'''

N2_EXTRA = '''LATER ROUND.  Harmless changes that have ALREADY been delivered by others for this property (do NOT repeat them or close variants of them; touch other functions / tables or use other techniques):
%s

This time prefer the LESS obvious kinds of harmless change, and feel free to combine two or three of them in one diff the way real commits do:
  * inline an EXISTING small helper into its callers and delete it, or split an existing long function into two or three private functions / methods;
  * move a function, class, table or pattern to another (possibly new) module of the package and import it back under its old name;
  * change a data REPRESENTATION with the same content: a NamedTuple / dataclass / Enum / small class instead of a tuple, dict or string flag; a dict keyed differently plus an adapter; a table stored transposed or sorted differently and read accordingly; a list of (key, value) pairs instead of a dict;
  * replace a regular expression by equivalent string operations or the reverse; compile a pattern with re.VERBOSE; merge two patterns into one alternation or split one (the accepted language exactly as before);
  * loop restructuring: while <-> for/range, enumerate/zip/itertools, recursion <-> iteration, sentinel <-> for/else, comprehension with conditions <-> filter/map, early `continue` guards <-> nested ifs;
  * arithmetic written differently but EXACTLY equal in floating point for every input of the domain (do not assume real-number algebra: reorderings that change rounding are NOT harmless - verify with the probe), integer arithmetic via divmod / // / %% , Decimal or Fraction used where exact, constants given names or computed from other named constants with exactly the same value;
  * error handling reshaped without changing what is raised and when: try/except/else, context managers, a guard moved into a validating helper that raises the same exception type at the same point, assert -> explicit raise of the same AssertionError;
  * API hygiene with unchanged behaviour: keyword-only markers, __all__, __slots__, properties instead of trivial getters, @staticmethod/@classmethod where self is unused, functools.lru_cache on a pure function of hashable arguments, typing annotations / Protocols / TYPE_CHECKING imports;
  * the JavaScript side, where the property involves it: classes <-> prototype functions, var -> let/const, arrow functions, destructuring, for-of, template literals, optional chaining ONLY where equivalent, Array methods instead of index loops, Map/Set instead of plain objects.
The kinds named in the first list above (control-flow, extract-inline, rename-reorder, modernise, performance, data-form, feature) still have to be declared in the json ("kind"), choose the closest and add a "techniques" list naming what you combined.

'''


def props():
    out = {}
    for l in open(os.path.join(VERIF, 'properties.jsonl')):
        p = json.loads(l)
        out[p['id']] = "%s — %s\n\nSTATEMENT: %s\n\nQUANTIFIED OVER: %s\n" % (p['id'], p['title'], p['statement'], p['quantifier']['text'])
    return out


def worktree(wt):
    if not os.path.isdir(wt):
        r = subprocess.run('git -C /repo worktree prune; git -C /repo worktree add -q --detach %s HEAD' % wt, shell=True, capture_output=True, text=True)
        if r.returncode:
            print(wt, r.stderr[-200:])
    os.makedirs(wt + '/OUT', exist_ok=True)


def main():
    kind, rnd = sys.argv[1], sys.argv[2]
    os.makedirs(OUT, exist_ok=True)
    P = props()
    for pid, text in sorted(P.items()):
        if kind == 'seed':
            steer = sys.argv[3] if len(sys.argv) > 3 else '-'
            steer = open(steer).read().strip() if steer != '-' else ''
            ideas = []
            for m in sorted(glob.glob('%s/seeded/%s-*/meta.json' % (VERIF, pid))):
                d = json.load(open(m))
                ideas.append('  - ' + ' '.join((d.get('summary') or '').split())[:260])
            taken = ''
            if ideas:
                taken = ('Ideas that have ALREADY been used by others for this property (do NOT repeat them or close variants of them). '
                         + steer + '\n' + '\n'.join(ideas) + '\n\n\n')
            wt = '/tmp/wt-%s' % pid
            s = SEED.replace('__WT__', wt).replace('__PROP__', text.strip()).replace('__TAKEN__', taken)
            open('%s/prompt%s-%s.md' % (OUT, rnd, pid), 'w').write(s)
        else:
            wt = '/tmp/n%s-%s' % (rnd, pid)
            used = []
            for m in sorted(glob.glob('%s/neutral/%s-n*/meta.json' % (VERIF, pid))):
                d = json.load(open(m))
                used.append('  - (%s) %s' % (d.get('kind'), (d.get('summary') or '')[:260].replace('\n', ' ')))
            extra = N2_EXTRA % ('\n'.join(used) or '  (none)') if rnd != '1' else ''
            s = NEUTRAL.replace('@WT@', wt).replace('@PROP@', text.strip()).replace('@EXTRA@', extra)
            open('%s/promptN%s-%s.md' % (OUT, rnd, pid), 'w').write(s)
        worktree(wt)
    print('ok', kind, rnd, len(P))


if __name__ == '__main__':
    main()
