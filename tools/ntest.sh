#!/bin/sh
# usage: ntest.sh <neutral-id> <CHECK...> : run the checks on a scratch copy with the neutral patch applied
id=$1; shift
d=$(mktemp -d /tmp/nt-XXXXXX)
mkdir -p $d/js $d/scripts
cp -r /repo/athlib $d/athlib; cp -r /repo/js/src $d/js/src; cp -r /repo/json $d/json; cp /repo/scripts/make-patterns-js.py $d/scripts/ 2>/dev/null
P=/verif/neutral/$id/patch.diff; [ -f $P ] || P=/verif/seeded/$id/patch.diff
(cd $d && patch -p1 -s -i $P) || echo PATCH-FAILED
for c in "$@"; do (cd /verif && ./check $c --repo $d --quiet --no-evidence 2>&1 | grep -E "^(FINDING|ANALYSIS|OK|VIOL)" | cut -c1-${W:-330}); done
rm -rf $d
