#!/venv/bin/python
"""tools/kf.py fixed PROP RULE 'construct' 'commit-subject-substring' 'what'  |  open PROP RULE 'construct' 'what'"""
import json, subprocess, sys, os
HERE = os.path.dirname(os.path.dirname(os.path.abspath(__file__)))
p = os.path.join(HERE, 'known_findings.json')
kf = json.load(open(p))
mode = sys.argv[1]
if mode == 'fixed':
    prop, rule, construct, sub, what = sys.argv[2:7]
    log = subprocess.run(['git', '-C', '/repo', 'log', '--format=%h %s'], capture_output=True, text=True).stdout.splitlines()
    c = [l.split()[0] for l in log if sub in l]
    assert c, sub
    e = {'property': prop, 'rule': rule, 'construct': ' '.join(construct.split()), 'status': 'fixed', 'commit': c[0], 'what': what}
else:
    prop, rule, construct, what = sys.argv[2:6]
    e = {'property': prop, 'rule': rule, 'construct': ' '.join(construct.split()), 'status': 'open', 'what': what}
kf['findings'] = [x for x in kf['findings'] if (x['property'], x['rule'], x['construct']) != (e['property'], e['rule'], e['construct'])]
kf['findings'].append(e)
json.dump(kf, open(p, 'w'), indent=1)
print('recorded', e['status'], prop, rule)
