#!/venv/bin/python
"""regenerate MANIFEST.json from the table below; properties without a built check go to not_applicable"""
import json, os, sys
HERE = os.path.dirname(os.path.dirname(os.path.abspath(__file__)))
sys.path.insert(0, HERE)
from sa.cli import load_check

CHECKS = {
 'C01': dict(cat='other', technique='constant folding + AST dataflow rules (GRID float-grid hazard lint, guard dominance, rounding-direction contradiction rule, coefficient table vs reference)',
   text='Decides structural necessary conditions of the scoring formula for all inputs: the 52+1 coefficient rows equal the reference table, distances reach the power law through floor and times through ceil on the 0.01 grid after the age factor, no floor/ceil/int is applied to an unguarded float product of the mark (the root cause of the 8% representation-dependent marks), every return is None or a clamped int, the unknown-pair guard dominates every lookup and every call that can raise, the hurdles remap table equals the rule. It does not decide agreement of float pow with exact arithmetic at marks whose real score is within 1e-12 of an integer.',
   note='Trusted: CPython ast; reference constants in spec/athlon_coeffs.json (WA rows checked against the published constants, other rows frozen from the pinned tree); IEEE-754 double rounding of 100*mark*factor repaired by round(.,6) is exact because marks have 2 and factors 4 decimals.'),
 'C02': dict(cat='other', technique='interprocedural effect-before-raise analysis on a statement CFG + guard decision table over the finite state domain',
   text='Decides refusal atomicity on every interprocedural path of the six public mutators, bib_trial and the Jumper trial methods (no observable store precedes a raise), that refusals raise RuleViolation, the admission table (6 states x bar ordering x all other guards as free booleans) against the rules, the state vocabulary and direction, the guard/operation/log/rank order and the flag and attempt-limit consistency. It does not decide that the flags encode the rules along every history (elimination, reinstatement, decided-against-them): those are reachable-state invariants of the transition system, which is model checking, another family.',
   note='Trusted: CPython ast, sa/cfg.py, sa/ebr.py (call resolution by class/method table and container element types inferred from stores); spec/hj_admission.json transcribes the property statement. Loops are summarised to a fixpoint of the finite abstract state; infeasible paths are pruned only when a test is definite on tracked facts.'),
 'C03': dict(cat='other', technique='AST role rules with value numbering of the ranking key (thin, structural part only)',
   text='Decides three structural necessary conditions only: every store to the best height is monotone (max / guarded), the ranking key components have the countback roles (negated best, failures at the best index, failures up to it), the sort is ascending on (key, previous position) with standard-competition place numbering and unplaced athletes hidden, and the stable tie-break _old_pos is unobservable. The placings themselves, tie-for-first handling and jump-off bookkeeping are value-level statements over histories and are not decided.',
   note='Thin by design; trusted: CPython ast. Breaking any checked role changes placings, but holding them does not prove the placings.'),
 'C04': dict(cat='proof', technique='decision procedure on finite automata over a Unicode block partition (language equality/disjointness/inclusion with witnesses)',
   text='Complete decision of the property for all Unicode strings of any length: the 24 patterns are obtained by constant-folding athlib/codes.py (so _orjoin and every splice is interpreted), compiled from CPython\'s own sre parse tree to DFAs of the whole-string language of re.match, and the 7 union equalities, 6 kind-disjointness obligations and the dispatch-order obligations of every first-match classifier in the package are emptiness checks with shortest witnesses.',
   note='Trusted base: CPython sre parser, sa/rx.py+sa/regops.py (cross-validated against re.match), sa/fold.py; the list of parts per composite is transcribed from the property statement.'),
 'C05': dict(cat='other', technique='sign/monotonicity abstract interpretation of the scoring formulas with table-derived sign facts + exhaustive table order checks in exact arithmetic',
   text='Decides weak monotonicity in the right direction for all real inputs in range by a direction/sign abstract interpretation of each scoring formula (monotone primitives compose; IEEE operations are monotone) with sign facts proved over every table row, exact Fraction junction obligations for piecewise formulas, and complete order/bounds checks of every tabulated column (Sportshall, Bulgarian) and clamp orientation. It does not decide termination of the Sportshall table search on the right row.',
   note='Trusted: monotonicity of float pow (libm) and of IEEE + - * /; tables are read by constant folding, never by importing athlib.'),
 'C06': dict(cat='other', technique='AST taint rule (float repr notation into the digit-string rounder), may-raise analysis, interval analysis of the sexagesimal carry',
   text='Decides that no value in float repr/str notation reaches round_up_str_num (whose domain is plain decimal notation; the root cause of 65.00000000000001 -> 1:06.43), that parse_hms/str2num raise only ValueError on str input and try both separators, and by interval analysis that seconds and minutes stay in [0,59] at every formatting statement with two-digit padding and a precision guard. The digit-string ceiling algorithm itself and the parse/format inequality are value-level string arithmetic and are not decided.',
   note='Trusted: CPython ast; builtin exception table (int/float of str raise ValueError only).'),
 'C07': dict(cat='other', technique='abstract interpretation of the normalisers over regular languages (rational transductions) + language inclusion on the image automaton',
   text='Decides, over the whole accepted language, set-level necessary conditions of canonical/valid/stable normalisation: every normalised group stays inside its group language, the upper-case/deletion skeleton and the combined image Out stay inside L(PAT_EVENT_CODE), Out contains no whitespace, every named group that admits unit-suffix or trailing-zero variants has a normaliser, the relay arm is canonical, refusal precedes all work, and numerals are preserved (every plain numeral is the image of its dotted-zero spellings); thorough adds per-family closure and set-level idempotence. Pointwise idempotence and full spelling-equivalence need a relational (transducer) argument and are not decided.',
   note='Trusted: CPython sre parser, automata engine, sa/normint.py (exact transductions for the supported string operations; anything else is an ANALYSIS-ERROR).'),
 'C08': dict(cat='other', technique='AST rules + effect summaries of the call graph (thin, structural part only)',
   text='Decides the structural part: log completeness (each mutator appends exactly one record naming itself with its own argument; no other public method changes state, by effect summaries), three-way agreement of the letter tables (action_letter, Jumper methods, bib_trial), and that the derived views read only the log. Equality of replayed and original competitions and order-independence across athletes are semantic facts about histories (_rank reads and writes other athletes\' flags) and are not decided.',
   note='Thin by design; trusted: CPython ast, sa/ebr.py.'),
 'C09': dict(cat='other', technique='AST role rules: rounding duality and inverse-formula shape per kind arm (thin, structural part only)',
   text='Decides the structural part: per kind arm the rounding of performance() is the dual of score() (floor<->ceil on the same 0.01 grid), both read the same coefficient object with reciprocal exponent and opposite orientation of Z, the negative-target clamp precedes use and the unknown-key guard dominates the lookups. The two-sided optimality at each of the 78k targets depends on float pow at the boundary and is not decided.',
   note='Thin by design; trusted: CPython ast.'),
 'C10': dict(cat='other', technique='regular-domain abstract interpretation (abstract string = DFA, abstract match object = restricted pattern) with inclusion checks at every sink',
   text='Decides totality of discipline_sort_key, get_duration_event_time, unit_name, event_code_to_kind and the relay arm of get_distance over the whole accepted language: every int()/float()/.index()/method-on-None/arithmetic-on-None sink is a language inclusion, reported with a concrete accepted code as witness; plus the ordering constants (category order, FIELD_SORT_ORDER, text-key format, sorter keys only, relay distance = legs * leg). Numeric distance values are approximate by docstring and not decided.',
   note='Trusted: CPython sre/ast parsers, automata engine, sa/e4.py (statement subset: assignment, if/elif/else, return, raise, for over constant tuples; anything else is an ANALYSIS-ERROR).'),
 'C11': dict(cat='other', technique='GRID float-grid hazard lint + exhaustive table checks (order, key reachability via automata, unit conversions by constant folding)',
   text='Decides the float-grid hazard rule on every scoring function (no floor/int of an unguarded scaled float mark), order/sign/bounds of every table row, that every table key is an accepted event code in normal form (reachable through the public function), input-form parity of the sibling *_points methods (no discarded str result), and that the unit conversions of load_data are value-correct for every literal. Equality with the published tables cannot be decided (no copy offline): only internal consistency.',
   note='Trusted: CPython ast; epsilon-guard idioms (round(.,n), +eps<=1e-4, Decimal arithmetic) accepted as enumerated in sa/grid.py.'),
 'C12': dict(cat='other', technique='may-raise / exception-discipline analysis + language membership of formatted records + guard existence rules',
   text='Decides exception discipline on all paths (every explicit raise uses errorKlass; every int()/float() of text-derived data lies in a try whose handler raises errorKlass), that all returns are str, that PAT_PERF filtering dominates numeric parsing, that every field record formatted %0.2f is enterable (member of L(PAT_PERF)), and that a sexagesimal guard exists on the timed arm. Speed limits, round-to-nearest formatting and idempotence are value level and not decided.',
   note='Trusted: CPython ast, automata engine.'),
 'C13': dict(cat='other', technique='decision-table extraction over the finite age domain compared with the rule text (complete modulo the date library)',
   text='Decides the age-group chains completely: the three age variables are relativedelta(<cut-off>, birth).years with the right cut-offs, and the decision chain evaluated for every feasible age triple 0..130 x vets x underage equals spec/uka_agegroups.json (Rules 107/507); plus totality, str/date parity, non-interference of the options and the category dispatch.',
   note='Trusted: dateutil relativedelta.years = completed years (29 Feb -> 28 Feb) and ISO parsing; the spec table transcribes the rule text kept in the module.'),
 'C14': dict(cat='other', technique='normalisation-dominance dataflow rule, undefined-name analysis (symtable), exhaustive JSON table well-formedness',
   text='Decides that in every public grader method gender passes through normalize_gender and event through upper() before being used as a key (sibling cross-check), that no name on the age path is undefined, the grade-formula roles, and for every cell of the three JSON tables: ages increasing, row lengths, one contiguous block of finite positive factors, standards > 0, upper-case text. Numeric identities (grade of the open best = 1.0 exactly) are not decided.',
   note='Trusted: CPython ast/symtable, json.'),
 'C15': dict(cat='other', technique='value-numbering rule for unguarded division by a difference of index-derived quantities (thin)',
   text='Decides that the end-of-table clamp cannot fail: find_row_by_distance can return equal indices, so every division by a difference of two quantities derived from the two indices must be guarded; plus convex-combination shape of both interpolations and presence of the "50" row. Betweenness/monotonicity along the distance axis is numeric and not decided.',
   note='Thin by design; trusted: CPython ast.'),
 'C16': dict(cat='other', technique='shared-state writer inventory + escape analysis + idiom table (publish-after-build, idempotent lazy cache, single atomic container op)',
   text='Sufficient condition for all schedules: shows that no racy shared write exists on any path from the public entry points - inventory of module-level mutable storage, shared instances and class attributes; every reachable write site must be one of the accepted idioms; per-call instances are recognised by escape analysis; argument-dependent scratch on shared objects is reported.',
   note='Trusted: CPython atomicity of a single global/attribute/dict store under the GIL; call graph resolution of sa/src.py.'),
 'C17': dict(cat='other', technique='decision-table extraction over the complete label domain + automata membership of every built code and table key',
   text='Decides totality and masters-monotonicity of get_implement_weight over every label the library itself produces (5 events x 2 genders x 27 labels, complete), that every code built by get_specific_event_code is an accepted, normalised throws code carrying the table weight, that non-throw codes pass through, and that every key of every scoring and age-grading table is an accepted event code.',
   note='Trusted: CPython ast, automata engine, constant folder.'),
 'C18': dict(cat='other', technique='sibling cross-check of the two languages: table equality, key membership agreement, predicate/constant fingerprints of ported pairs (acorn ESTree vs Python ast)',
   text='Decides the structural part: the duplicated tables are equal cell by cell, membership of every table key in the run/event/relay patterns agrees between the Python patterns and the JS regex literals, and the predicate/constant fingerprints of each ported function pair agree modulo a frozen idiom allowlist; language-independent rules of C06 are evaluated on the JS twin. Functional equality (parseInt vs int, string conversion, regex engines) is not decided.',
   note='Trusted: acorn parser bundled in node 20 (parse only, the JS is never evaluated); the idiom allowlist is frozen from the pinned tree with one reason per entry.'),
 'C19': dict(cat='other', technique='effect inventory + control-dependence of cache stores on non-key parameters (memo transparency)',
   text='Complete argument for history independence: the only state carried between calls is the two memo dicts (effect inventory), every parameter the outcome depends on is part of the key or no cache store is control-dependent on it, a hit returns the stored value only and eviction only removes entries; plus every $ref in json/** is local. That bundled samples (in)validate needs a validator run, which the suite already does.',
   note='Trusted: determinism of the file system and of jsonschema.'),
}

props = [json.loads(l) for l in open(os.path.join(HERE, 'properties.jsonl'))]
checks, na = [], []
NA_REASON = {}
for p in props:
    pid = p['id']
    if load_check(pid) is not None and pid in CHECKS:
        c = CHECKS[pid]
        checks.append({
            'property_id': pid,
            'quick_cmd': './check %s --tier quick' % pid,
            'thorough_cmd': './check %s --tier thorough' % pid,
            'evidence_file': 'evidence/%s.json' % pid,
            'replay_cmd_template': './check %s --replay {path}' % pid,
            'engine': 'sa',
            'level_claimed': {'category': c['cat'], 'text': c['text'], 'design_ref': 'DESIGN.md section 4, %s' % pid},
            'level_note': c['note'],
            'technique': c['technique'],
        })
    else:
        na.append({'property_id': pid, 'reason': NA_REASON.get(pid, 'check not built yet in this session (build in progress; see DESIGN.md section 9); nothing is claimed')})
m = {
 'version': 1,
 'setup_cmd': '/venv/bin/python -m compileall -q sa >/dev/null 2>&1; ./check selfcheck',
 'hooks': {'guard': 'ATHLIB_VERIF', 'enable': 'no source hooks exist: the checks parse /repo\'s working tree and never import or run it',
           'baseline_off_cmd': 'cd /repo && /venv/bin/python -m pytest -ra -q -p no:cacheprovider --timeout=900 --continue-on-collection-errors',
           'source_commits': [], 'add_only': True},
 'engines': [{'name': 'sa', 'path': 'sa/', 'serves_properties': [c['property_id'] for c in checks],
              'kind_free_text': 'custom static analysers in pure Python 3.12 stdlib: source model + statement CFG, constant folder, regular-language engine over CPython sre trees, regular-domain abstract interpreters, decision-table extraction, effect/typestate/dataflow rules, JS ESTree reader (acorn, parse only)'}],
 'checks': checks,
 'notes': 'Static analysis only (DESIGN.md). Exit 0 held / 1 VIOLATION / 2 ANALYSIS-ERROR. known_findings.json lists genuine defects: open ones print KNOWN-FINDING, fixed ones suppress nothing. ./check selftest re-seeds defects on scratch copies (validates the checkers, not the properties).',
 'not_applicable': na,
}
json.dump(m, open(os.path.join(HERE, 'MANIFEST.json'), 'w'), indent=1)
print('claimed', [c['property_id'] for c in checks])
