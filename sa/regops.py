"""string operations on regular languages.
A language is a DFA (rx.DFA).  Every op builds an eps-NFA over the same alphabet and determinises.
ENFA: trans[state] = list of (block or None for eps, target); start set; accept set.
"""
from collections import deque
from . import rx


class ENFA:
    def __init__(self, alpha):
        self.alpha = alpha; self.trans = []; self.starts = set(); self.accepts = set()

    def new(self):
        self.trans.append([]); return len(self.trans) - 1

    def edge(self, a, b, t):
        self.trans[a].append((b, t))

    def determinize(self):
        A = self.alpha

        def clo(S):
            S = set(S); dq = deque(S)
            while dq:
                s = dq.popleft()
                for b, t in self.trans[s]:
                    if b is None and t not in S: S.add(t); dq.append(t)
            return frozenset(S)
        start = clo(self.starts)
        index = {start: 0}; order = [start]; trans = []; accept = []
        i = 0
        while i < len(order):
            S = order[i]; i += 1
            accept.append(bool(S & self.accepts))
            mv = {}
            for s in S:
                for b, t in self.trans[s]:
                    if b is not None: mv.setdefault(b, set()).add(t)
            row = {}
            for b, T in mv.items():
                T = clo(T)
                if T not in index: index[T] = len(order); order.append(T)
                row[b] = index[T]
            trans.append(row)
        dead = len(trans); trans.append({}); accept.append(False)
        for row in trans:
            for b in range(A.n): row.setdefault(b, dead)
        return rx.DFA(A, trans, accept)


def live(d):
    rev = {}
    for s, row in enumerate(d.trans):
        for b, t in row.items(): rev.setdefault(t, set()).add(s)
    L = set(i for i, a in enumerate(d.accept) if a); st = list(L)
    while st:
        x = st.pop()
        for p in rev.get(x, ()):
            if p not in L: L.add(p); st.append(p)
    return L


def empty_lang(alpha):
    return rx.DFA(alpha, [{b: 0 for b in range(alpha.n)}], [False])


def const_lang(alpha, s):
    n = ENFA(alpha); cur = n.new(); n.starts.add(cur)
    for ch in s:
        t = n.new(); n.edge(cur, alpha.block_of(ch), t); cur = t
    n.accepts.add(cur)
    return n.determinize()


def sigma_star_set(alpha, blocks, at_least_one=False):
    """(blocks)* or (blocks)+"""
    n = ENFA(alpha); a = n.new(); n.starts.add(a)
    if at_least_one:
        b = n.new()
        for blk in blocks: n.edge(a, blk, b); n.edge(b, blk, b)
        n.accepts.add(b)
    else:
        for blk in blocks: n.edge(a, blk, a)
        n.accepts.add(a)
    return n.determinize()


def contains_any(alpha, blocks):
    """Sigma* [blocks] Sigma*"""
    n = ENFA(alpha); a = n.new(); b = n.new(); n.starts.add(a); n.accepts.add(b)
    for blk in range(alpha.n):
        n.edge(a, blk, a); n.edge(b, blk, b)
        if blk in blocks: n.edge(a, blk, b)
    return n.determinize()


def ends_with_any(alpha, blocks):
    n = ENFA(alpha); a = n.new(); b = n.new(); n.starts.add(a); n.accepts.add(b)
    for blk in range(alpha.n):
        n.edge(a, blk, a)
        if blk in blocks: n.edge(a, blk, b)
    return n.determinize()


def relabel(d, mp, delete=()):
    """image under block->block map; blocks in `delete` are erased"""
    n = ENFA(d.alpha)
    for _ in d.trans: n.new()
    n.starts.add(d.start)
    for s, row in enumerate(d.trans):
        for b, t in row.items():
            if b in delete: n.edge(s, None, t)
            else: n.edge(s, mp[b] if mp else b, t)
    n.accepts = set(i for i, a in enumerate(d.accept) if a)
    return n.determinize()


def concat(d1, d2):
    n = ENFA(d1.alpha)
    off = len(d1.trans)
    for _ in range(off + len(d2.trans)): n.new()
    n.starts.add(d1.start)
    for s, row in enumerate(d1.trans):
        for b, t in row.items(): n.edge(s, b, t)
        if d1.accept[s]: n.edge(s, None, off + d2.start)
    for s, row in enumerate(d2.trans):
        for b, t in row.items(): n.edge(off + s, b, off + t)
        if d2.accept[s]: n.accepts.add(off + s)
    return n.determinize()


def drop_last(d, k):
    """{w[:-k] : w in L}  (python: shorter strings give '')"""
    n = ENFA(d.alpha); N = len(d.trans)
    # layer 0 emits, layers 1..k consume silently
    for _ in range(N * (k + 1)): n.new()
    idx = lambda s, l: l * N + s
    n.starts.add(idx(d.start, 0))
    for s, row in enumerate(d.trans):
        for b, t in row.items():
            n.edge(idx(s, 0), b, idx(t, 0))
            for l in range(k):
                n.edge(idx(s, l), None, idx(t, l + 1))
        if d.accept[s]: n.accepts.add(idx(s, k))
    out = n.determinize()
    # strings shorter than k -> ''
    short = rx.inter(d, lengths_lt(d.alpha, k))
    if rx.witness(short) is not None:
        out = rx.union(out, const_lang(d.alpha, ''))
    return out


def lengths_lt(alpha, k):
    n = ENFA(alpha); sts = [n.new() for _ in range(k)]
    if not sts: return empty_lang(alpha)
    n.starts.add(sts[0])
    for i, s in enumerate(sts):
        n.accepts.add(s)
        if i + 1 < k:
            for b in range(alpha.n): n.edge(s, b, sts[i + 1])
    return n.determinize()


def strip_trailing(d, blocks):
    """{w with its maximal suffix over `blocks` removed}"""
    n = ENFA(d.alpha); N = len(d.trans)
    # phase 0: emitting, last emitted in blocks? tracked: 0a last-not-in-blocks-or-nothing, 0b last-in-blocks ; phase 1: silently eating blocks
    for _ in range(3 * N): n.new()
    A0, B0, P1 = 0, N, 2 * N
    n.starts.add(A0 + d.start)
    for s, row in enumerate(d.trans):
        for b, t in row.items():
            tgt = (B0 if b in blocks else A0) + t
            n.edge(A0 + s, b, tgt); n.edge(B0 + s, b, tgt)
            if b in blocks:
                n.edge(A0 + s, None, P1 + t)   # start eating (only when last emitted not in blocks)
                n.edge(P1 + s, None, P1 + t)
        if d.accept[s]:
            n.accepts.add(A0 + s); n.accepts.add(P1 + s)
    return n.determinize()


def strip_leading(d, blocks):
    n = ENFA(d.alpha); N = len(d.trans)
    for _ in range(2 * N): n.new()
    E, M = 0, N      # E: eating leading, M: emitting
    n.starts.add(E + d.start)
    for s, row in enumerate(d.trans):
        for b, t in row.items():
            if b in blocks: n.edge(E + s, None, E + t)
            else: n.edge(E + s, b, M + t)
            n.edge(M + s, b, M + t)
        if d.accept[s]: n.accepts.add(E + s); n.accepts.add(M + s)
    return n.determinize()


def strip_both(d, blocks):
    return strip_trailing(strip_leading(d, blocks), blocks)


def nfa_from_dfa_into(n, d, xform=None):
    """embed DFA d into rx-style NFA n (rx.NFA) ; returns (start, [accept states]).  xform(blockset)->blockset or 'eps'"""
    m = {}
    for s in range(len(d.trans)): m[s] = n.new()
    lv = live(d)
    for s, row in enumerate(d.trans):
        if s not in lv: continue
        by_t = {}
        for b, t in row.items():
            if t in lv: by_t.setdefault(t, set()).add(b)
        for t, bs in by_t.items():
            n.trans[m[s]].append((frozenset(bs), m[t]))
    return m[d.start], [m[s] for s in range(len(d.trans)) if d.accept[s]]


def relabel_inverse(d, mp):
    """{w : map(w) in L(d)} for a total block->block map"""
    trans = [{b: row[mp[b]] for b in range(d.alpha.n)} for row in d.trans]
    return rx.DFA(d.alpha, trans, list(d.accept), d.start)


def all_of_length(alpha, n, at_least=False):
    e = ENFA(alpha); sts = [e.new() for _ in range(n + 1)]
    e.starts.add(sts[0]); e.accepts.add(sts[n])
    for i in range(n):
        for b in range(alpha.n): e.edge(sts[i], b, sts[i + 1])
    if at_least:
        for b in range(alpha.n): e.edge(sts[n], b, sts[n])
    return e.determinize()


def preimage_prefix(lang, n):
    """{w : w[:n] in lang}"""
    alpha = lang.alpha
    exact_n = rx.inter(lang, all_of_length(alpha, n))
    shorter = rx.inter(lang, lengths_lt(alpha, n))
    return rx.union(concat(exact_n, sigma_star_set(alpha, frozenset(range(alpha.n)))), shorter)


def first_token(d, ws):
    """{w.split()[0] : w in L, w not blank}"""
    n = ENFA(d.alpha); N = len(d.trans)
    for _ in range(3 * N): n.new()
    E, M, D = 0, N, 2 * N      # eating leading ws, emitting token, discarding the rest
    n.starts.add(E + d.start)
    for s, row in enumerate(d.trans):
        for b, t in row.items():
            if b in ws:
                n.edge(E + s, None, E + t)
                n.edge(M + s, None, D + t)
            else:
                n.edge(E + s, b, M + t)
                n.edge(M + s, b, M + t)
            n.edge(D + s, None, D + t)
        if d.accept[s]:
            n.accepts.add(M + s); n.accepts.add(D + s)
    return n.determinize()


def used_blocks(d):
    lv = live(d)
    out = set()
    # reachable and live
    seen = {d.start}; st = [d.start]
    while st:
        s = st.pop()
        for b, t in d.trans[s].items():
            if t in lv:
                out.add(b)
                if t not in seen: seen.add(t); st.append(t)
    return out if d.start in lv else set()
