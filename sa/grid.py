"""E7a GRID: float-grid hazard lint.

A floor/ceil/int/trunc (or a floor division) whose argument scales a value *affine in a parameter* by a power of ten
or divides it, in binary floating point, with no guard, lands just below or above the intended integer for a
fraction of the decimal marks (100*10.22 = 1021.9999999999999).  Accepted guards, enumerated from the repo's idioms:
round(x, n) directly under the sink; an additive epsilon constant 0 < e <= 1e-4 inside the sink's argument;
Decimal / Fraction arithmetic (exact).  Pow / sqrt break "affine" (a formula result is not on a decimal grid), so
formula results are not flagged.
"""
import ast

SINKS = {'floor', 'ceil', 'int', 'trunc'}
POW10 = (10, 100, 1000, 10000, 0.1, 0.01, 0.001, 0.0001)
PASS_THROUGH = ('float', 'parse_hms', 'str2num', 'abs', 'max', 'min')
EXACT_CTORS = ('Decimal', 'Fraction')


def fname(c):
    f = c.func
    return f.id if isinstance(f, ast.Name) else f.attr if isinstance(f, ast.Attribute) else None


def is_pow10(n):
    return isinstance(n, ast.Constant) and isinstance(n.value, (int, float)) and not isinstance(n.value, bool) \
        and any(abs(n.value - p) <= 1e-12 * max(1, abs(p)) for p in POW10)


class FnGrid:
    def __init__(self, fn):
        self.fn = fn
        self.params = {a.arg for a in fn.args.args + fn.args.kwonlyargs}
        self.taint = set(self.params) - {'self', 'cls'}
        self.exact = set()      # names holding Decimal/Fraction values
        self.texts = set()      # names holding text (a Decimal built from text is exact; one built from a float is not)
        for a in fn.args.args:
            if a.annotation is not None and ast.unparse(a.annotation) in EXACT_CTORS:
                self.exact.add(a.arg)
            if a.annotation is not None and ast.unparse(a.annotation) == 'str':
                self.texts.add(a.arg)
        changed = True
        while changed:
            changed = False
            for n in ast.walk(fn):
                if isinstance(n, ast.Assign):
                    tv = self.affine_tainted(n.value)
                    ex = self.is_exact(n.value)
                    for t in n.targets:
                        for x in ast.walk(t):
                            if isinstance(x, ast.Name):
                                if tv and x.id not in self.taint:
                                    self.taint.add(x.id)
                                    changed = True
                                if ex and x.id not in self.exact:
                                    self.exact.add(x.id)
                                    changed = True
                elif isinstance(n, ast.AugAssign) and isinstance(n.target, ast.Name):
                    if n.target.id not in self.taint and self.affine_tainted(n.value):
                        self.taint.add(n.target.id)
                        changed = True

    def is_exact(self, e):
        if isinstance(e, ast.Name):
            return e.id in self.exact
        if isinstance(e, ast.Call) and fname(e) in EXACT_CTORS:
            # Decimal(text) and Decimal(Decimal) are exact; Decimal(float) keeps the binary expansion of the float
            if not e.args:
                return True
            a = e.args[0]
            if isinstance(a, ast.Constant):
                return isinstance(a.value, (str, int))
            if isinstance(a, ast.Name):
                return a.id in self.texts or a.id in self.exact
            if isinstance(a, ast.Call) and fname(a) == 'str':
                return True
            if isinstance(a, (ast.Subscript, ast.BinOp)) and not self.affine_tainted(a):
                return True         # table text
            return self.is_exact(a)
        if isinstance(e, ast.BinOp):
            l, r = self.is_exact(e.left), self.is_exact(e.right)
            # Decimal op int stays Decimal; Decimal op float raises TypeError (never silently inexact)
            return l or r
        if isinstance(e, ast.UnaryOp):
            return self.is_exact(e.operand)
        return False

    def affine_tainted(self, e):
        if isinstance(e, ast.Name):
            return e.id in self.taint
        if isinstance(e, ast.Constant):
            return False
        if isinstance(e, ast.BinOp):
            if isinstance(e.op, ast.Pow):
                return False
            return self.affine_tainted(e.left) or self.affine_tainted(e.right)
        if isinstance(e, ast.UnaryOp):
            return self.affine_tainted(e.operand)
        if isinstance(e, ast.Call):
            n = fname(e)
            if n in PASS_THROUGH or n in EXACT_CTORS:
                return any(self.affine_tainted(a) for a in e.args)
            return False        # sinks / round / sqrt / anything else: on a grid already or not affine
        if isinstance(e, ast.IfExp):
            return self.affine_tainted(e.body) or self.affine_tainted(e.orelse)
        if isinstance(e, (ast.Tuple, ast.List)):
            return any(self.affine_tainted(x) for x in e.elts)
        if isinstance(e, ast.Subscript):
            return self.affine_tainted(e.value)
        return False

    def sites(self):
        """[(node, status, description)] status in 'hazard', 'guarded'"""
        out = []
        for c in ast.walk(self.fn):
            arg = None
            if isinstance(c, ast.Call) and fname(c) in SINKS and c.args:
                arg = c.args[0]
                if isinstance(arg, ast.Call) and fname(arg) in SINKS:
                    continue        # int(floor(x)): the inner sink is the site
            elif isinstance(c, ast.BinOp) and isinstance(c.op, ast.FloorDiv):
                if self.affine_tainted(c.left):
                    if self.is_exact(c.left) or self.is_exact(c.right):
                        out.append((c, 'guarded', 'exact (Decimal/Fraction) floor division'))
                    else:
                        out.append((c, 'hazard', 'float floor division of a value affine in the input'))
                continue
            if arg is None:
                continue
            guard = None
            if isinstance(arg, ast.Call) and fname(arg) == 'round':
                nd = arg.args[1].value if len(arg.args) == 2 and isinstance(arg.args[1], ast.Constant) else 0
                guard = 'round(., %s) directly under the sink' % nd
            eps = [n for n in ast.walk(arg) if isinstance(n, ast.Constant) and isinstance(n.value, float) and 0 < abs(n.value) <= 1e-4]
            if eps and guard is None:
                guard = 'additive epsilon %g' % eps[0].value
            if self.is_exact(arg) and guard is None and not any(
                    isinstance(x, ast.Call) and fname(x) == 'float' for x in ast.walk(arg)):
                guard = 'exact (Decimal/Fraction) arithmetic'
            haz = False
            under_pow = set()
            for b in ast.walk(arg):
                if isinstance(b, ast.BinOp) and isinstance(b.op, ast.Pow):
                    for x in ast.walk(b):
                        if x is not b:
                            under_pow.add(id(x))
            for b in ast.walk(arg):
                if id(b) in under_pow:
                    continue            # a formula result (power law) is not on a decimal grid
                if isinstance(b, ast.BinOp) and isinstance(b.op, (ast.Mult, ast.Div)):
                    lt, rt = self.affine_tainted(b.left), self.affine_tainted(b.right)
                    if isinstance(b.op, ast.Mult) and (is_pow10(b.left) or is_pow10(b.right)) and (lt or rt):
                        haz = True
                    if isinstance(b.op, ast.Div) and lt:
                        haz = True
            if haz:
                out.append((c, 'guarded' if guard else 'hazard', guard or 'float scaling of a value affine in the input under %s()' % fname(c)))
        return out
