"""E4: regular-domain abstract interpreter for the short functions that consume event codes.

Abstract string = DFA over the shared alphabet; abstract match object = pattern restricted by what the path has
learnt.  Path-sensitive (a list of (env, input-language) states); the input language is the set of parameter
values that reach the current point, so every finding carries a concrete witness input.
Statement forms supported: assignment, if/elif/else, return, raise, for over a constant tuple (unrolled),
conditional expressions, and/or/not.  Anything else in an analysed function raises AnalysisError.
"""
import ast
import re._constants as sc

from . import rx, regops as ro
from .core import AnalysisError
from .pats import find_group, replace_group, NOTHING


class GroupSub(rx.NFA):
    """pattern NFA in which group gid is replaced by an arbitrary DFA"""

    def __init__(self, alpha, gid, lang):
        super().__init__(alpha)
        self.gid = gid
        self.lang = lang

    def build1(self, node, s):
        op, av = node
        if op is sc.SUBPATTERN and av[0] == self.gid:
            t = self.new()
            st, accs = ro.nfa_from_dfa_into(self, self.lang)
            self.eps[s].append(st)
            for a in accs:
                self.eps[a].append(t)
            return t
        return super().build1(node, s)


class Val:
    pass


class S(Val):      # str, maybe None
    def __init__(self, lang, none=False, src=None):
        self.lang = lang
        self.none = none
        self.src = src


class MM(Val):     # result of P.search(x): match or None
    def __init__(self, pat, var, R):
        self.pat = pat
        self.var = var
        self.R = R


class M(Val):      # definite match object
    def __init__(self, pat, R):
        self.pat = pat
        self.R = R


class C(Val):
    def __init__(self, v):
        self.v = v


class T(Val):      # unknown; opt = may be None
    def __init__(self, opt=False):
        self.opt = opt


def _fold_const(e, env, consts):
    """value of an expression that involves only constants / constant locals, else raises"""
    from . import fold as _fold
    fenv = dict(consts)
    for k, v in env.items():
        if isinstance(v, C) and not (isinstance(v.v, tuple) and v.v[:1] in (('PAT',), ('TOKENS',))):
            fenv[k] = v.v
    for n in ast.walk(e):
        if isinstance(n, ast.Name) and n.id in env and n.id not in fenv:
            raise ValueError('abstract value')
        if isinstance(n, (ast.Call,)) and isinstance(n.func, ast.Attribute) and n.func.attr in ('match', 'search', 'group'):
            raise ValueError('pattern operation')
    return _fold.Folder().expr(e, fenv)


class Interp:
    """one analysis of function `fname` of `tree` for parameter language `param_lang`"""

    def __init__(self, P, tree, fname, param_lang, consts=None, allow_none_param=False):
        self.P = P
        self.A = P.A
        self.fns = {f.name: f for f in ast.walk(tree) if isinstance(f, ast.FunctionDef)}
        if fname not in self.fns:
            raise AnalysisError('anchor vanished: function %s' % fname)
        self.fname = fname
        self.findings = []      # (node, kind, message, witness input, detail)
        self.consts = consts or {}
        self.optional_fns = {n for n, f in self.fns.items() if self.may_return_none(f)}
        self._group_cache = {}
        fn = self.fns[fname]
        if not fn.args.args:
            raise AnalysisError('%s takes no parameter' % fname)
        self.inputvar = fn.args.args[0].arg
        self.ret = []
        self.raises = []
        self.block(fn.body, {self.inputvar: S(param_lang)}, param_lang)

    # ---- helpers
    def is_empty(self, d):
        return rx.witness(d) is None

    def wit(self, d):
        return self.P.wit(d)

    @staticmethod
    def may_return_none(f):
        for n in ast.walk(f):
            if isinstance(n, ast.Return) and (n.value is None or (isinstance(n.value, ast.Constant) and n.value.value is None)):
                return True
        last = f.body[-1]
        return not isinstance(last, (ast.Return, ast.Raise))

    def report(self, node, kind, msg, inp, detail=None):
        key = (getattr(node, 'lineno', 0), kind, msg)
        if key not in [(getattr(f[0], 'lineno', 0), f[1], f[2]) for f in self.findings]:
            self.findings.append((node, kind, msg, self.wit(inp) if inp is not None else None, detail))

    def group_lang(self, pat, gid):
        k = (pat, gid)
        if k not in self._group_cache:
            sub = find_group(list(self.P.need(pat)), gid)
            if sub is None:
                raise AnalysisError('group %r not found in %s' % (gid, pat))
            GL = self.P.exact(sub)
            skip = rx.determinize(rx.nfa_of(replace_group(list(self.P.need(pat)), gid, NOTHING), self.A))
            self._group_cache[k] = (GL, skip)
        return self._group_cache[k]

    # inp: DFA of inputs that reach this point (path condition projected on the parameter)
    def block(self, stmts, env, inp):
        states = [(env, inp)]
        for st in stmts:
            nxt = []
            for e, i in states:
                if self.is_empty(i):
                    continue
                nxt += self.stmt(st, e, i)
            states = nxt
        return states

    def stmt(self, st, env, inp):
        if isinstance(st, ast.Expr):
            if isinstance(st.value, ast.Constant):
                return [(env, inp)]
            return [(e, i) for v, e, i in self.ev(st.value, env, inp)]
        if isinstance(st, ast.Pass):
            return [(env, inp)]
        if isinstance(st, ast.Assign) and len(st.targets) == 1 and isinstance(st.targets[0], ast.Name) \
                and not isinstance(st.value, (ast.Constant, ast.Name)):
            try:
                val = _fold_const(st.value, env, self.consts)
                if isinstance(val, (int, float, list, tuple)) and not isinstance(val, bool):
                    e2 = dict(env)
                    e2[st.targets[0].id] = C(list(val) if isinstance(val, tuple) else val)
                    return [(e2, inp)]
            except Exception:
                pass
        if isinstance(st, ast.Assign) and len(st.targets) == 1:
            out = []
            for v, e, i in self.ev(st.value, env, inp):
                e = dict(e)
                t = st.targets[0]
                if isinstance(t, ast.Name):
                    e[t.id] = v
                    e.pop('@' + t.id, None)
                    if isinstance(v, S) and v.src and v.src[0] == 'group':
                        e['@' + t.id] = '$grp:%s:%s' % (v.src[1], v.src[2])
                    if t.id == self.inputvar and isinstance(v, S):
                        i = v.lang      # the parameter was re-bound: continue in terms of the new value
                elif isinstance(t, ast.Tuple) and all(isinstance(x, ast.Name) for x in t.elts):
                    for x in t.elts:
                        e[x.id] = T()
                else:
                    raise AnalysisError('%s: unsupported assignment target at line %d' % (self.fname, st.lineno))
                out.append((e, i))
            return out
        if isinstance(st, ast.Return):
            if st.value is not None:
                for v, e, i in self.ev(st.value, env, inp):
                    self.ret.append((v, i, st))
            else:
                self.ret.append((C(None), inp, st))
            return []
        if isinstance(st, ast.Raise):
            self.raises.append((st, inp))
            self.report(st, 'raise', 'reaches raise', inp)
            return []
        if isinstance(st, ast.If):
            out = []
            for truth, e, i in self.cond(st.test, env, inp):
                if self.is_empty(i):
                    continue
                out += self.block(st.body if truth else st.orelse, e, i)
            return out
        if isinstance(st, ast.For) and isinstance(st.iter, (ast.Tuple, ast.List)) and isinstance(st.target, ast.Name) \
                and all(isinstance(x, ast.Constant) for x in st.iter.elts) and not st.orelse:
            states = [(env, inp)]
            for c in st.iter.elts:
                nxt = []
                for e, i in states:
                    e = dict(e)
                    e[st.target.id] = C(c.value)
                    nxt += self.block(st.body, e, i)
                states = nxt
            return states
        if isinstance(st, ast.For) and isinstance(st.iter, (ast.Tuple, ast.List)) and isinstance(st.target, ast.Tuple) \
                and all(isinstance(x, ast.Tuple) for x in st.iter.elts) and not st.orelse:
            # for n, p in (('throw', PAT_THROWS), ...): classifier idiom -> unroll
            states = [(env, inp)]
            for tup in st.iter.elts:
                nxt = []
                for e, i in states:
                    e = dict(e)
                    for tgt, val in zip(st.target.elts, tup.elts):
                        if isinstance(val, ast.Constant):
                            e[tgt.id] = C(val.value)
                        elif isinstance(val, ast.Name) and val.id in self.P.parsed:
                            e[tgt.id] = C(('PAT', val.id))
                        else:
                            e[tgt.id] = T()
                    nxt += self.block(st.body, e, i)
                states = nxt
            return states
        if isinstance(st, ast.For) and isinstance(st.target, ast.Name) and not st.orelse:
            # an iterable that folds to a finite list of constants (range(...), a constant table): unroll
            try:
                items = list(_fold_const(st.iter, env, self.consts))
            except Exception:
                items = None
            if items is not None and len(items) <= 64 and all(isinstance(x, (int, str)) and not isinstance(x, bool) for x in items):
                states = [(env, inp)]
                for c in items:
                    nxt = []
                    for e, i in states:
                        e = dict(e)
                        e[st.target.id] = C(c)
                        nxt += self.block(st.body, e, i)
                    states = nxt
                return states
        raise AnalysisError('%s: statement form %s at line %d is outside the supported subset' % (
            self.fname, type(st).__name__, st.lineno))

    # ---- conditions: list of (truth, env, inp)
    def cond(self, t, env, inp):
        P = self.P
        if isinstance(t, ast.UnaryOp) and isinstance(t.op, ast.Not):
            return [(not tr, e, i) for tr, e, i in self.cond(t.operand, env, inp)]
        if isinstance(t, ast.BoolOp):
            res = []
            states = [(env, inp)]
            isand = isinstance(t.op, ast.And)
            for sub in t.values:
                nxt = []
                for e, i in states:
                    for tr, e2, i2 in self.cond(sub, e, i):
                        if tr == isand:
                            nxt.append((e2, i2))
                        else:
                            res.append((tr, e2, i2))
                states = nxt
            res += [(isand, e, i) for e, i in states]
            return res
        if isinstance(t, ast.Name):
            v = env.get(t.id)
            if isinstance(v, MM):
                Lp = P.dfa(v.pat)
                yes = rx.inter(v.R, Lp)
                no = rx.diff(v.R, Lp)
                et = dict(env)
                et[t.id] = M(v.pat, yes)
                ef = dict(env)
                ef[t.id] = C(None)
                if v.var:
                    et[v.var] = S(yes)
                    ef[v.var] = S(no)
                isin = v.var == self.inputvar
                return [(True, et, rx.inter(inp, yes) if isin else inp),
                        (False, ef, rx.inter(inp, no) if isin else inp)]
            if isinstance(v, M):
                return [(True, env, inp)]
            if isinstance(v, C):
                return [(bool(v.v), env, inp)]
            if isinstance(v, S):
                nonempty = rx.diff(v.lang, P.EPS)
                out = []
                if not self.is_empty(nonempty):
                    e = dict(env)
                    e[t.id] = S(nonempty, False, v.src)
                    out.append((True, e, self.narrow(inp, v, nonempty, t.id)))
                if v.none or rx.accepts(v.lang, ''):
                    e = dict(env)
                    e[t.id] = S(rx.inter(v.lang, P.EPS), v.none, v.src)
                    i2 = self.narrow_none(inp, v, True) if v.none else P.EMPTY
                    if rx.accepts(v.lang, ''):
                        i2 = rx.union(i2, self.narrow(inp, v, P.EPS, t.id))
                    self.rebind(e, t, e[t.id])
                    out.append((False, e, i2))
                return out
            return [(True, env, inp), (False, env, inp)]
        if isinstance(t, ast.Compare) and len(t.ops) == 1:
            op = t.ops[0]
            l, r = t.left, t.comparators[0]
            if isinstance(op, (ast.Is, ast.IsNot)) and isinstance(r, ast.Constant) and r.value is None:
                out = []
                for v, e, i in self.ev(l, env, inp):
                    isn = isinstance(op, ast.Is)
                    if isinstance(v, S):
                        if v.none:
                            e1 = dict(e)
                            self.rebind(e1, l, S(P.EMPTY, True, v.src))
                            out.append((isn, e1, self.narrow_none(i, v, True)))
                        if not self.is_empty(v.lang):
                            e2 = dict(e)
                            self.rebind(e2, l, S(v.lang, False, v.src))
                            out.append((not isn, e2, self.narrow_none(i, v, False)))
                    elif isinstance(v, T):
                        if v.opt:
                            e1 = dict(e)
                            self.rebind(e1, l, C(None))
                            out.append((isn, e1, i))
                        e2 = dict(e)
                        self.rebind(e2, l, T(False))
                        out.append((not isn, e2, i))
                    elif isinstance(v, C):
                        out.append(((v.v is None) == isn, e, i))
                    else:
                        out.append((not isn, e, i))
                return out
            if isinstance(op, (ast.Eq, ast.NotEq)) and isinstance(r, ast.Constant) and isinstance(r.value, str):
                return self.refine(l, P.const(r.value), isinstance(op, ast.Eq), env, inp)
            if isinstance(op, (ast.In, ast.NotIn)):
                rv = self.const_of(r, env)
                if rv is not None and all(isinstance(x, str) for x in rv):
                    return self.refine(l, P.finite(rv), isinstance(op, ast.In), env, inp)
        if isinstance(t, ast.Call) and isinstance(t.func, ast.Attribute) and t.func.attr in ('endswith', 'startswith') \
                and len(t.args) == 1 and isinstance(t.args[0], ast.Constant) and isinstance(t.args[0].value, str):
            c = P.const(t.args[0].value)
            lang = ro.concat(P.ANY, c) if t.func.attr == 'endswith' else ro.concat(c, P.ANY)
            return self.refine(t.func.value, lang, True, env, inp, need_str=t)
        if isinstance(t, ast.Call):
            out = []
            for v, e, i in self.ev(t, env, inp):
                if isinstance(v, MM):
                    e = dict(e)
                    e['__tmp'] = v
                    out += self.cond(ast.Name(id='__tmp', ctx=ast.Load()), e, i)
                else:
                    out += [(True, e, i), (False, e, i)]
            return out
        # unknown test: evaluate for effects, both outcomes
        out = []
        for v, e, i in self.ev(t, env, inp):
            out += [(True, e, i), (False, e, i)]
        return out

    def rebind(self, env, node, val):
        if isinstance(node, ast.Name):
            env[node.id] = val
            if '@' + node.id in env:
                env[env['@' + node.id]] = val
        elif isinstance(node, ast.Call) and isinstance(val, S) and val.src and val.src[0] == 'group':
            ck = '$grp:%s:%s' % (val.src[1], val.src[2])
            env[ck] = val
            for k, v in list(env.items()):
                if k.startswith('@') and v == ck:
                    env[k[1:]] = val

    def narrow(self, inp, v, lang, name=None):
        """narrow the input language when v is (a refinement of) the input variable or a group of a match on it"""
        if name == self.inputvar:
            return rx.inter(inp, lang)
        if v.src and v.src[0] == 'group':
            _, pat, gid, R = v.src
            n = GroupSub(self.A, gid, lang)
            n.final = n.build(list(self.P.need(pat)), n.start)
            return rx.inter(inp, rx.determinize(n))
        if v.src and v.src[0] == 'upper' and v.src[1] == 'input':
            return rx.inter(inp, ro.relabel_inverse(lang, self.P.UM_total()))
        if v.src and v.src[0] == 'prefix':
            _, n, parent, pname = v.src
            return self.narrow(inp, parent, ro.preimage_prefix(lang, n), pname)
        return inp

    def narrow_none(self, inp, v, isnone):
        if v.src and v.src[0] == 'group':
            _, pat, gid, R = v.src
            GL, skip = self.group_lang(pat, gid)
            return rx.inter(inp, skip) if isnone else rx.diff(inp, skip)
        return inp

    def refine(self, lnode, lang, positive, env, inp, need_str=None):
        if isinstance(lnode, ast.Subscript) and isinstance(lnode.value, ast.Name) and isinstance(lnode.slice, ast.Slice) \
                and lnode.slice.lower is None and lnode.slice.upper is not None and lnode.slice.step is None:
            nv = self.ev(lnode.slice.upper, env, inp)[0][0]
            if isinstance(nv, C) and isinstance(nv.v, int) and nv.v > 0:
                return self.refine(lnode.value, ro.preimage_prefix(lang, nv.v), positive, env, inp, need_str)
        out = []
        for v, e, i in self.ev(lnode, env, inp):
            if not isinstance(v, S):
                if need_str is not None and ((isinstance(v, T) and v.opt) or (isinstance(v, C) and v.v is None)):
                    self.report(need_str, 'none-method', 'method call on a value that may be None', i)
                out += [(True, e, i), (False, e, i)]
                continue
            if need_str is not None and v.none:
                self.report(need_str, 'none-method', 'method .%s() on a value that may be None' % need_str.func.attr,
                            self.narrow_none(i, v, True))
                i = self.narrow_none(i, v, False)
                v = S(v.lang, False, v.src)
            yes = rx.inter(v.lang, lang)
            no = rx.diff(v.lang, lang)
            if not self.is_empty(yes):
                e1 = dict(e)
                self.rebind(e1, lnode, S(yes, False, v.src))
                out.append((positive, e1, self.narrow(i, v, yes, getattr(lnode, 'id', None))))
            if not self.is_empty(no) or v.none:
                e2 = dict(e)
                self.rebind(e2, lnode, S(no, v.none, v.src))
                i2 = i
                if not v.none:
                    i2 = self.narrow(i, v, no, getattr(lnode, 'id', None))
                out.append((not positive, e2, i2))
        return out

    def const_of(self, node, env):
        if isinstance(node, (ast.Tuple, ast.List, ast.Set)) and all(isinstance(x, ast.Constant) for x in node.elts):
            return [x.value for x in node.elts]
        if isinstance(node, ast.Name):
            v = env.get(node.id)
            if isinstance(v, C) and isinstance(v.v, (list, tuple, dict, set, frozenset)):
                return list(v.v)
            if node.id not in env and node.id in self.consts and isinstance(self.consts[node.id], (list, tuple, dict, set, frozenset)):
                return list(self.consts[node.id])      # membership in a dict is membership in its keys
        return None

    # ---- expressions: list of (value, env, inp)
    def ev(self, e, env, inp):
        P = self.P
        A = self.A
        if isinstance(e, ast.Constant):
            return [(S(P.const(e.value)) if isinstance(e.value, str) else C(e.value), env, inp)]
        if isinstance(e, ast.Name):
            if e.id in env:
                return [(env[e.id], env, inp)]
            if e.id in self.consts and isinstance(self.consts[e.id], (list, tuple)):
                return [(C(list(self.consts[e.id])), env, inp)]
            if e.id in P.parsed:
                return [(C(('PAT', e.id)), env, inp)]
            return [(T(), env, inp)]
        if isinstance(e, (ast.Tuple, ast.List)):
            states = [([], env, inp)]
            for x in e.elts:
                states = [(vs + [v], e2, i2) for vs, e1, i1 in states for v, e2, i2 in self.ev(x, e1, i1)]
            return [(T(), e1, i1) for vs, e1, i1 in states]
        if isinstance(e, ast.IfExp):
            out = []
            for tr, e1, i1 in self.cond(e.test, env, inp):
                if self.is_empty(i1):
                    continue
                out += self.ev(e.body if tr else e.orelse, e1, i1)
            return out
        if isinstance(e, ast.BoolOp) and isinstance(e.op, ast.Or):
            # x or default : non-None when the last operand is
            out = []
            states = [(env, inp)]
            last = None
            for x in e.values:
                nxt = []
                for e1, i1 in states:
                    for v, e2, i2 in self.ev(x, e1, i1):
                        nxt.append((e2, i2))
                        last = v
                states = nxt
            opt = isinstance(last, T) and last.opt or isinstance(last, S) and last.none or isinstance(last, C) and last.v is None
            return [(T(bool(opt)), e1, i1) for e1, i1 in states]
        if isinstance(e, ast.BoolOp):
            states = [(env, inp)]
            for x in e.values:
                states = [(e2, i2) for e1, i1 in states for v, e2, i2 in self.ev(x, e1, i1)]
            return [(T(True), e1, i1) for e1, i1 in states]
        if isinstance(e, ast.UnaryOp):
            return [(T(), e1, i1) for v, e1, i1 in self.ev(e.operand, env, inp)]
        if isinstance(e, ast.Compare):
            states = [(env, inp)]
            for x in [e.left] + list(e.comparators):
                states = [(e2, i2) for e1, i1 in states for v, e2, i2 in self.ev(x, e1, i1)]
            return [(T(), e1, i1) for e1, i1 in states]
        if isinstance(e, ast.BinOp):
            out = []
            for l, e1, i1 in self.ev(e.left, env, inp):
                for r, e2, i2 in self.ev(e.right, e1, i1):
                    if isinstance(e.op, ast.Mod) and isinstance(l, S):
                        out.append((T(), e2, i2))
                        continue
                    if isinstance(e.op, ast.Add) and isinstance(l, S) and isinstance(r, S) and not l.none and not r.none:
                        out.append((S(ro.concat(l.lang, r.lang)), e2, i2))
                        continue
                    for side, nm in ((l, 'left'), (r, 'right')):
                        if (isinstance(side, T) and side.opt) or (isinstance(side, S) and side.none) \
                                or (isinstance(side, C) and side.v is None):
                            self.report(e, 'none-arith', 'arithmetic on a value that may be None (%s operand)' % nm, i2)
                    out.append((T(), e2, i2))
            return out
        if isinstance(e, ast.Subscript):
            out = []
            for v, e1, i1 in self.ev(e.value, env, inp):
                if isinstance(v, S):
                    if v.none:
                        self.report(e, 'none-subscript', 'subscript of a value that may be None', self.narrow_none(i1, v, True))
                    sl = e.slice
                    if isinstance(sl, ast.Slice) and sl.lower is None and sl.upper is not None and sl.step is None:
                        n = self.ev(sl.upper, e1, i1)[0][0]
                        if isinstance(n, C) and isinstance(n.v, int) and n.v > 0:
                            nm = e.value.id if isinstance(e.value, ast.Name) else None
                            out.append((S(self.prefix(v.lang, n.v), False, ('prefix', n.v, v, nm)), e1, i1))
                            continue
                        if isinstance(n, C) and isinstance(n.v, int) and n.v < 0:
                            out.append((S(ro.drop_last(v.lang, -n.v)), e1, i1))
                            continue
                    if isinstance(sl, ast.UnaryOp) and isinstance(sl.op, ast.USub) and isinstance(sl.operand, ast.Constant) \
                            and sl.operand.value == 1:
                        if rx.accepts(v.lang, ''):
                            self.report(e, 'index-empty', 'index [-1] of a possibly empty string', self.narrow(i1, v, P.EPS))
                        out.append((S(self.one_char()), e1, i1))
                        continue
                    if isinstance(sl, ast.Constant) and sl.value == 0:
                        if rx.accepts(v.lang, ''):
                            self.report(e, 'index-empty', 'index [0] of a possibly empty string', self.narrow(i1, v, P.EPS))
                        out.append((S(self.prefix(rx.diff(v.lang, P.EPS), 1)), e1, i1))
                        continue
                elif isinstance(v, C) and isinstance(v.v, tuple) and v.v[:1] == ('TOKENS',) \
                        and isinstance(e.slice, ast.Constant) and e.slice.value == 0:
                    blank = rx.inter(v.v[1], ro.sigma_star_set(A, P.WS))
                    if not self.is_empty(blank):
                        self.report(e, 'index-empty', '.split()[0] of a possibly blank string', blank)
                    out.append((S(ro.first_token(v.v[1], P.WS)), e1, i1))
                    continue
                elif (isinstance(v, T) and v.opt) or (isinstance(v, C) and v.v is None):
                    self.report(e, 'none-subscript', 'subscript of a value that may be None', i1)
                out.append((T(), e1, i1))
            return out
        if isinstance(e, ast.JoinedStr):
            return [(T(), env, inp)]
        if isinstance(e, ast.Call):
            return self.call(e, env, inp)
        if isinstance(e, ast.Attribute):
            return [(T(), e1, i1) for v, e1, i1 in self.ev(e.value, env, inp)]
        return [(T(), env, inp)]

    def one_char(self):
        return ro.all_of_length(self.A, 1)

    def call(self, e, env, inp):
        P = self.P
        A = self.A
        f = e.func
        if isinstance(f, ast.Attribute):
            out = []
            for recv, e1, i1 in self.ev(f.value, env, inp):
                if isinstance(recv, C) and isinstance(recv.v, tuple) and recv.v[:1] == ('PAT',) and f.attr in ('search', 'match'):
                    for a, e2, i2 in self.ev(e.args[0], e1, i1):
                        var = e.args[0].id if isinstance(e.args[0], ast.Name) else None
                        if isinstance(a, S):
                            if a.none:
                                self.report(e, 'none-arg', '%s.%s() of a value that may be None' % (recv.v[1], f.attr),
                                            self.narrow_none(i2, a, True))
                            out.append((MM(recv.v[1], var, a.lang), e2, i2))
                        else:
                            out.append((T(True), e2, i2))
                    continue
                if isinstance(recv, C) and recv.v is None:
                    self.report(e, 'none-method', 'method .%s() on None' % f.attr, i1)
                    out.append((T(), e1, i1))
                    continue
                if isinstance(recv, MM) and f.attr in ('group', 'groups', 'groupdict', 'span', 'start', 'end'):
                    self.report(e, 'none-method', 'method .%s() on a match result that may be None' % f.attr,
                                rx.diff(i1, P.dfa(recv.pat)) if recv.var == self.inputvar else i1)
                    recv = M(recv.pat, rx.inter(recv.R, P.dfa(recv.pat)))
                if isinstance(recv, M) and f.attr == 'group':
                    k = e.args[0].value if e.args and isinstance(e.args[0], ast.Constant) else (0 if not e.args else None)
                    if k is None:
                        out.append((T(True), e1, i1))
                        continue
                    if k == 0:
                        # text matched by the whole pattern (a prefix of the subject for patterns without $)
                        out.append((S(P.exact(P.need(recv.pat))), e1, i1))
                        continue
                    gid = P.group_index(recv.pat, k)
                    ckey = '$grp:%s:%s' % (recv.pat, gid)
                    if ckey in e1:
                        out.append((e1[ckey], e1, i1))
                        continue
                    GL, skip = self.group_lang(recv.pat, gid)
                    may_none = not self.is_empty(rx.inter(skip, rx.inter(recv.R, i1)))
                    val = S(GL, may_none, ('group', recv.pat, gid, recv.R))
                    e1 = dict(e1)
                    e1[ckey] = val
                    out.append((val, e1, i1))
                    continue
                if isinstance(recv, C) and isinstance(recv.v, list) and f.attr == 'index' and e.args:
                    for a, e2, i2 in self.ev(e.args[0], e1, i1):
                        if isinstance(a, S):
                            lang = P.finite([x for x in recv.v if isinstance(x, str)])
                            bad = rx.diff(a.lang, lang)
                            if not self.is_empty(bad):
                                some = self.enumerate_some(bad)
                                self.report(e, 'index-missing', '.index() of a value that may be missing from the list',
                                            self.narrow(i2, a, bad),
                                            {'missing': some, 'inputs': {m: self.wit(self.narrow(i2, a, P.const(m))) for m in some}})
                        out.append((T(), e2, i2))
                    continue
                if isinstance(recv, S):
                    if recv.none:
                        self.report(e, 'none-method', 'method .%s() on a value that may be None' % f.attr,
                                    self.narrow_none(i1, recv, True))
                    isinput = isinstance(f.value, ast.Name) and f.value.id == self.inputvar
                    if f.attr == 'upper' and not e.args:
                        out.append((S(P.upper(recv.lang), False, ('upper', 'input' if isinput else None)), e1, i1))
                        continue
                    if f.attr == 'lower' and not e.args:
                        out.append((S(P.lower(recv.lang)), e1, i1))
                        continue
                    if f.attr == 'strip' and not e.args:
                        out.append((S(ro.strip_both(recv.lang, P.WS)), e1, i1))
                        continue
                    if f.attr == 'replace' and len(e.args) == 2 and all(isinstance(a, ast.Constant) for a in e.args) \
                            and isinstance(e.args[0].value, str) and len(e.args[0].value) == 1 and e.args[1].value == '':
                        out.append((S(ro.relabel(recv.lang, None, delete={A.block_of(e.args[0].value)})), e1, i1))
                        continue
                    if f.attr == 'split' and not e.args:
                        out.append((C(('TOKENS', recv.lang)), e1, i1))
                        continue
                # evaluate arguments for effects
                states = [(e1, i1)]
                for a in e.args:
                    states = [(e3, i3) for e2, i2 in states for v, e3, i3 in self.ev(a, e2, i2)]
                out += [(T(), e2, i2) for e2, i2 in states]
            return out
        if isinstance(f, ast.Name):
            if f.id in ('int', 'float') and len(e.args) == 1:
                out = []
                dom = P.dfa('@INT') if f.id == 'int' else P.dfa('@FLOAT')
                for a, e1, i1 in self.ev(e.args[0], env, inp):
                    if isinstance(a, S):
                        if a.none:
                            self.report(e, 'none-arg', '%s() of a value that may be None' % f.id, self.narrow_none(i1, a, True))
                        bad = rx.diff(a.lang, dom)
                        if not self.is_empty(bad):
                            self.report(e, 'conv-domain', '%s() of a string outside its domain' % f.id,
                                        self.narrow(i1, a, bad), {'bad_value': self.wit(bad)})
                    elif (isinstance(a, T) and a.opt) or (isinstance(a, C) and a.v is None):
                        self.report(e, 'none-arg', '%s() of a value that may be None' % f.id, i1)
                    out.append((T(), e1, i1))
                return out
            if f.id in self.fns and f.id not in env:
                out = []
                if len(e.args) == 1 and not e.keywords and f.id != self.fname:
                    for a, e1, i1 in self.ev(e.args[0], env, inp):
                        if isinstance(a, S) and not a.none:
                            sub = Interp.__new__(Interp)
                            sub.P = P
                            sub.A = A
                            sub.fns = self.fns
                            sub.fname = f.id
                            sub.findings = []
                            sub.ret = []
                            sub.raises = []
                            sub.consts = self.consts
                            sub.optional_fns = self.optional_fns
                            sub._group_cache = self._group_cache
                            cf = self.fns[f.id]
                            sub.inputvar = cf.args.args[0].arg
                            sub.block(cf.body, {sub.inputvar: S(a.lang)}, a.lang)
                            for fd in sub.findings:
                                # witness of a callee finding is a value of the argument, not of our input
                                self.findings.append((fd[0], fd[1], fd[2] + ' (in %s, called from %s)' % (f.id, self.fname),
                                                      self.wit(self.narrow(i1, a, P.finite([fd[3]]) if fd[3] is not None else a.lang)) if fd[3] is not None else None,
                                                      dict(fd[4] or {}, callee_argument=fd[3])))
                            opt = any((isinstance(v, C) and v.v is None) or (isinstance(v, T) and v.opt) or
                                      (isinstance(v, S) and v.none) for v, _, _ in sub.ret) or \
                                (f.id in self.optional_fns and not sub.ret)
                            # implicit fall-off-the-end return
                            if not isinstance(cf.body[-1], (ast.Return, ast.Raise, ast.If)):
                                opt = True
                            if isinstance(cf.body[-1], ast.If) and f.id in self.optional_fns:
                                opt = True
                            out.append((T(bool(opt)), e1, i1))
                        else:
                            out.append((T(f.id in self.optional_fns), e1, i1))
                    return out
                states = [(env, inp)]
                for a in e.args:
                    states = [(e2, i2) for e1, i1 in states for v, e2, i2 in self.ev(a, e1, i1)]
                return [(T(f.id in self.optional_fns), e1, i1) for e1, i1 in states]
            if f.id == 'len':
                return [(T(), e1, i1) for v, e1, i1 in self.ev(e.args[0], env, inp)]
        states = [(env, inp)]
        for a in e.args:
            states = [(e2, i2) for e1, i1 in states for v, e2, i2 in self.ev(a, e1, i1)]
        return [(T(), e1, i1) for e1, i1 in states]

    def enumerate_some(self, d, limit=12):
        """up to `limit` members of a language (shortest first)"""
        out = []
        from collections import deque
        lv = ro.live(d)
        dq = deque([(d.start, ())])
        seen = 0
        while dq and len(out) < limit and seen < 20000:
            s, pref = dq.popleft()
            seen += 1
            if d.accept[s]:
                out.append(rx.show(self.A, pref))
            if len(pref) > 6:
                continue
            for b in range(self.A.n):
                t = d.trans[s][b]
                if t in lv:
                    dq.append((t, pref + (b,)))
        return out

    def prefix(self, d, n):
        """{w[:n]}"""
        A = self.A
        e = ro.ENFA(A)
        N = len(d.trans)
        lv = ro.live(d)
        for _ in range(N * (n + 1)):
            e.new()
        e.starts.add(d.start)
        for l in range(n + 1):
            for s in range(N):
                if s not in lv:
                    continue
                if l < n:
                    for b, t in d.trans[s].items():
                        if t in lv:
                            e.edge(l * N + s, b, (l + 1) * N + t)
                    if d.accept[s]:
                        e.accepts.add(l * N + s)
                else:
                    e.accepts.add(l * N + s)
        return e.determinize()
