"""regular-language engine over sre parse trees.

Semantics modelled: str patterns, no flags (flags==re.UNICODE only), re.match
(= anchored at 0, prefix match, assertions evaluated in context).
Supported nodes: LITERAL NOT_LITERAL IN(LITERAL RANGE CATEGORY NEGATE) ANY BRANCH
SUBPATTERN MAX_REPEAT MIN_REPEAT AT(AT_BEGINNING, AT_END).  Anything else raises
Unsupported (fail closed).
"""
import re._parser as sp
import re._constants as sc
import sys
from collections import deque

MAXREPEAT = sc.MAXREPEAT


class Unsupported(Exception):
    pass


# ---------------------------------------------------------------- char sets
def _cat_pred(cat):
    name = str(cat)
    return {
        'CATEGORY_DIGIT': lambda c: c.isdecimal(),
        'CATEGORY_NOT_DIGIT': lambda c: not c.isdecimal(),
        'CATEGORY_SPACE': lambda c: c.isspace(),
        'CATEGORY_NOT_SPACE': lambda c: not c.isspace(),
        'CATEGORY_WORD': lambda c: c.isalnum() or c == '_',
        'CATEGORY_NOT_WORD': lambda c: not (c.isalnum() or c == '_'),
    }[name]


class CharSet:
    """predicate over code points built from an sre node"""
    def __init__(self, items, negate=False):
        self.items = items      # list of ('lit', cp) ('range', lo, hi) ('cat', name)
        self.negate = negate

    def has(self, ch):
        cp = ord(ch)
        r = False
        for it in self.items:
            if it[0] == 'lit':
                if cp == it[1]: r = True; break
            elif it[0] == 'range':
                if it[1] <= cp <= it[2]: r = True; break
            elif it[0] == 'cat':
                if _cat_pred(it[1])(ch): r = True; break
            elif it[0] == 'any':
                if ch != '\n': r = True; break
        return r != self.negate


def charset_of(node):
    op, av = node
    if op is sc.LITERAL:
        return CharSet([('lit', av)])
    if op is sc.NOT_LITERAL:
        return CharSet([('lit', av)], True)
    if op is sc.ANY:
        return CharSet([('any',)])
    if op is sc.IN:
        items = []; neg = False
        for o, a in av:
            if o is sc.NEGATE: neg = True
            elif o is sc.LITERAL: items.append(('lit', a))
            elif o is sc.RANGE: items.append(('range', a[0], a[1]))
            elif o is sc.CATEGORY: items.append(('cat', str(a)))
            else: raise Unsupported('IN item %r' % (o,))
        return CharSet(items, neg)
    raise Unsupported('charset %r' % (op,))


def walk(nodes, fn):
    for node in nodes:
        fn(node)
        op, av = node
        if op is sc.BRANCH:
            for alt in av[1]: walk(alt, fn)
        elif op is sc.SUBPATTERN:
            walk(av[3], fn)
        elif op in (sc.MAX_REPEAT, sc.MIN_REPEAT):
            walk(av[2], fn)
        elif op in (sc.LITERAL, sc.NOT_LITERAL, sc.IN, sc.ANY, sc.AT):
            pass
        else:
            raise Unsupported('node %r' % (op,))


_UC = None


def _unicode_classes():
    """sets of code points matched by \\d, \\s, \\w in a str pattern (computed with re itself)"""
    global _UC
    if _UC is None:
        import re
        allc = ''.join(map(chr, range(sys.maxunicode + 1)))
        _UC = tuple(frozenset(map(ord, re.findall(p, allc))) for p in (r'\d', r'\s', r'\w'))
    return _UC


class Alphabet:
    """Finite partition of the Unicode code space that refines every char set
    used by the given parsed patterns.  Blocks are ints; each has a representative."""
    def __init__(self, parsed_list, extra_chars=''):
        explicit = set(ord(c) for c in extra_chars) | {10}
        cats = set()
        big_ranges = []
        def see(node):
            op, av = node
            if op in (sc.LITERAL, sc.NOT_LITERAL):
                explicit.add(av)
            elif op is sc.IN:
                for o, a in av:
                    if o is sc.LITERAL: explicit.add(a)
                    elif o is sc.RANGE:
                        if a[1] - a[0] <= 512: explicit.update(range(a[0], a[1] + 1))
                        else: big_ranges.append(a)
                    elif o is sc.CATEGORY: cats.add(str(a))
        for p in parsed_list:
            walk(p, see)
        # case closure of explicit letters (needed for the upper() homomorphism)
        for cp in list(explicit):
            ch = chr(cp)
            for v in (ch.upper(), ch.lower()):
                if len(v) == 1: explicit.add(ord(v))
        self.explicit = sorted(explicit)
        # residual signature classes (classification by the sre engine itself, in C)
        dig, spc, wrd = _unicode_classes()
        sig_rep = {}
        sig_count = {}
        sig_members_small = {}
        special = dig | spc | wrd
        for lo, hi in big_ranges:
            special = special | set(range(lo, hi + 1))

        def sig_of(cp):
            return (cp in dig, cp in spc, cp in wrd, tuple(lo <= cp <= hi for lo, hi in big_ranges))
        for cp in sorted(special):
            if cp in explicit: continue
            sig = sig_of(cp)
            if sig not in sig_rep:
                sig_rep[sig] = cp; sig_count[sig] = 0; sig_members_small[sig] = []
            sig_count[sig] += 1
            if len(sig_members_small[sig]) < 2000: sig_members_small[sig].append(cp)
        # everything else: one block
        nothing = (False, False, False, tuple(False for _ in big_ranges))
        rest = (sys.maxunicode + 1) - len(special | explicit)
        if rest > 0:
            cp = 0
            while cp in special or cp in explicit: cp += 1
            sig_rep[nothing] = cp; sig_count[nothing] = rest; sig_members_small[nothing] = [cp]
        self._dig, self._spc, self._wrd = dig, spc, wrd
        self.reps = [chr(cp) for cp in self.explicit] + [chr(sig_rep[s]) for s in sig_rep]
        self.sizes = [1] * len(self.explicit) + [sig_count[s] for s in sig_rep]
        self.names = [repr(chr(cp)) for cp in self.explicit] + [
            'residual(digit=%s,space=%s,word=%s)' % s[:3] for s in sig_rep]
        self.residual_members = [None] * len(self.explicit) + [sig_members_small[s] for s in sig_rep]
        self.block_of_cp = {cp: i for i, cp in enumerate(self.explicit)}
        self._sig_index = {s: len(self.explicit) + i for i, s in enumerate(sig_rep)}
        self._big = big_ranges
        self.n = len(self.reps)
        self.NL = self.block_of_cp[10]

    def block_of(self, ch):
        cp = ord(ch)
        if cp in self.block_of_cp: return self.block_of_cp[cp]
        sig = (cp in self._dig, cp in self._spc, cp in self._wrd,
               tuple(lo <= cp <= hi for lo, hi in self._big))
        return self._sig_index[sig]

    def blocks_of_set(self, cs):
        return frozenset(i for i, r in enumerate(self.reps) if cs.has(r))

    def upper_map(self):
        """block -> block for str.upper(); None if not letter-to-letter on the block"""
        m = {}
        for i, r in enumerate(self.reps):
            if self.sizes[i] == 1:
                u = r.upper()
                m[i] = self.block_of(u) if len(u) == 1 else None
            else:
                m[i] = i  # residual class: caller must check case-invariance where relevant
        return m


# ---------------------------------------------------------------- NFA
class NFA:
    def __init__(self, alpha):
        self.alpha = alpha
        self.eps = []     # state -> list of targets
        self.bol = []     # state -> list of targets (only at position 0)
        self.eol = []     # state -> list of targets ($ assertion)
        self.eos = []     # state -> list of targets (\Z assertion: absolute end of the string)
        self.trans = []   # state -> list of (frozenset(blocks), target)
        self.start = self.new()
        self.final = None
        self.group_spans = {}   # group id -> list of (entry, exit)

    def new(self):
        self.eps.append([]); self.bol.append([]); self.eol.append([]); self.eos.append([]); self.trans.append([])
        return len(self.eps) - 1

    def build(self, nodes, s):
        for node in nodes:
            s = self.build1(node, s)
        return s

    def build1(self, node, s):
        op, av = node
        if op in (sc.LITERAL, sc.NOT_LITERAL, sc.IN, sc.ANY):
            t = self.new()
            self.trans[s].append((self.alpha.blocks_of_set(charset_of(node)), t))
            return t
        if op is sc.AT:
            t = self.new()
            if av is sc.AT_BEGINNING or av is sc.AT_BEGINNING_STRING:
                self.bol[s].append(t)
            elif av is sc.AT_END:
                self.eol[s].append(t)
            elif av is sc.AT_END_STRING:
                self.eos[s].append(t)
            else:
                raise Unsupported('AT %r' % (av,))
            return t
        if op is sc.BRANCH:
            t = self.new()
            for alt in av[1]:
                a = self.new(); self.eps[s].append(a)
                e = self.build(alt, a)
                self.eps[e].append(t)
            return t
        if op is sc.SUBPATTERN:
            gid, add_flags, del_flags, sub = av
            if add_flags or del_flags: raise Unsupported('inline flags')
            a = self.new(); self.eps[s].append(a)
            e = self.build(sub, a)
            t = self.new(); self.eps[e].append(t)
            if gid is not None:
                self.group_spans.setdefault(gid, []).append((a, e))
            return t
        if op in (sc.MAX_REPEAT, sc.MIN_REPEAT):
            lo, hi, sub = av
            cur = s
            for _ in range(lo):
                cur = self.build(sub, cur)
            if hi == MAXREPEAT:
                a = self.new(); self.eps[cur].append(a)
                e = self.build(sub, a)
                self.eps[e].append(a)
                t = self.new(); self.eps[a].append(t)
                return t
            t = self.new(); self.eps[cur].append(t)
            for _ in range(hi - lo):
                cur = self.build(sub, cur)
                self.eps[cur].append(t)
            return t
        raise Unsupported('node %r' % (op,))


def nfa_of(parsed, alpha):
    n = NFA(alpha)
    n.final = n.build(list(parsed), n.start)
    return n


# ---------------------------------------------------------------- DFA (whole-string language of re.match)
class DFA:
    def __init__(self, alpha, trans, accept, start=0):
        self.alpha = alpha; self.trans = trans; self.accept = accept; self.start = start

    @property
    def nstates(self): return len(self.trans)


F0, F1, F2 = -1, -2, -3   # pseudo states after the pattern has finished


def determinize(nfa, relabel=None):
    """relabel: optional dict block->block (homomorphic image of the language)."""
    A = nfa.alpha

    def closure(items, at_start):
        seen = set(items); dq = deque(items)
        while dq:
            s, m = dq.popleft()
            if s < 0: continue
            nxt = [(t, m) for t in nfa.eps[s]]
            if at_start:
                nxt += [(t, m) for t in nfa.bol[s]]
            for t in nfa.eol[s]:
                nxt.append((t, 1 if m == 0 else m))
            for t in nfa.eos[s]:
                nxt.append((t, 2))
            if s == nfa.final:
                nxt.append(({0: F0, 1: F1, 2: F2}[m], 0))
            for it in nxt:
                if it not in seen:
                    seen.add(it); dq.append(it)
        return frozenset(seen)

    start = closure([(nfa.start, 0)], True)
    index = {start: 0}; order = [start]; trans = []; accept = []
    i = 0
    while i < len(order):
        S = order[i]; i += 1
        accept.append(any(s < 0 for s, m in S))
        row = {}
        # collect moves per block
        moves = {}
        for s, m in S:
            if s == F0:
                for b in range(A.n): moves.setdefault(b, set()).add((F0, 0))
            elif s == F1:
                moves.setdefault(A.NL, set()).add((F2, 0))
            elif s == F2:
                pass
            else:
                for blocks, t in nfa.trans[s]:
                    for b in blocks:
                        if m == 0:
                            moves.setdefault(b, set()).add((t, 0))
                        elif m == 1 and b == A.NL:
                            moves.setdefault(b, set()).add((t, 2))
        if relabel is not None:
            mv2 = {}
            for b, tg in moves.items():
                rb = relabel[b]
                if rb is None: raise Unsupported('non letter-to-letter relabel on block %s' % A.names[b])
                mv2.setdefault(rb, set()).update(tg)
            moves = mv2
        for b, tg in moves.items():
            T = closure(list(tg), False)
            if T not in index:
                index[T] = len(order); order.append(T)
            row[b] = index[T]
        trans.append(row)
    # complete with dead state
    dead = len(trans)
    trans.append({})
    accept.append(False)
    for row in trans:
        for b in range(A.n):
            row.setdefault(b, dead)
    return DFA(A, trans, accept)


def product(d1, d2, op):
    A = d1.alpha
    start = (d1.start, d2.start)
    index = {start: 0}; order = [start]; trans = []; accept = []
    i = 0
    while i < len(order):
        a, b = order[i]; i += 1
        accept.append(op(d1.accept[a], d2.accept[b]))
        row = {}
        for blk in range(A.n):
            t = (d1.trans[a][blk], d2.trans[b][blk])
            if t not in index:
                index[t] = len(order); order.append(t)
            row[blk] = index[t]
        trans.append(row)
    return DFA(A, trans, accept)


def witness(d):
    """shortest accepted string (as list of blocks) or None"""
    prev = {d.start: None}; dq = deque([d.start])
    while dq:
        s = dq.popleft()
        if d.accept[s]:
            out = []
            while prev[s] is not None:
                s, b = prev[s]; out.append(b)
            return out[::-1]
        for b in range(d.alpha.n):
            t = d.trans[s][b]
            if t not in prev:
                prev[t] = (s, b); dq.append(t)
    return None


def show(alpha, blocks):
    return ''.join(alpha.reps[b] for b in blocks)


def inter(a, b): return product(a, b, lambda x, y: x and y)
def diff(a, b): return product(a, b, lambda x, y: x and not y)
def union(a, b): return product(a, b, lambda x, y: x or y)


def accepts(d, s):
    st = d.start
    for ch in s:
        st = d.trans[st][d.alpha.block_of(ch)]
    return d.accept[st]
