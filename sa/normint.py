"""Abstract interpretation of the small string normalisers (_norm_*) over the regular domain.

value = DFA (set of possible strings).  The interpreter is path-splitting on refinable conditions over one variable
and joins by union; every supported string operation is an exact rational transduction (regops), so the result is
the exact image of the input language.  Unsupported construct -> AnalysisError (fail closed).
"""
import ast

from . import rx, regops as ro
from .core import AnalysisError


class NormInterp:
    def __init__(self, P, fns):
        self.P = P
        self.A = P.A
        self.fns = fns          # name -> FunctionDef (module-level helpers)
        self.problems = []      # (fname, node, message, witness language)
        self._memo = {}

    def apply(self, fname, L, depth=0):
        if fname not in self.fns:
            raise AnalysisError('normaliser %s not found' % fname)
        if depth > 6:
            raise AnalysisError('normaliser recursion too deep at %s' % fname)
        fn = self.fns[fname]
        if len(fn.args.args) != 1:
            raise AnalysisError('normaliser %s does not take exactly one argument' % fname)
        env = {fn.args.args[0].arg: L}
        rets = []
        out = self.block(fname, fn.body, [env], rets, depth)
        if out:
            raise AnalysisError('normaliser %s can fall off its end (returns None)' % fname)
        res = self.P.EMPTY
        for r in rets:
            res = rx.union(res, r)
        return res

    # ---- statements: states is a list of envs; returns list of envs that continue
    def block(self, fname, stmts, states, rets, depth):
        for st in stmts:
            nxt = []
            for env in states:
                nxt += self.stmt(fname, st, env, rets, depth)
            states = self.merge(nxt)
        return states

    def merge(self, envs):
        if len(envs) <= 1:
            return envs
        keys = set().union(*[set(e) for e in envs])
        out = {}
        for k in keys:
            langs = [e[k] for e in envs if k in e]
            if len(langs) != len(envs):
                continue
            u = langs[0]
            for l in langs[1:]:
                u = rx.union(u, l)
            out[k] = u
        return [out]

    def dead(self, env):
        return any(rx.witness(v) is None for v in env.values())

    def stmt(self, fname, st, env, rets, depth):
        if self.dead(env):
            return []
        if isinstance(st, ast.Expr) and isinstance(st.value, ast.Constant):
            return [env]
        if isinstance(st, ast.Pass):
            return [env]
        if isinstance(st, ast.Assign) and len(st.targets) == 1 and isinstance(st.targets[0], ast.Name):
            e = dict(env)
            e[st.targets[0].id] = self.ev(fname, st.value, env, depth)
            return [e]
        if isinstance(st, ast.Return):
            if st.value is None:
                raise AnalysisError('%s returns None' % fname)
            rets.append(self.ev(fname, st.value, env, depth))
            return []
        if isinstance(st, ast.If):
            out = []
            for truth, e in self.cond(fname, st.test, env):
                if self.dead(e):
                    continue
                out += self.block(fname, st.body if truth else st.orelse, [e], rets, depth)
            return out
        if isinstance(st, ast.While):
            # while s and s[-1] in '<chars>': s = s[:-1]      (trailing-set stripping loop)
            t = st.test
            var = chars = None
            parts = t.values if isinstance(t, ast.BoolOp) and isinstance(t.op, ast.And) else [t]
            for p in parts:
                if isinstance(p, ast.Compare) and len(p.ops) == 1 and isinstance(p.ops[0], ast.In) \
                        and self.is_last_char(p.left) and isinstance(p.comparators[0], ast.Constant) \
                        and isinstance(p.comparators[0].value, str):
                    var = p.left.value.id
                    chars = p.comparators[0].value
                elif isinstance(p, ast.Call) and isinstance(p.func, ast.Attribute) and p.func.attr == 'endswith' \
                        and isinstance(p.func.value, ast.Name) and len(p.args) == 1 and isinstance(p.args[0], ast.Constant) \
                        and isinstance(p.args[0].value, str) and len(p.args[0].value) == 1:
                    var = p.func.value.id
                    chars = p.args[0].value
            body_ok = len(st.body) == 1 and isinstance(st.body[0], ast.Assign) and var is not None \
                and ast.unparse(st.body[0]) == '%s = %s[:-1]' % (var, var)
            others_ok = all(isinstance(p, ast.Name) and p.id == var for p in parts
                            if not (isinstance(p, (ast.Compare, ast.Call))))
            if var and chars is not None and body_ok and others_ok and not st.orelse:
                e = dict(env)
                e[var] = ro.strip_trailing(env[var], self.P.blocks_of(chars))
                return [e]
            raise AnalysisError('%s: while loop at line %d is not a trailing-character stripping loop' % (fname, st.lineno))
        raise AnalysisError('%s: statement %s at line %d outside the supported subset' % (fname, type(st).__name__, st.lineno))

    @staticmethod
    def is_last_char(e):
        return isinstance(e, ast.Subscript) and isinstance(e.value, ast.Name) and isinstance(e.slice, ast.UnaryOp) \
            and isinstance(e.slice.op, ast.USub) and isinstance(e.slice.operand, ast.Constant) and e.slice.operand.value == 1

    # ---- conditions
    def cond(self, fname, t, env):
        P, A = self.P, self.A
        if isinstance(t, ast.UnaryOp) and isinstance(t.op, ast.Not):
            return [(not tr, e) for tr, e in self.cond(fname, t.operand, env)]
        if isinstance(t, ast.BoolOp):
            isand = isinstance(t.op, ast.And)
            res = []
            states = [env]
            for sub in t.values:
                nxt = []
                for e in states:
                    for tr, e2 in self.cond(fname, sub, e):
                        if self.dead(e2):
                            continue
                        (nxt if tr == isand else res).append(e2 if tr == isand else (tr, e2))
                states = nxt
            return res + [(isand, e) for e in states]
        if isinstance(t, ast.Constant):
            return [(bool(t.value), env)]
        var = None
        lang = None
        if isinstance(t, ast.Name):
            var, lang = t.id, rx.diff(P.ANY, P.EPS)
        elif isinstance(t, ast.Compare) and len(t.ops) == 1:
            op, l, r = t.ops[0], t.left, t.comparators[0]
            if isinstance(op, (ast.In, ast.NotIn)) and isinstance(l, ast.Constant) and isinstance(l.value, str) \
                    and len(l.value) == 1 and isinstance(r, ast.Name):
                var, lang = r.id, ro.contains_any(A, P.blocks_of(l.value))
                if isinstance(op, ast.NotIn):
                    lang = rx.diff(P.ANY, lang)
            elif isinstance(op, (ast.Eq, ast.NotEq, ast.In, ast.NotIn)) and isinstance(r, ast.Constant) and isinstance(r.value, str):
                # s[-1] == 'g' / s[-1].lower() == 'g' / s[-1] in 'gG' / s[-1].upper() in 'G'
                base, fold = l, None
                if isinstance(base, ast.Call) and isinstance(base.func, ast.Attribute) and base.func.attr in ('lower', 'upper') and not base.args:
                    fold = base.func.attr
                    base = base.func.value
                if self.is_last_char(base):
                    var = base.value.id
                    if rx.accepts(env[var], ''):
                        self.problems.append((fname, t, 'index [-1] of a possibly empty string (IndexError)', P.EPS))
                    chars = r.value if isinstance(op, (ast.In, ast.NotIn)) else (r.value if len(r.value) == 1 else None)
                    if chars is None:
                        raise AnalysisError('%s: comparison of one character with %r' % (fname, r.value))
                    cs = set(chars)
                    if fold == 'lower':
                        cs = {c for ch in chars for c in (ch, ch.upper()) if c.lower() == ch}
                    elif fold == 'upper':
                        cs = {c for ch in chars for c in (ch, ch.lower()) if c.upper() == ch}
                    lang = ro.ends_with_any(A, P.blocks_of(''.join(sorted(cs))))
                    if isinstance(op, (ast.NotEq, ast.NotIn)):
                        lang = rx.diff(P.ANY, lang)
                elif isinstance(base, ast.Name) and isinstance(op, (ast.Eq, ast.NotEq)) and fold is None:
                    var, lang = base.id, P.const(r.value)
                    if isinstance(op, ast.NotEq):
                        lang = rx.diff(P.ANY, lang)
        elif isinstance(t, ast.Call) and isinstance(t.func, ast.Attribute) and t.func.attr in ('endswith', 'startswith') \
                and len(t.args) == 1:
            base, fold = t.func.value, None
            if isinstance(base, ast.Call) and isinstance(base.func, ast.Attribute) and base.func.attr in ('lower', 'upper') and not base.args:
                fold = base.func.attr
                base = base.func.value
            consts = None
            a = t.args[0]
            if isinstance(a, ast.Constant) and isinstance(a.value, str):
                consts = [a.value]
            elif isinstance(a, ast.Tuple) and all(isinstance(x, ast.Constant) and isinstance(x.value, str) for x in a.elts):
                consts = [x.value for x in a.elts]
            if isinstance(base, ast.Name) and consts is not None:
                var = base.id
                lang = P.EMPTY
                for c in consts:
                    cl = P.const(c)
                    if fold == 'lower':
                        cl = ro.relabel_inverse(cl, self.total(P.LM))
                    elif fold == 'upper':
                        cl = ro.relabel_inverse(cl, self.total(P.UM))
                    lang = rx.union(lang, ro.concat(P.ANY, cl) if t.func.attr == 'endswith' else ro.concat(cl, P.ANY))
        if var is None or var not in env:
            raise AnalysisError('%s: condition %s at line %d outside the supported subset' % (fname, ast.unparse(t)[:60], t.lineno))
        et, ef = dict(env), dict(env)
        et[var] = rx.inter(env[var], lang)
        ef[var] = rx.diff(env[var], lang)
        return [(True, et), (False, ef)]

    @staticmethod
    def total(mp):
        return {b: (t if t is not None else b) for b, t in mp.items()}

    # ---- expressions
    def ev(self, fname, e, env, depth):
        P, A = self.P, self.A
        if isinstance(e, ast.Name):
            if e.id not in env:
                raise AnalysisError('%s: unknown name %s' % (fname, e.id))
            return env[e.id]
        if isinstance(e, ast.Constant) and isinstance(e.value, str):
            return P.const(e.value)
        if isinstance(e, ast.BinOp) and isinstance(e.op, ast.Add):
            return ro.concat(self.ev(fname, e.left, env, depth), self.ev(fname, e.right, env, depth))
        if isinstance(e, ast.IfExp):
            res = P.EMPTY
            for tr, e2 in self.cond(fname, e.test, env):
                if not self.dead(e2):
                    res = rx.union(res, self.ev(fname, e.body if tr else e.orelse, e2, depth))
            return res
        if isinstance(e, ast.Call) and isinstance(e.func, ast.Name) and e.func.id in self.fns and len(e.args) == 1 and not e.keywords:
            return self.apply(e.func.id, self.ev(fname, e.args[0], env, depth), depth + 1)
        if isinstance(e, ast.Call) and isinstance(e.func, ast.Attribute):
            recv = self.ev(fname, e.func.value, env, depth)
            m = e.func.attr
            args = e.args
            cargs = [a.value for a in args if isinstance(a, ast.Constant) and isinstance(a.value, str)]
            if len(cargs) != len(args) or e.keywords:
                raise AnalysisError('%s: call %s with non-constant arguments' % (fname, ast.unparse(e)[:60]))
            if m == 'strip':
                return ro.strip_both(recv, P.WS if not cargs else P.blocks_of(cargs[0]))
            if m == 'rstrip':
                return ro.strip_trailing(recv, P.WS if not cargs else P.blocks_of(cargs[0]))
            if m == 'lstrip':
                return ro.strip_leading(recv, P.WS if not cargs else P.blocks_of(cargs[0]))
            if m == 'upper' and not cargs:
                return P.upper(recv)
            if m == 'lower' and not cargs:
                return P.lower(recv)
            if m == 'replace' and len(cargs) == 2 and len(cargs[0]) == 1 and cargs[1] == '':
                return ro.relabel(recv, None, delete={A.block_of(cargs[0])})
            if m == 'replace' and len(cargs) == 2 and len(cargs[0]) == 1 and len(cargs[1]) == 1:
                mp = {b: b for b in range(A.n)}
                mp[A.block_of(cargs[0])] = A.block_of(cargs[1])
                return ro.relabel(recv, mp)
            if m == 'removesuffix' and len(cargs) == 1:
                c = cargs[0]
                withs = rx.inter(recv, ro.concat(P.ANY, P.const(c)))
                return rx.union(ro.drop_last(withs, len(c)) if not P.is_empty(withs) else P.EMPTY,
                                rx.diff(recv, ro.concat(P.ANY, P.const(c))))
            raise AnalysisError('%s: string method .%s() outside the supported subset' % (fname, m))
        if isinstance(e, ast.Subscript) and isinstance(e.slice, ast.Slice) and e.slice.step is None:
            base = self.ev(fname, e.value, env, depth)
            lo, up = e.slice.lower, e.slice.upper

            def intc(x):
                if isinstance(x, ast.Constant) and isinstance(x.value, int):
                    return x.value
                if isinstance(x, ast.UnaryOp) and isinstance(x.op, ast.USub) and isinstance(x.operand, ast.Constant):
                    return -x.operand.value
                raise AnalysisError('%s: non-constant slice bound' % fname)
            if lo is None and up is not None:
                n = intc(up)
                if n < 0:
                    return ro.drop_last(base, -n)
                if n > 0:
                    return self.prefix(base, n)
            if up is None and lo is not None and intc(lo) > 0:
                return self.drop_first(base, intc(lo))
            raise AnalysisError('%s: slice %s outside the supported subset' % (fname, ast.unparse(e)))
        raise AnalysisError('%s: expression %s outside the supported subset' % (fname, ast.unparse(e)[:60]))

    def prefix(self, d, n):
        from .e4 import Interp
        it = Interp.__new__(Interp)
        it.A = self.A
        return Interp.prefix(it, d, n)

    def drop_first(self, d, k):
        A = self.A
        e = ro.ENFA(A)
        N = len(d.trans)
        for _ in range(N * (k + 1)):
            e.new()
        e.starts.add(d.start)
        for s, row in enumerate(d.trans):
            for b, t in row.items():
                for l in range(k):
                    e.edge(l * N + s, None, (l + 1) * N + t)
                e.edge(k * N + s, b, k * N + t)
            if d.accept[s]:
                for l in range(k + 1):
                    e.accepts.add(l * N + s)      # shorter strings give ''
        return e.determinize()
