"""Engine cross-validation (thorough tier): the DFAs are compared with CPython's re on strings derived from the
automata themselves (accepted strings enumerated breadth-first, and near misses obtained by editing them).  The
patterns are the folded pattern *texts*; nothing of athlib is executed.  A mismatch means the analyser is wrong and is
an ANALYSIS-ERROR, never a property verdict."""
import re
from collections import deque

from . import rx, regops as ro
from .core import AnalysisError


def enumerate_lang(P, d, limit=150, maxlen=14):
    out = []
    lv = ro.live(d)
    dq = deque([(d.start, ())])
    seen = 0
    while dq and len(out) < limit and seen < 60000:
        s, pref = dq.popleft()
        seen += 1
        if d.accept[s]:
            out.append(rx.show(P.A, pref))
        if len(pref) >= maxlen:
            continue
        for b in range(P.A.n):
            t = d.trans[s][b]
            if t in lv:
                dq.append((t, pref + (b,)))
    return out


def near_misses(strings, alphabet_chars):
    out = set()
    for s in strings[:60]:
        out.add(s + '\n')
        out.add(s + '\n\n')
        out.add(' ' + s)
        out.add(s + ' ')
        out.add(s.lower())
        out.add(s.upper())
        for i in range(min(len(s), 6)):
            out.add(s[:i] + s[i + 1:])
            for c in alphabet_chars:
                out.add(s[:i] + c + s[i + 1:])
                out.add(s[:i] + c + s[i:])
    return sorted(out)


def cross_validate(P, names, ctx=None):
    n = 0
    chars = '0 .5xXhHkKgGmMcsS\t٣'
    for name in names:
        pat = P.patterns[name]
        c = re.compile(pat, re.I if name in getattr(P, 'ignorecase', ()) else 0)
        d = P.dfa(name)
        acc = enumerate_lang(P, d)
        for s in acc + near_misses(acc, chars):
            n += 1
            if rx.accepts(d, s) != bool(c.match(s)):
                raise AnalysisError('engine cross-validation failed: %s on %r (automaton %s, re %s)' % (
                    name, s, rx.accepts(d, s), bool(c.match(s))))
    if ctx is not None:
        ctx.note('engine cross-validation: (pattern, string) pairs compared with re.match', n)
    return n
