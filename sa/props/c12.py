"""C12 — performance validation returns well-formed marks or the caller's error."""
import ast

from .. import rx
from ..core import AnalysisError
from ..pats import Pats
from ..src import call_name, stmt_key, unparse

LEVEL = 'other'
UTILS = 'athlib/utils.py'
FN = 'check_performance_for_discipline'


def in_try_raising(node, fn, ek):
    """True if node lies in a try body whose handler catches ValueError (or everything) and raises errorKlass"""
    p = getattr(node, '_parent', None)
    c = node
    while p is not None and p is not fn:
        if isinstance(p, ast.Try) and any(c is s for s in p.body):
            for h in p.handlers:
                t = ast.unparse(h.type) if h.type is not None else ''
                catches = h.type is None or 'ValueError' in t or t in ('Exception', 'BaseException')
                raises = any(isinstance(r, ast.Raise) and isinstance(r.exc, ast.Call) and call_name(r.exc) == ek for r in ast.walk(h))
                if catches and raises:
                    return True
        c = p
        p = getattr(p, '_parent', None)
    return False


def is_str_expr(e, fn, mod, visiting=frozenset()):
    """str-typing of an expression; names are typed coinductively from all their definitions"""
    if isinstance(e, ast.Constant):
        return isinstance(e.value, str)
    if isinstance(e, ast.JoinedStr):
        return True
    if isinstance(e, ast.BinOp) and isinstance(e.op, ast.Mod):
        return isinstance(e.left, ast.Constant) and isinstance(e.left.value, str)
    if isinstance(e, ast.BinOp) and isinstance(e.op, ast.Add):
        return is_str_expr(e.left, fn, mod, visiting) and is_str_expr(e.right, fn, mod, visiting)
    if isinstance(e, ast.IfExp):
        return is_str_expr(e.body, fn, mod, visiting) and is_str_expr(e.orelse, fn, mod, visiting)
    if isinstance(e, ast.Call):
        n = call_name(e)
        if isinstance(e.func, ast.Name) and n in ('str', 'repr', 'format'):
            return True
        if isinstance(e.func, ast.Attribute) and n in ('strip', 'replace', 'upper', 'lower', 'join', 'lstrip', 'rstrip', 'format'):
            return True
        if isinstance(e.func, ast.Name) and mod.has_func(n):
            r = mod.func(n).returns
            return r is not None and ast.unparse(r) == 'str'
        return False
    if isinstance(e, ast.Subscript) and isinstance(e.slice, ast.Slice):
        return is_str_expr(e.value, fn, mod, visiting)
    if isinstance(e, ast.Subscript) and isinstance(e.value, ast.Name):
        # element of a list produced by str.split
        defs = [n.value for n in ast.walk(fn) if isinstance(n, ast.Assign) and any(isinstance(t, ast.Name) and t.id == e.value.id for t in n.targets)]
        return bool(defs) and all(isinstance(d, ast.Call) and isinstance(d.func, ast.Attribute) and d.func.attr in ('split', 'rsplit', 'splitlines') for d in defs)
    if isinstance(e, ast.Name):
        if e.id in visiting:
            return True
        defs = [n.value for n in ast.walk(fn) if isinstance(n, ast.Assign) and any(isinstance(t, ast.Name) and t.id == e.id for t in n.targets)]
        # tuple unpacking of a split result
        for n in ast.walk(fn):
            if isinstance(n, ast.Assign) and any(isinstance(t, ast.Tuple) and any(isinstance(x, ast.Name) and x.id == e.id for x in t.elts) for t in n.targets):
                defs.append(ast.Subscript(value=n.value, slice=ast.Constant(0), ctx=ast.Load()) if isinstance(n.value, ast.Name) else n.value)
        isparam = any(a.arg == e.id and a.annotation is not None and ast.unparse(a.annotation) == 'str' for a in fn.args.args)
        if not defs and not isparam:
            return False
        return all(is_str_expr(d, fn, mod, visiting | {e.id}) for d in defs)
    return False


def is_num_expr(e, fn, visiting=frozenset()):
    """the expression is a finite number on every definition (a conversion of it is not a conversion of text)"""
    if isinstance(e, ast.Constant):
        return isinstance(e.value, (int, float)) and not isinstance(e.value, bool)
    if isinstance(e, ast.BinOp) and isinstance(e.op, ast.Mod) and isinstance(e.left, ast.Constant) and isinstance(e.left.value, str):
        # '%.2f' % number  ->  text of a number; float() of it cannot fail
        import re as _re
        specs = _re.findall(r'%[#0\- +]*\d*(?:\.\d+)?([a-zA-Z%])', e.left.value)
        args = e.right.elts if isinstance(e.right, ast.Tuple) else [e.right]
        return specs in (['f'], ['d']) and _re.fullmatch(r'%[#0\- +]*\d*(?:\.\d+)?[fd]', e.left.value) is not None \
            and len(args) == 1 and is_num_expr(args[0], fn, visiting)
    if isinstance(e, ast.BinOp) and isinstance(e.op, (ast.Add, ast.Sub, ast.Mult, ast.Div, ast.FloorDiv, ast.Mod)):
        return is_num_expr(e.left, fn, visiting) and is_num_expr(e.right, fn, visiting)
    if isinstance(e, ast.UnaryOp) and isinstance(e.op, (ast.USub, ast.UAdd)):
        return is_num_expr(e.operand, fn, visiting)
    if isinstance(e, ast.Call) and isinstance(e.func, ast.Name) and e.func.id in ('int', 'float', 'round', 'abs', 'len'):
        return True          # the call itself is the (possibly guarded) conversion; its result is a number
    if isinstance(e, ast.Name):
        if e.id in visiting:
            return True
        from ..cfg import reaching_defs
        try:
            rd = reaching_defs(fn, e.id, e)
        except AttributeError:
            return False
        if not rd or None in rd:
            return False
        for d in rd:
            if isinstance(d, ast.Assign) and all(isinstance(t, ast.Name) for t in d.targets):
                if not is_num_expr(d.value, fn, visiting | {e.id}):
                    return False
            elif isinstance(d, ast.AugAssign) and isinstance(d.target, ast.Name):
                if not is_num_expr(d.value, fn, visiting | {e.id}):
                    return False
            else:
                return False
        return True
    return False


def roles(fn):
    """names of the quantities of the timed arm, found by their definitions (not by their spelling)"""
    r = {}
    for n in ast.walk(fn):
        if isinstance(n, ast.Assign) and len(n.targets) == 1 and isinstance(n.targets[0], ast.Name):
            v = n.value
            if isinstance(v, ast.Call) and call_name(v) == 'get_distance':
                r['distance'] = n.targets[0].id
            consts = {c.value for c in ast.walk(v) if isinstance(c, ast.Constant) and isinstance(c.value, int)}
            if isinstance(v, ast.BinOp) and {3600, 60} <= consts:
                r['duration'] = n.targets[0].id
                for b in ast.walk(v):
                    if isinstance(b, ast.BinOp) and isinstance(b.op, ast.Mult):
                        for c, o in ((b.left, b.right), (b.right, b.left)):
                            if isinstance(c, ast.Constant) and c.value == 3600 and isinstance(o, ast.Name):
                                r['hours'] = o.id
                            if isinstance(c, ast.Constant) and c.value == 60 and isinstance(o, ast.Name):
                                r['minutes'] = o.id
                top = v
                while isinstance(top, ast.BinOp) and isinstance(top.op, ast.Add):
                    if isinstance(top.right, ast.Name):
                        r['seconds'] = top.right.id
                        break
                    top = top.left
    for n in ast.walk(fn):
        if isinstance(n, ast.Assign) and len(n.targets) == 1 and isinstance(n.targets[0], ast.Name) and isinstance(n.value, ast.BinOp) \
                and isinstance(n.value.op, ast.Div) and r.get('duration') and ast.unparse(n.value.right) == r['duration'] \
                and r.get('distance') and r['distance'] in ast.unparse(n.value.left):
            r['velocity'] = n.targets[0].id
    return r


def is_num_domain_free(callee, pname):
    """True when the callee's refusals on `pname` are about the TEXT handed in (parse errors), which the PAT_PERF filter of the caller
    already rules out - decided elsewhere (R3); only type / range tests on a plain option (isinstance, comparisons with constants) count here"""
    for r in ast.walk(callee):
        if isinstance(r, ast.If) and any(isinstance(y, ast.Raise) for y in ast.walk(r)):
            names = {x.id for x in ast.walk(r.test) if isinstance(x, ast.Name)}
            if pname in names and any(isinstance(c, ast.Compare) and any(isinstance(k, ast.Constant) and isinstance(k.value, (int, float)) for k in c.comparators)
                                      for c in ast.walk(r.test)):
                return False
            if pname in names and any(isinstance(c, ast.Call) and isinstance(c.func, ast.Name) and c.func.id == 'isinstance' for c in ast.walk(r.test)):
                return False
    # a raise in the else branch of such a test (`if ok: ... else: raise`)
    for r in ast.walk(callee):
        if isinstance(r, ast.If) and r.orelse and any(isinstance(y, ast.Raise) for st in r.orelse for y in ast.walk(st)):
            names = {x.id for x in ast.walk(r.test) if isinstance(x, ast.Name)}
            if pname in names:
                return False
    return True


def run(ctx, repo):
    P = Pats(repo)
    mod = repo.module(UTILS)
    fn = mod.func(FN)
    params = [a.arg for a in fn.args.args]
    if 'errorKlass' not in params:
        raise AnalysisError('anchor vanished: parameter errorKlass')
    ek = 'errorKlass'
    R = roles(fn)
    for need in ('distance', 'duration', 'hours', 'minutes', 'seconds', 'velocity'):
        if need not in R:
            raise AnalysisError('%s: cannot identify the %s of the timed arm' % (FN, need))
    V, DI, SEC, MIN = R['velocity'], R['distance'], R['seconds'], R['minutes']
    ctx.explanation = (
        'Exception discipline is a may-raise rule on every path of check_performance_for_discipline: each explicit raise '
        'uses the errorKlass parameter and each int()/float() of text-derived data lies in a try whose handler raises '
        'errorKlass.  Return typing, dominance of the PAT_PERF filter, existence of a sexagesimal guard, and membership of '
        'every formatted field record in L(PAT_PERF) (automata) are decided structurally.  Speed limits, round-to-nearest '
        'formatting and idempotence are value level and not decided.')
    ctx.rule('R1', 'every explicit raise uses errorKlass; every int()/float() of text lies in a try whose handler raises errorKlass')
    ctx.rule('R2', 'every return is a str expression')
    ctx.rule('R3', 'the PAT_PERF filter precedes numeric parsing on the non-custom arms')
    ctx.rule('R4', "every field record formatted '%0.2f' is accepted by PAT_PERF (records are enterable)")
    ctx.rule('R6', 'the documented speed limits (11 m/s up to 400 m, 10 m/s beyond, 0.5 m/s minimum for all) are raise-guards; the slow limit is independent of the distance class')
    ctx.rule('R7', "the value checked is the value printed: a float returned through '%.Nf' is rounded to N decimals before the guards, the "
                   'derived quantities (duration, speed) and the format read it; raw guards have a counterpart after the rounding')
    ctx.rule('R9', 'get_distance (folded) gives every timed table key, also in its spaced spellings, its distance: the speed limits are reached')
    ctx.rule('R8', 'no text the timed arm can return (format string -> regular language, pushed through the trailing-zero stripping) lies in the '
                   'trigger language of an input fix-up that applies to the same event (a returned value validates to itself)')
    ctx.rule('R5', 'the timed arm refuses seconds >= 60 under minutes and minutes >= 60 under hours with errorKlass')
    # ---- R1
    n_conv = 0
    occ = {}
    for c in ast.walk(fn):
        if isinstance(c, ast.Call) and isinstance(c.func, ast.Name) and c.func.id in ('int', 'float') and c.args:
            a = c.args[0]
            if isinstance(a, ast.Constant):
                continue
            if is_num_expr(a, fn):
                continue            # conversion of a number, not of text: cannot raise ValueError
            n_conv += 1
            k = unparse(c)
            occ[k] = occ.get(k, 0) + 1
            if in_try_raising(c, fn, ek):
                ctx.ok('R1', '%s#%d inside try -> raise errorKlass' % (k, occ[k]))
            else:
                ctx.finding('R1', '%s::%s::bare %s#%d' % (UTILS, FN, k, occ[k]), UTILS, c.lineno,
                            '%s is not inside a try whose handler raises errorKlass: text that passes the PAT_PERF filter but is '
                            "not a number (e.g. '4:05:33' for a sprint becomes '4.05.33') leaks a raw ValueError past a custom error class" % k,
                            "('100', '4:05:33')")
    ctx.floor('int()/float() conversions of text', n_conv, 6)
    # calls of helpers of the module that refuse some arguments with an error of their own (an explicit raise of something else than
    # the caller's class): the call lies in a try that raises errorKlass, or the caller validates the argument itself (an if on the
    # argument whose body raises errorKlass) before it gets there
    modfuncs = {q: f for q, f in mod.functions.items() if '.' not in q}
    n_helper = 0
    for c in ast.walk(fn):
        if not (isinstance(c, ast.Call) and isinstance(c.func, ast.Name) and c.func.id in modfuncs and c.func.id != FN):
            continue
        callee = modfuncs[c.func.id]
        raises_ = []
        for r in ast.walk(callee):
            if isinstance(r, ast.Raise) and r.exc is not None:
                exn = r.exc.func if isinstance(r.exc, ast.Call) else r.exc
                # the condition under which it raises must depend on a parameter of the callee (otherwise it is not about the argument)
                cond_names = set()
                p_ = getattr(r, '_parent', None)
                while p_ is not None and p_ is not callee:
                    if isinstance(p_, ast.If):
                        cond_names |= {x.id for x in ast.walk(p_.test) if isinstance(x, ast.Name)}
                    if isinstance(p_, ast.ExceptHandler):
                        cond_names = set()      # converting an inner error: R1 / C06 speak about those
                        break
                    p_ = getattr(p_, '_parent', None)
                cparams = [a.arg for a in callee.args.args]
                hit = [x for x in cparams if x in cond_names]
                if hit:
                    raises_.append((r, unparse(exn), hit))
        if not raises_:
            continue
        n_helper += 1
        if in_try_raising(c, fn, ek):
            ctx.ok('R1', '%s(...) inside try -> raise errorKlass' % c.func.id)
            continue
        cparams = [a.arg for a in callee.args.args]
        unguarded = []
        for r, exn, hit in raises_:
            for pname in hit:
                idx = cparams.index(pname)
                arg = c.args[idx] if idx < len(c.args) else next((k.value for k in c.keywords if k.arg == pname), None)
                if arg is None or isinstance(arg, ast.Constant):
                    continue
                names_ = {x.id for x in ast.walk(arg) if isinstance(x, ast.Name)}
                validated = False
                for t in ast.walk(fn):
                    if isinstance(t, ast.If) and names_ & {x.id for x in ast.walk(t.test) if isinstance(x, ast.Name)} \
                            and any(isinstance(y, ast.Raise) and y.exc is not None and ek in unparse(y.exc) for y in ast.walk(t)) and t.lineno <= c.lineno:
                        validated = True
                if not validated and not is_num_domain_free(callee, pname):
                    unguarded.append((exn, pname, unparse(arg)))
        if unguarded:
            exn, pname, argtxt = unguarded[0]
            ctx.finding('R1', '%s::%s::%s() refuses with its own error' % (UTILS, FN, c.func.id), UTILS, c.lineno,
                        '%s(...) raises %s for some values of its parameter %s, which receives `%s` unvalidated and outside any try that raises '
                        'errorKlass: the caller gets %s instead of the error class it supplied' % (c.func.id, exn, pname, argtxt, exn),
                        "prec=5 with a custom errorKlass")
        else:
            ctx.ok('R1', '%s(...): the arguments it can refuse are validated by the caller first' % c.func.id)
    # divisions: the divisor is a non-zero constant, or a name that an enclosing test has found non-zero (ZeroDivisionError is not errorKlass)
    n_div = 0
    for d_ in ast.walk(fn):
        if not (isinstance(d_, ast.BinOp) and isinstance(d_.op, (ast.Div, ast.FloorDiv, ast.Mod)) and not (
                isinstance(d_.left, ast.Constant) and isinstance(d_.left.value, str))):
            continue
        r_ = d_.right
        if isinstance(r_, ast.Constant) and isinstance(r_.value, (int, float)) and r_.value != 0:
            continue
        if isinstance(d_.op, ast.Mod) and isinstance(d_.left, (ast.Constant, ast.JoinedStr)):
            continue
        n_div += 1
        names_ = {x.id for x in ast.walk(r_) if isinstance(x, ast.Name)}
        guarded_ = False
        c_, p_ = d_, getattr(d_, '_parent', None)
        while p_ is not None and p_ is not fn:
            if isinstance(p_, ast.If) and any(c_ is s_ or any(c_ is y for y in ast.walk(s_)) for s_ in p_.body):
                conj = p_.test.values if isinstance(p_.test, ast.BoolOp) and isinstance(p_.test.op, ast.And) else [p_.test]
                for t_ in conj:
                    if isinstance(t_, ast.Name) and t_.id in names_:
                        guarded_ = True
                    if isinstance(t_, ast.Compare) and len(t_.ops) == 1 and isinstance(t_.left, ast.Name) and t_.left.id in names_ \
                            and isinstance(t_.comparators[0], ast.Constant) and (
                                (isinstance(t_.ops[0], (ast.Gt, ast.NotEq)) and t_.comparators[0].value == 0)
                                or (isinstance(t_.ops[0], ast.GtE) and isinstance(t_.comparators[0].value, (int, float)) and t_.comparators[0].value > 0)):
                        guarded_ = True
            c_, p_ = p_, getattr(p_, '_parent', None)
        if in_try_raising(d_, fn, ek) and False:
            guarded_ = True
        if isinstance(d_.op, ast.Mod) and is_str_expr(d_.left, fn, mod):
            continue
        if guarded_:
            ctx.ok('R1', 'division %s: the divisor is tested non-zero by an enclosing condition' % unparse(d_)[:50])
        else:
            ctx.finding('R1', '%s::%s::division by a possibly zero %s' % (UTILS, FN, unparse(r_)), UTILS, d_.lineno,
                        '`%s` divides by `%s`, which no enclosing condition has found non-zero: a zero value raises ZeroDivisionError, which is '
                        'not the caller\'s error class' % (unparse(d_)[:60], unparse(r_)), "('100', '0.00')")
    ctx.count('divisions examined', n_div)
    # character subscripts of the text: text[k] raises IndexError on a text that is too short (a blank one) unless an enclosing
    # condition has found the text non-empty / long enough; slices never raise
    tpar = params[1]
    for sub in ast.walk(fn):
        if isinstance(sub, ast.Subscript) and isinstance(sub.ctx, ast.Load) and not isinstance(sub.slice, ast.Slice) \
                and isinstance(sub.value, ast.Name) and sub.value.id == tpar:
            guarded_ = in_try_raising(sub, fn, ek)
            c_, p_ = sub, getattr(sub, '_parent', None)
            while p_ is not None and p_ is not fn and not guarded_:
                if isinstance(p_, ast.If) and any(c_ is s_ or any(c_ is y for y in ast.walk(s_)) for s_ in p_.body):
                    conj = p_.test.values if isinstance(p_.test, ast.BoolOp) and isinstance(p_.test.op, ast.And) else [p_.test]
                    for t_ in conj:
                        if isinstance(t_, ast.Name) and t_.id == tpar:
                            guarded_ = True
                        if any(isinstance(x, ast.Call) and call_name(x) in ('len', 'startswith', 'endswith', 'match') and tpar in ast.unparse(x)
                               for x in ast.walk(t_)):
                            guarded_ = True
                if isinstance(p_, ast.BoolOp) and isinstance(p_.op, ast.And) and isinstance(p_.values[0], ast.Name) and p_.values[0].id == tpar \
                        and not (c_ is p_.values[0]):
                    guarded_ = True
                c_, p_ = p_, getattr(p_, '_parent', None)
            # after the PAT_PERF filter the text is known to be non-empty
            filt = [n for n in ast.walk(fn) if isinstance(n, ast.If) and 'PAT_PERF' in ast.unparse(n.test) and any(isinstance(x, ast.Raise) for x in ast.walk(n))]
            if filt and sub.lineno > filt[0].lineno and not any(
                    isinstance(a, ast.Assign) and any(isinstance(t, ast.Name) and t.id == tpar for t in a.targets) and filt[0].lineno < a.lineno < sub.lineno
                    and not (isinstance(a.value, ast.Call) and call_name(a.value) == 'replace') for a in ast.walk(fn)):
                guarded_ = True
            if guarded_:
                ctx.ok('R1', 'subscript %s: the text is known to be long enough' % unparse(sub))
            else:
                ctx.finding('R1', '%s::%s::character subscript of a possibly empty text' % (UTILS, FN), UTILS, sub.lineno,
                            '`%s` indexes the text before anything has shown it to be non-empty: a blank text raises IndexError, which is not the '
                            'caller\'s error class' % unparse(sub), "('100', '   ')")
    n_raise = 0
    for r in ast.walk(fn):
        if isinstance(r, ast.Raise):
            n_raise += 1
            if r.exc is None:
                # bare re-raise inside a handler: leaks the original exception
                ctx.finding('R1', '%s::%s::bare re-raise' % (UTILS, FN), UTILS, r.lineno, 'a bare `raise` re-raises the original exception instead of errorKlass')
            elif not (isinstance(r.exc, ast.Call) and call_name(r.exc) == ek):
                ctx.finding('R1', '%s::%s::raise %s' % (UTILS, FN, unparse(r.exc)[:40]), UTILS, r.lineno,
                            'raises %s instead of the caller\'s errorKlass' % unparse(r.exc)[:60])
            else:
                ctx.ok('R1', 'raise errorKlass at %s' % stmt_key(r)[:50])
    ctx.floor('explicit raises', n_raise, 10)
    # handlers must not swallow
    for h in ast.walk(fn):
        if isinstance(h, ast.ExceptHandler) and not any(isinstance(x, ast.Raise) for x in ast.walk(h)):
            ctx.finding('R1', '%s::%s::handler swallows' % (UTILS, FN), UTILS, h.lineno, 'an except handler swallows the error instead of raising errorKlass')
    # message construction must not raise: '%' format arity
    import re as _re
    for b in ast.walk(fn):
        if isinstance(b, ast.BinOp) and isinstance(b.op, ast.Mod) and isinstance(b.left, ast.Constant) and isinstance(b.left.value, str):
            specs = _re.findall(r'%(?!%)[-+ #0]*\d*(?:\.\d+)?[sdrfgiexXc]', b.left.value.replace('%%', ''))
            if isinstance(b.right, ast.Tuple):
                nargs = len(b.right.elts)
            elif isinstance(b.right, (ast.Dict,)):
                continue
            else:
                nargs = 1
            if len(specs) != nargs:
                ctx.finding('R1', '%s::%s::format arity %s' % (UTILS, FN, b.left.value[:40]), UTILS, b.lineno,
                            'the message %r has %d conversion(s) but is formatted with %d value(s): building it raises TypeError, which '
                            'reaches the caller instead of errorKlass' % (b.left.value[:60], len(specs), nargs), b.left.value[:60])
            else:
                ctx.ok('R1', 'format arity of %r' % b.left.value[:30])
    # ---- R6 sanity limits, decided as a table over the abstract domain the guards can see: the distance class (100, 400 | 401, 1500)
    # x the speed (0.4 too slow; 0.6, 9.9 plausible; 10.5 too fast beyond 400 m only; 11.5 too fast everywhere).  A row "fires" when some
    # `if <test on the velocity>: raise` has a test that is true on the row and no guard on the way to it is false on the row; locals
    # assigned once from constants / the distance (`max_velocity = 11.0 if distance <= 400 else 10.0`) are substituted first.
    import copy as _copy
    from ..src import decide_test, guards_of
    counts_ = {}
    for n in ast.walk(fn):
        if isinstance(n, (ast.Assign, ast.AugAssign, ast.AnnAssign, ast.For)):
            for t in ([n.target] if not isinstance(n, ast.Assign) else n.targets):
                for x in ast.walk(t):
                    if isinstance(x, ast.Name):
                        counts_[x.id] = counts_.get(x.id, 0) + 1
    defs_ = {}
    for n in ast.walk(fn):
        if isinstance(n, ast.Assign) and len(n.targets) == 1 and isinstance(n.targets[0], ast.Name) and counts_.get(n.targets[0].id) == 1 \
                and n.targets[0].id not in (V, DI) and all(isinstance(x, (ast.Constant, ast.Name, ast.IfExp, ast.Compare, ast.cmpop, ast.expr_context,
                                                                         ast.BoolOp, ast.boolop, ast.UnaryOp, ast.unaryop))
                                                           for x in ast.walk(n.value)) \
                and {x.id for x in ast.walk(n.value) if isinstance(x, ast.Name)} <= {V, DI}:
            defs_[n.targets[0].id] = n.value

    class _Sub(ast.NodeTransformer):
        def visit_Name(self, node):
            if node.id in defs_ and isinstance(node.ctx, ast.Load):
                return _copy.deepcopy(defs_[node.id])
            return node

    def sub_(t):
        return _Sub().visit(_copy.deepcopy(t))
    raise_ifs = [n for n in ast.walk(fn) if isinstance(n, ast.If) and any(isinstance(r, ast.Raise) for r in n.body)
                 and V in {x.id for x in ast.walk(sub_(n.test)) if isinstance(x, ast.Name)}]
    mentioned = {float(c.value) for n in raise_ifs for c in ast.walk(sub_(n.test)) if isinstance(c, ast.Constant)
                 and isinstance(c.value, (int, float)) and not isinstance(c.value, bool)}

    def fires(d_, v_):
        env_ = {V: v_, DI: d_}
        for n in raise_ifs:
            if decide_test(sub_(n.test), env_) is not True:
                continue
            blocked = False
            for t, holds in guards_of(n, fn):
                r_ = decide_test(sub_(t), env_)
                if r_ is not None and r_ != holds:
                    blocked = True
                    break
            if not blocked:
                return n
        return None
    DS, slow, okv, mid, fast = (100, 400, 401, 1500), 0.4, (0.6, 9.9), 10.5, 11.5
    ctx.count('rows of the sanity-limit decision table', len(DS) * 5)
    r6_bad = False
    slow_hits = [d_ for d_ in DS if fires(d_, slow)]
    if not slow_hits:
        r6_bad = True
        ctx.finding('R6', '%s::%s::sanity limit %s' % (UTILS, FN, 0.5), UTILS, fn.lineno,
                    'the documented sanity limit 0.5 m/s (too slow) is no longer enforced by a raise of errorKlass')
    elif len(slow_hits) < len(DS):
        r6_bad = True
        missing = [d_ for d_ in DS if d_ not in slow_hits]
        ctx.finding('R6', '%s::%s::slow limit depends on the distance class' % (UTILS, FN), UTILS, fires(slow_hits[0], slow).lineno,
                    'the too-slow limit (0.5 m/s) is only reached for some distances (not for %s m): for the other events an absurdly slow time '
                    'is accepted' % missing, "('100', '45:10.5')")
    else:
        ctx.ok('R6', 'too-slow limit applies to every distance')
    for lim, what, rows in ((11.0, 'too fast up to 400 m', [(100, fast), (400, fast)]), (10.0, 'too fast beyond 400 m', [(401, mid), (1500, mid), (401, fast), (1500, fast)])):
        miss = [r_ for r_ in rows if fires(*r_) is None]
        if miss and lim not in mentioned:
            r6_bad = True
            ctx.finding('R6', '%s::%s::sanity limit %s' % (UTILS, FN, lim), UTILS, fn.lineno,
                        'the documented sanity limit %s m/s (%s) is no longer enforced by a raise of errorKlass' % (lim, what))
        elif miss:
            r6_bad = True
            ctx.finding('R6', '%s::%s::fast limit %s class' % (UTILS, FN, lim), UTILS, fn.lineno,
                        'the too-fast limit %s is not applied to its distance class: %s m at %s m/s is accepted' % (lim, miss[0][0], miss[0][1]))
        else:
            ctx.ok('R6', 'fast limit %s refuses %s' % (lim, rows))
    wrong = [(d_, v_) for d_ in DS for v_ in okv + ((mid,) if d_ <= 400 else ()) if fires(d_, v_) is not None]
    if wrong:
        r6_bad = True
        n_ = fires(*wrong[0])
        ctx.finding('R6', '%s::%s::fast limit %s class' % (UTILS, FN, 10.0 if wrong[0][1] == mid else 11.0), UTILS, n_.lineno,
                    'a plausible speed is refused: %s m at %s m/s raises under `%s` (the 10 m/s limit is for distances beyond 400 m, 11 m/s up to '
                    '400 m, 0.5 m/s the slow limit)' % (wrong[0][0], wrong[0][1], unparse(n_.test)[:60]))
    elif not r6_bad:
        ctx.ok('R6', 'no plausible speed (0.6, 9.9 m/s; 10.5 m/s up to 400 m) is refused')
    # ---- R2
    n_ret = 0
    for r in ast.walk(fn):
        if isinstance(r, ast.Return):
            n_ret += 1
            if r.value is not None and is_str_expr(r.value, fn, mod):
                ctx.ok('R2', 'return %s is a str' % unparse(r.value)[:50])
            else:
                ctx.finding('R2', '%s::%s::return %s' % (UTILS, FN, unparse(r.value)[:50] if r.value is not None else 'None'), UTILS, r.lineno,
                            'returns %s, which is not a string expression' % (unparse(r.value)[:60] if r.value is not None else 'None'))
    ctx.floor('return statements', n_ret, 6)
    # ---- R3
    guard_idx = None
    for i, st in enumerate(fn.body):
        if isinstance(st, ast.If) and 'PAT_PERF.match' in ast.unparse(st.test) and isinstance(st.test, ast.UnaryOp) \
                and any(isinstance(x, ast.Raise) for x in st.body):
            guard_idx = i
    if guard_idx is None:
        ctx.finding('R3', '%s::%s::PAT_PERF filter' % (UTILS, FN), UTILS, fn.lineno,
                    'no `if not PAT_PERF.match(textvalue): raise errorKlass` filter: junk reaches the numeric parsing')
    else:
        early = []
        for st in fn.body[:guard_idx]:
            returns = isinstance(st, ast.If) and all(isinstance(b[-1], (ast.Return, ast.Raise)) or any(
                isinstance(x, (ast.Return)) for x in ast.walk(b[-1])) for b in [st.body])
            for c in ast.walk(st):
                if isinstance(c, ast.Call) and isinstance(c.func, ast.Name) and c.func.id in ('int', 'float') and not returns:
                    early.append(c)
        if early:
            ctx.finding('R3', '%s::%s::parsing before the filter' % (UTILS, FN), UTILS, early[0].lineno,
                        '%s is evaluated before the PAT_PERF filter on a path that continues' % unparse(early[0]))
        else:
            ctx.ok('R3', 'PAT_PERF filter precedes the field / multi / timed arms')
    # ---- R4
    recs = repo.const(UTILS, 'FIELD_EVENT_RECORDS_BY_GENDER')
    D = P.dfa('PAT_PERF')
    n_rec = 0
    for g, table in sorted(recs.items()):
        for ev, r in sorted(table.items()):
            n_rec += 1
            txt = '%0.2f' % r
            if rx.accepts(D, txt):
                ctx.ok('R4', '%s %s record %s enterable' % (g, ev, txt))
            else:
                if g == 'all' and any(('%0.2f' % t.get(ev, -1)) == txt for gg, t in recs.items() if gg != 'all'):
                    continue        # same mark as a per-gender record: reported there
                ctx.finding('R4', '%s::FIELD_EVENT_RECORDS_BY_GENDER::%s %s %s' % (UTILS, g, ev, txt), UTILS, None,
                            "the %s %s record %s is not accepted by PAT_PERF (three integer digits): the record mark itself "
                            'cannot be entered' % (g, ev, txt), txt)
    ctx.floor('field records checked', n_rec, 18)
    # the record that bounds a field mark is the one of the athlete's gender: evaluate the lookup over the finite gender domain
    from .. import fold as _fold
    env_u, folder_u = repo.folded(UTILS)
    fer = env_u.get('field_event_record')
    if not isinstance(fer, _fold.FuncConst):
        raise AnalysisError('anchor vanished: field_event_record')
    F2 = _fold.Folder(importer=folder_u.importer)
    bad = []
    n_lookup = 0
    for g_in, g_key in (('m', 'm'), ('f', 'f'), ('M', 'm'), ('F', 'f'), ('all', 'all'), ('x', 'all')):
        for ev in sorted(recs.get('m', {})):
            n_lookup += 1
            try:
                got = F2.call(fer, [ev, g_in], {})
            except _fold.Unfoldable as e:
                raise AnalysisError('field_event_record is not evaluable over the gender domain: %s' % e)
            except _fold._Raise:
                got = '<raises>'
            except Exception as e:
                got = '<%s>' % type(e).__name__
            want = recs.get(g_key, {}).get(ev)
            if got != want:
                bad.append((ev, g_in, got, want))
    if bad:
        ctx.finding('R4', '%s::field_event_record::record by gender' % UTILS, UTILS, fer.node.lineno,
                    'field_event_record(%r, %r) gives %r; the %s record is %r (%d of %d lookups differ): marks beyond the athlete\'s own record '
                    'limit are accepted' % (bad[0][0], bad[0][1], bad[0][2], bad[0][1], bad[0][3], len(bad), n_lookup), list(bad[0]))
    else:
        ctx.ok('R4', 'field_event_record returns the record of the given gender for all %d (event, gender) lookups' % n_lookup)
    # multi-events: the returned text is str(int(...))
    for n in ast.walk(fn):
        if isinstance(n, ast.If) and 'MULTI_EVENTS' in ast.unparse(n.test):
            rets = [r for st in n.body for r in ast.walk(st) if isinstance(r, ast.Return)]
            for r in rets:
                v = r.value
                okint = False
                if isinstance(v, ast.Call) and call_name(v) == 'str' and v.args and isinstance(v.args[0], ast.Name):
                    defs = [a.value for a in ast.walk(n) if isinstance(a, ast.Assign) and any(isinstance(t, ast.Name) and t.id == v.args[0].id for t in a.targets)]
                    okint = bool(defs) and all(isinstance(d, ast.Call) and isinstance(d.func, ast.Name) and d.func.id == 'int' for d in defs)
                if okint:
                    ctx.ok('R2', 'multi-events: the score is parsed with int()')
                else:
                    ctx.finding('R2', '%s::%s::multi-event score not an integer' % (UTILS, FN), UTILS, r.lineno,
                                'the multi-events arm returns %s, whose value is not produced by int(): a decimal text such as 58.75 (or 5,875) '
                                'is accepted and returned instead of an integer below 10000' % unparse(v), "('DEC', '58.75')")
    # ---- R5 sexagesimal guard on the timed arm
    found_sec = found_min = False
    for n in ast.walk(fn):
        if isinstance(n, ast.If) and any(isinstance(r, ast.Raise) and isinstance(r.exc, ast.Call) and call_name(r.exc) == ek for r in n.body):
            for c in ast.walk(n.test):
                if isinstance(c, ast.Compare) and len(c.ops) == 1 and isinstance(c.comparators[0], ast.Constant):
                    l, op, v = ast.unparse(c.left), c.ops[0], c.comparators[0].value
                    if l == SEC and ((isinstance(op, ast.GtE) and v == 60) or (isinstance(op, ast.Gt) and v in (59, 59.99, 59.999))):
                        found_sec = True
                    if l == MIN and ((isinstance(op, ast.GtE) and v == 60) or (isinstance(op, ast.Gt) and v == 59)):
                        found_min = True
    if found_sec and found_min:
        ctx.ok('R5', 'seconds >= 60 and minutes >= 60 are refused with errorKlass')
    else:
        ctx.finding('R5', '%s::%s::sexagesimal guard' % (UTILS, FN), UTILS, fn.lineno,
                    'no guard refuses %s on the timed arm: a text such as 81:93 is accepted and returned' % (
                        ' / '.join(x for x, f in (('seconds >= 60', found_sec), ('minutes >= 60 under hours', found_min)) if not f)),
                    "('MAR', '81:93')")

    # ---- R7 checked value = printed value (re-validation of a returned value)
    from .. import printed
    probs, n_fmt = printed.analyse(fn)
    ctx.count('float formats returned by %s' % FN, n_fmt)
    ctx.floor('float formats returned', n_fmt, 2)
    for rule, v, line, msg, key in probs:
        ctx.finding('R7', '%s::%s::%s %s' % (UTILS, FN, rule, key), UTILS, line, msg,
                    {'P1': "100 m '9.094' -> '9.09' -> refused as too fast; 800 m '1:59.996' -> '1:60' -> refused"}.get(rule))
    if not probs:
        ctx.ok('R7', '%d float formats: the formatted values are rounded before every guard and derived quantity on the paths to the format' % n_fmt)

    # ---- R8 the returned texts are not re-interpreted by the function's own input fix-ups (regular languages, sa/reread.py)
    from .. import reread
    probs8, n_out, n_fix = reread.analyse(P, fn, R, params[1])
    ctx.count('output formats modelled as regular languages', n_out)
    ctx.count('input fix-ups with an event condition', n_fix)
    ctx.floor('output formats modelled', n_out, 3)
    ctx.floor('input fix-ups examined', n_fix, 4)
    for key, msg, w in probs8:
        ctx.finding('R8', '%s::%s::%s' % (UTILS, FN, key), UTILS, fn.lineno, msg, w)
    if not probs8:
        ctx.ok('R8', '%d output formats x %d fix-ups: no returned text lies in the trigger language of a fix-up of the same event' % (n_out, n_fix))

    # ---- R9 the speed check is reached: get_distance (folded on constants) gives every timed table key of the library a distance, and the
    # same distance when the key is written with the blanks the patterns admit between its groups ('110H 106.7cm 9.14m', '3000 W')
    import re as _re
    from .. import fold as _fold
    uenv, ufolder = repo.folded(UTILS)
    gd_fc = uenv.get('get_distance')
    if not isinstance(gd_fc, _fold.FuncConst):
        raise AnalysisError('get_distance is not foldable')
    pr = repo.const('athlib/codes.py', 'PAT_RUN')
    rxr = _re.compile(pr.pattern)
    keys = set()
    for rel_, name_ in (('athlib/tyrving_score.py', '_tyrvingTables'), ('athlib/qkids_score.py', '_qkidsTables')):
        for tab in repo.const(rel_, name_).values():
            keys |= {k for k in tab if isinstance(k, str)}
    for rel_ in ('athlib/wma/wma-data-2015.json', 'athlib/wma/wma-data-2023.json'):
        d_ = repo.json(rel_)
        keys |= {r[0] for g in ('m', 'f') for r in d_.get(g) or [] if isinstance(r[0], str)}
    timed = sorted(k for k in keys if rxr.match(k) and k[:1].isdigit() and 'x' not in k.lower())

    def gd(code):
        try:
            return _fold.Folder(importer=ufolder.importer).call(gd_fc, [code], {})
        except Exception as e:
            return '<%s>' % type(e).__name__
    n9 = 0
    bad9 = []
    for k in timed:
        spaced = _re.sub(r'(?<=[A-Za-z])(?=[0-9])', ' ', k)
        spaced2 = _re.sub(r'^([0-9.]+)(?=[A-Za-z])', r'\1 ', k)
        base = gd(k)
        for v in {k, spaced, spaced2}:
            if not rxr.match(v):
                continue
            n9 += 1
            got = gd(v)
            if not isinstance(got, (int, float)) or got != base or not isinstance(base, (int, float)):
                bad9.append((v, got, base))
    ctx.count('timed table keys (and spaced spellings) given to the folded get_distance', n9)
    ctx.floor('timed keys measured', n9, 100)
    if bad9:
        v, got, base = bad9[0]
        ctx.finding('R9', '%s::get_distance::timed codes without a distance' % UTILS, UTILS, mod.func('get_distance').lineno,
                    'get_distance(%r) gives %r (the unspaced key gives %r): for %d accepted spellings of timed table keys there is no distance, so '
                    'check_performance_for_discipline skips the speed limits for them' % (v, got, base, len(bad9)), v)
    else:
        ctx.ok('R9', 'get_distance gives all %d timed keys / spaced spellings their distance' % n9)

