"""C05 — a better performance never scores fewer points, in any scoring system."""
import ast
import math
from fractions import Fraction

from .. import fold, rx
from ..core import AnalysisError
from ..mono import Mono, V
from ..pats import Pats
from ..src import call_name, stmt_key, unparse
from .. import tables
from .c01 import dispatch_arms, score_roles

LEVEL = 'other'
ATH = 'athlib/athlon_score.py'
HUN = 'athlib/hungarian_score.py'
TYR = 'athlib/tyrving_score.py'
QK = 'athlib/qkids_score.py'
SH = 'athlib/sportshall_score.py'
BUL = 'athlib/bulgarian_score.py'
WANT = {'u': 'never decreases with a longer/higher mark', 'd': 'never increases with a slower time'}


def report_dir(ctx, rule, key, rel, line, what, got, want, notes):
    if got.d == want:
        ctx.ok(rule, '%s is weakly %s in the performance' % (what, 'increasing' if want == 'u' else 'decreasing'))
        return True
    ctx.finding(rule, key, rel, line,
                '%s: cannot show that the score %s (derived direction %r%s)' % (
                    what, WANT[want], {'u': 'increasing', 'd': 'decreasing', 'c': 'constant', '?': 'unknown'}[got.d],
                    '; ' + '; '.join(notes[:2]) if notes else ''))
    return False


def run(ctx, repo):
    P = Pats(repo)
    ctx.explanation = (
        'Per scoring system, weak monotonicity in the right direction for all real inputs in range by a direction/sign '
        'abstract interpretation of the formula (monotone primitives compose; IEEE operations are monotone) with sign facts '
        'proved over every table row, junction obligations for piecewise definitions (clamp bounds; exact Fraction '
        'evaluation at every threshold of every Tyrving cell), and complete order / bounds checks of every tabulated column '
        '(Sportshall as Decimals, Bulgarian over every integer key between min and max) and clamp orientation.')
    ctx.rule('HIST', 'no history: scoring functions never change a shared table entry in place; memos are transparent')
    ctx.rule('ATH', 'combined events: field arms increase, time arm decreases, result clamped at 0 (facts: A>0, X>0 for all rows; age factors >0)')
    ctx.rule('HUN', 'Hungarian: a>0 for all rows, sign of b matches the kind; (perf+b)^2 has the right direction on the stated range; result clamped at 0')
    ctx.rule('TYR', 'Tyrving: race decreases, jump increases, piecewise-linear events non-decreasing across every threshold of every cell; '
                    'hand-timing increments are non-negative and added to the time')
    ctx.rule('QK', 'QuadKids: step > 0 for all rows; direction by kind; clamp to 10..100')
    ctx.rule('SH', 'Sportshall: every column ordered in the scoring direction; beyond-table increments non-negative')
    ctx.rule('BUL', 'Bulgarian: every key between min and max present, values in 0..150 and weakly monotone; clamps oriented like min/max')
    history(ctx, repo)
    athlon(ctx, repo)
    hungarian(ctx, repo, P)
    tyrving(ctx, repo)
    qkids(ctx, repo)
    sportshall(ctx, repo)
    bulgarian(ctx, repo)


# ---------------------------------------------------------------- no history in the scoring functions
def history(ctx, repo):
    """monotonicity is stated for a fixed event/gender/age: the answer for one mark must not depend on earlier calls"""
    from ..memo import shared_alias_mutations, analyse as memo_analyse
    from ..props.c19 import module_mutables
    n = 0
    for rel, quals in ((ATH, ['score', 'performance']), (HUN, ['score', 'get_lookup_table']), (TYR, ['tyrving_score', 'TyrvingCalculator.points',
                       'TyrvingCalculator.race_points', 'TyrvingCalculator.jump_points', 'TyrvingCalculator.stav_points', 'TyrvingCalculator.get_base_perf']),
                       (QK, ['qkids_score']), (SH, ['sportshall_score', 'score_high_event', 'score_low_event']), (BUL, ['score'])):
        mod = repo.module(rel)
        mm = set(module_mutables(mod)) | {t.id for st in mod.tree.body if isinstance(st, ast.Assign) for t in st.targets if isinstance(t, ast.Name)}
        for q in quals:
            if not mod.has_func(q):
                raise AnalysisError('anchor vanished: %s in %s' % (q, rel))
            fn = mod.func(q)
            n += 1
            for msg, node in shared_alias_mutations(fn, mm):
                ctx.finding('HIST', '%s::%s::shared table entry changed in place' % (rel, q), rel, node.lineno,
                            msg + ': the same mark scores differently before and after, and a better mark can then score less',
                            'a call with the special option first, then an ordinary call')
            res, memos = memo_analyse(fn, mm)
            for rule, msg, node in res:
                ctx.finding('HIST', '%s::%s::memo %s' % (rel, q, rule), rel, node.lineno, msg)
    ctx.count('scoring functions examined for history dependence', n)
    if not any(f.rule == 'HIST' for f in ctx.findings):
        ctx.ok('HIST', '%d scoring functions: no shared table entry changed in place, memos transparent' % n)


# ---------------------------------------------------------------- athlon
def athlon(ctx, repo):
    mod = repo.module(ATH)
    score = mod.func('score')
    table = repo.const(ATH, '_scoring_table')
    bad = [(o['gender'], o['event_code']) for o in table if not (o['A'] > 0 and o['X'] > 0)]
    if bad:
        ctx.finding('ATH', '%s::_scoring_table::A and X positive' % ATH, ATH, None,
                    'rows %s have A <= 0 or X <= 0: the power law is not increasing in its base' % bad[:3], bad[:3])
        return
    ctx.ok('ATH', 'A > 0 and X > 0 for all %d rows' % len(table))
    data = repo.json('athlib/wma/wma-athlons-data.json')
    cells = [v for g in 'mf' for r in data[g] for v in r[1:]]
    if not all(isinstance(v, (int, float)) and v > 0 for v in cells):
        ctx.finding('ATH', 'athlib/wma/wma-athlons-data.json::factors positive', 'athlib/wma/wma-athlons-data.json', None,
                    'an athlon age factor is not a positive number: the adjusted mark changes direction')
        return
    ctx.ok('ATH', 'all %d athlon age factors > 0' % len(cells))
    ctx.count('table facts proved', len(table) + len(cells))
    arms, chain = dispatch_arms(score)
    if arms is None:
        raise AnalysisError('score(): dispatch chain not found')
    from .c01 import dispatch_case_rule
    dispatch_case_rule(ctx, repo, mod, score, 'ATH')
    mark = score.args.args[2].arg
    RL = score_roles(score)
    co, af = RL['coeffs'], RL['age']
    facts = {"%s['A']" % co: V('c', '+'), "%s['X']" % co: V('c', '+'), "%s['Z']" % co: V('c', '?'), af: V('c', '+')}
    for kind, body in arms.items():
        m = Mono(mark, facts)
        m.env[af] = V('c', '+')
        m.run(body)
        res = m.env.get(RL['result'])
        if res is None:
            raise AnalysisError('score(): the %s arm does not define points' % kind)
        want = 'd' if kind == 'time' else 'u'
        report_dir(ctx, 'ATH', '%s::score::%s arm direction' % (ATH, kind), ATH, chain.lineno, 'athlon %s arm' % kind, res, want, m.notes)
        if res.lb is not None and res.lb >= 0:
            ctx.ok('ATH', 'athlon %s arm: result >= 0' % kind)
        else:
            ctx.finding('ATH', '%s::score::%s arm non-negative' % (ATH, kind), ATH, chain.lineno,
                        'the %s arm is not clamped at 0 (lower bound %s)' % (kind, res.lb))


# ---------------------------------------------------------------- hungarian
def hungarian(ctx, repo, P):
    mod = repo.module(HUN)
    fn = mod.func('score')
    F = repo.const(HUN, 'FACTORS')
    field = P.dfa('PAT_FIELD')
    timed = P.dfa('PAT_TIMED_EVENT')
    nrows = 0
    for row in F:
        if len(row) != 6:
            raise AnalysisError('hungarian FACTORS row %r' % (row,))
        g, io, ev, a, b, c = row
        nrows += 1
        key = '%s::FACTORS::%s %s %s' % (HUN, g, io, ev)
        if not (isinstance(a, (int, float)) and a > 0):
            ctx.finding('HUN', key + '::a', HUN, None, 'multiplier a of %s %s %s is %r, not positive: better marks lose points' % (g, io, ev, a), a)
        isf, ist = rx.accepts(field, ev), rx.accepts(timed, ev)
        if isf and not b > 0 and not (b == 0):
            ctx.finding('HUN', key + '::b', HUN, None,
                        'field event %s %s %s has b = %r < 0: (mark + b)^2 decreases for marks below %s' % (g, io, ev, b, -b), b)
        if ist and not b < 0:
            ctx.finding('HUN', key + '::b', HUN, None,
                        'timed event %s %s %s has b = %r >= 0: (time + b)^2 increases with the time' % (g, io, ev, b), b)
        if not isf and not ist:
            ctx.info('hungarian row %s %s %s is neither a field nor a timed event' % (g, io, ev))
    ctx.count('table facts proved', nrows)
    ctx.floor('hungarian rows', nrows, 140)
    if not any(f.rule == 'HUN' for f in ctx.findings):
        ctx.ok('HUN', 'a > 0 and sign(b) matches the kind for all %d rows' % nrows)
    rets = [n for n in ast.walk(fn) if isinstance(n, ast.Return)]
    if len(rets) != 1:
        raise AnalysisError('hungarian score(): expected one return')
    perf = fn.args.args[3].arg
    base = {'a': V('c', '+'), 'c': V('c', '?')}
    for kind, bsign, perf_b, want in (('field', '+', V('u', '+'), 'u'), ('timed', '-', V('u', '0-'), 'd')):
        facts = dict(base)
        facts['b'] = V('c', bsign)
        facts['%s + b' % perf] = perf_b       # field: mark >= 0 and b > 0; timed: the property's range, marks no slower than -b
        m = Mono(perf, facts)
        m.env[perf] = V('u', '0+')
        res = m.ev(rets[0].value)
        report_dir(ctx, 'HUN', '%s::score::%s direction' % (HUN, kind), HUN, rets[0].lineno, 'hungarian %s events' % kind, res, want, m.notes)
    m = Mono(perf, base)
    res = m.ev(rets[0].value)
    if res.lb is not None and res.lb >= 0:
        ctx.ok('HUN', 'result clamped at 0')
    else:
        ctx.finding('HUN', '%s::score::result non-negative' % HUN, HUN, rets[0].lineno,
                    'the result %s has no lower clamp: c is negative for field events, so short marks score negative points' % unparse(rets[0].value),
                    "score('M','OUT','HJ',0.5) = -324")


# ---------------------------------------------------------------- tyrving
def base_perf(yv, age):
    if isinstance(yv, dict):
        return yv.get(age)
    y, v = yv
    return v[age - y] if y <= age < y + len(v) else None


def ages_of(yv):
    if isinstance(yv, dict):
        return sorted(yv)
    y, v = yv
    return list(range(y, y + len(v)))


def tyrving(ctx, repo):
    mod = repo.module(TYR)
    T = repo.const(TYR, '_tyrvingTables')
    cls = mod.cls('TyrvingCalculator')
    meths = {f.name: f for f in cls.body if isinstance(f, ast.FunctionDef)}
    aliases = {}
    for st in cls.body:
        if isinstance(st, ast.Assign) and isinstance(st.value, ast.Name) and st.value.id in meths:
            for t in st.targets:
                aliases[t.id] = st.value.id
    kinds = {}
    n_cells = 0
    for g, tab in T.items():
        for ev, (kind, args) in tab.items():
            kinds.setdefault(kind, []).append((g, ev, args))
    for kind in kinds:
        mname = kind + '_points'
        if mname not in meths and mname not in aliases:
            ctx.finding('TYR', '%s::_tyrvingTables::kind %s has no method' % (TYR, kind), TYR, None,
                        'table kind %r has no %s method: every such event raises' % (kind, mname))
    # table facts
    for g, ev, args in kinds.get('race', []):
        dist, mult, yv = args
        n_cells += 1
        if not mult > 0:
            ctx.finding('TYR', '%s::_tyrvingTables::%s %s multiplier' % (TYR, g, ev), TYR, None,
                        'race %s %s has multiplier %r <= 0: slower times score more' % (g, ev, mult), mult)
    for g, ev, args in kinds.get('jump', []):
        mult, yv = args
        n_cells += 1
        if not mult > 0:
            ctx.finding('TYR', '%s::_tyrvingTables::%s %s multiplier' % (TYR, g, ev), TYR, None,
                        'jump %s %s has multiplier %r <= 0: longer jumps score less' % (g, ev, mult), mult)
    # race
    rp = meths.get('race_points')
    if rp is None:
        raise AnalysisError('anchor vanished: race_points')
    perfn = rp.args.args[2].arg
    facts = {'self.timing_kind': V('c', '?')}
    for n in rp.body:
        if isinstance(n, ast.Assign) and isinstance(n.targets[0], ast.Tuple) and ast.unparse(n.value) == 'self.args' and len(n.targets[0].elts) == 3:
            dn, mn_, yn = [x.id for x in n.targets[0].elts]
            facts[dn] = V('c', '+')
            facts[mn_] = V('c', '+')
        if isinstance(n, ast.Assign) and isinstance(n.value, ast.Call) and call_name(n.value) == 'get_base_perf' and isinstance(n.targets[0], ast.Name):
            facts[n.targets[0].id] = V('c', '?')
    if len(facts) < 4:
        raise AnalysisError('race_points: cannot identify distance / multiplier / base performance')
    m = Mono(perfn, facts)
    rets = m.run(rp.body)
    if len(rets) != 1:
        raise AnalysisError('race_points: expected one return')
    report_dir(ctx, 'TYR', '%s::TyrvingCalculator.race_points::direction' % TYR, TYR, rets[0][1].lineno, 'Tyrving race points', rets[0][0], 'd', m.notes)
    if not (rets[0][0].lb is not None and rets[0][0].lb >= 0):
        ctx.finding('TYR', '%s::TyrvingCalculator.race_points::non-negative' % TYR, TYR, rets[0][1].lineno, 'race points are not clamped at 0')
    # hand timing: increments are constants >= 0 and are added to the time
    def under_manual(n):
        p_ = getattr(n, '_parent', None)
        while p_ is not None and p_ is not rp:
            if isinstance(p_, ast.If) and 'manual' in ast.unparse(p_.test):
                return True
            p_ = getattr(p_, '_parent', None)
        return False
    adds = [n for n in ast.walk(rp) if isinstance(n, ast.AugAssign) and under_manual(n)]
    incs = []
    for a_ in adds:
        if isinstance(a_.value, ast.Name):
            incs += [n.value for n in ast.walk(rp) if isinstance(n, ast.Assign) and ast.unparse(n.targets[0]) == a_.value.id]
        else:
            incs.append(a_.value)        # the increment written in place: `v += <table of constants>`

    def in_test(c):
        p_ = getattr(c, '_parent', None)
        while p_ is not None and not isinstance(p_, ast.stmt):
            if isinstance(p_, ast.Compare):
                return True
            if isinstance(p_, ast.Dict) and c in p_.keys:
                return True
            p_ = getattr(p_, '_parent', None)
        return False
    consts = [c.value for i in incs for c in ast.walk(i) if isinstance(c, ast.Constant) and isinstance(c.value, (int, float))
              and not isinstance(c.value, bool) and not in_test(c)]
    # the increment must be visible as constants: anything else (a call, a table lookup) is not decided here - the normalised views
    # (sa/views.py) write a lookup in a constant table out as the conditional chain it abbreviates
    def visible(e):
        if isinstance(e, ast.Constant):
            return True
        if isinstance(e, ast.IfExp):
            return visible(e.body) and visible(e.orelse)
        if isinstance(e, ast.BinOp) and isinstance(e.op, (ast.Add, ast.Mult)):
            return visible(e.left) and visible(e.right)
        return False
    in_manual = bool(adds) and all(visible(i) for i in incs)
    if incs and adds and consts and all(isinstance(a.op, ast.Add) for a in adds) and all(c >= 0 for c in consts) and in_manual:
        ctx.ok('TYR', 'hand-timing increments %s are >= 0 and added to the time' % sorted(set(consts)))
    else:
        ctx.finding('TYR', '%s::TyrvingCalculator.race_points::hand-timing correction' % TYR, TYR, rp.lineno,
                    'the hand-timing correction is not `time += non-negative constant` under timing_kind == manual (constants %s): a '
                    'hand-timed mark could score more than the same figure timed electronically' % sorted(set(consts)))
    # jump
    jp = meths.get('jump_points')
    perfn = jp.args.args[2].arg
    jfacts = {}
    for n in jp.body:
        if isinstance(n, ast.Assign) and isinstance(n.targets[0], ast.Tuple) and ast.unparse(n.value) == 'self.args' and len(n.targets[0].elts) == 2:
            jfacts[n.targets[0].elts[0].id] = V('c', '+')
        if isinstance(n, ast.Assign) and isinstance(n.value, ast.Call) and call_name(n.value) == 'get_base_perf' and isinstance(n.targets[0], ast.Name):
            jfacts[n.targets[0].id] = V('c', '?')
    m = Mono(perfn, jfacts)
    rets = m.run(jp.body)
    if len(rets) != 1:
        raise AnalysisError('jump_points: expected one return')
    report_dir(ctx, 'TYR', '%s::TyrvingCalculator.jump_points::direction' % TYR, TYR, rets[0][1].lineno, 'Tyrving jump points', rets[0][0], 'u', m.notes)
    # piecewise-linear events: exact evaluation across every threshold of every cell
    sp = meths.get('stav_points')
    if sp is None:
        raise AnalysisError('anchor vanished: stav_points')
    ret = [n for n in ast.walk(sp) if isinstance(n, ast.Return)]
    if len(ret) != 1:
        raise AnalysisError('stav_points: expected one return')
    r = ret[0].value
    # shape: max(0, int(<expr>))
    if not (isinstance(r, ast.Call) and call_name(r) == 'max' and len(r.args) == 2 and isinstance(r.args[0], ast.Constant) and r.args[0].value == 0
            and isinstance(r.args[1], ast.Call) and call_name(r.args[1]) == 'int'):
        ctx.finding('TYR', '%s::TyrvingCalculator.stav_points::clamped integer' % TYR, TYR, ret[0].lineno,
                    'stav_points does not return max(0, int(...))')
        return
    inner = r.args[1].args[0]
    defs = {n.targets[0].id: n.value for n in sp.body if isinstance(n, ast.Assign) and isinstance(n.targets[0], ast.Name)}
    if 'diffs' not in defs:
        raise AnalysisError('stav_points: diffs not found')
    Fd = fold.Folder()
    vname = 'v'
    bad_cells = []
    n_pw = 0
    for kind in ('stav', 'throw', 'pv'):
        for g, ev, args in kinds.get(kind, []):
            mults, yvs = args
            if len(mults) != 3 or len(yvs) != 3:
                ctx.finding('TYR', '%s::_tyrvingTables::%s %s shape' % (TYR, g, ev), TYR, None, 'piecewise event %s %s does not have 3 multipliers and 3 levels' % (g, ev))
                continue
            if not all(x > 0 for x in mults):
                ctx.finding('TYR', '%s::_tyrvingTables::%s %s multipliers' % (TYR, g, ev), TYR, None,
                            'piecewise event %s %s has a slope <= 0 (%s): better marks lose points' % (g, ev, mults), mults)
                continue
            for age in ages_of(yvs[0]):
                lv = [base_perf(yv, age) for yv in yvs]
                if any(x is None for x in lv):
                    continue
                n_pw += 1
                L = [Fraction(str(x)) for x in lv]
                M = [Fraction(str(x)) for x in mults]
                bps = sorted({L[0], L[1]})
                d = Fraction(1, 10 ** 6)
                pts = [bps[0] - 10, bps[0] - d, bps[0], bps[0] + d]
                if len(bps) > 1:
                    pts += [bps[1] - d, bps[1], bps[1] + d]
                pts.append(bps[-1] + 10)
                pts = sorted(set(pts))
                vals = []
                for x in pts:
                    env = {vname: x, 'levels': L, 'multipliers': M}
                    try:
                        # the arithmetic temporaries of the method, in source order (diffs and whatever else the formula names)
                        for st_ in sp.body:
                            if isinstance(st_, ast.Assign) and len(st_.targets) == 1 and isinstance(st_.targets[0], ast.Name) \
                                    and st_.targets[0].id not in (vname, 'levels', 'multipliers'):
                                try:
                                    env[st_.targets[0].id] = Fd.expr(st_.value, env)
                                except Exception:
                                    if st_.targets[0].id == 'diffs':
                                        raise
                            elif isinstance(st_, ast.If):
                                # an if / elif chain that only selects a value (delta = ... per piece): executed on the exact values
                                protected = {vname, 'levels', 'multipliers'}
                                if not any(isinstance(t_, ast.Name) and t_.id in protected and isinstance(t_.ctx, ast.Store) for t_ in ast.walk(st_)) \
                                        and not any(isinstance(x_, (ast.Return, ast.Raise)) for x_ in ast.walk(st_)):
                                    try:
                                        Fd.stmt(st_, env)
                                    except Exception:
                                        pass
                        vals.append(Fd.expr(inner, env))
                    except Exception as e:
                        raise AnalysisError('stav_points: cannot evaluate the piecewise expression exactly: %s' % e)
                for (x0, y0), (x1, y1) in zip(zip(pts, vals), zip(pts[1:], vals[1:])):
                    if y1 < y0:
                        bad_cells.append((g, ev, age, float(x0), float(y0), float(x1), float(y1)))
                        break
    ctx.count('piecewise-linear Tyrving cells checked exactly', n_pw)
    ctx.floor('piecewise-linear Tyrving cells', n_pw, 100)
    ctx.count('table facts proved', n_cells)
    if bad_cells:
        by_ev = {}
        for b in bad_cells:
            by_ev.setdefault((b[0], b[1]), []).append(b)
        for (g, ev), bs in sorted(by_ev.items()):
            b = bs[0]
            ctx.finding('TYR', '%s::TyrvingCalculator.stav_points::dip %s %s' % (TYR, g, ev), TYR, ret[0].lineno,
                        'piecewise points of %s %s dip at a threshold for %d ages, e.g. age %s: %.4f m scores %.2f but %.4f m scores %.2f' % (
                            g, ev, len(bs), b[2], b[3], b[4], b[5], b[6]), list(b))
    else:
        ctx.ok('TYR', 'piecewise-linear events: %d (gender, event, age) cells non-decreasing across both thresholds (exact)' % n_pw)


# ---------------------------------------------------------------- qkids
def qkids(ctx, repo):
    mod = repo.module(QK)
    fn = mod.func('qkids_score')
    T = repo.const(QK, '_qkidsTables')     # the table as it stands after the module body ran (import-time changes included)
    import re as _re
    pr = repo.const('athlib/codes.py', 'PAT_RUN')
    fl = pr.flags
    if isinstance(fl, tuple) and fl[:2] == ('modattr', 're'):
        fl = int(getattr(_re, fl[2]))
    rx = _re.compile(pr.pattern, fl if isinstance(fl, int) else 0)
    n = 0
    groups = {}
    for comp, tab in T.items():
        for ev, row in tab.items():
            n += 1
            if not (isinstance(row, (list, tuple)) and len(row) >= 2 and isinstance(row[0], (int, float)) and row[0] != 0):
                ctx.finding('QK', '%s::_qkidsTables::%s %s step' % (QK, comp, ev), QK, None,
                            'QuadKids %s %s has step %r: a zero or missing step divides by zero' % (comp, ev, row[0] if row else None),
                            row[0] if row else None)
                continue
            groups.setdefault((bool(rx.match(ev)), '+' if row[0] > 0 else '-'), []).append('%s %s' % (comp, ev))
    ctx.count('table facts proved', n)
    ctx.floor('qkids rows', n, 40)
    perf = fn.args.args[2].arg
    test = None
    for x in ast.walk(fn):
        if isinstance(x, (ast.IfExp, ast.If)) and 'PAT_RUN' in ast.unparse(x.test):
            test = ast.unparse(x.test)
    for (is_run, sign), rows in sorted(groups.items()):
        kind = 'run' if is_run else 'field'
        want = 'd' if is_run else 'u'
        facts = {'row[0]': V('c', sign), 'row[1]': V('c', '?')}
        m = Mono(perf, facts, assume={test: is_run} if test else {})
        rets = m.run(fn.body)
        if len(rets) != 1:
            raise AnalysisError('qkids_score: expected one return')
        res = rets[0][0]
        key = '%s::qkids_score::%s direction' % (QK, kind) + ('' if sign == '+' else ' (rows with a negative step: %s)' % ', '.join(rows[:3]))
        report_dir(ctx, 'QK', key, QK, rets[0][1].lineno, 'QuadKids %s events with step %s0 (%d rows, e.g. %s)' % (
            kind, '>' if sign == '+' else '<', len(rows), rows[0]), res, want, m.notes)
        if res.lb == 10 and res.ub == 100:
            ctx.ok('QK', 'QuadKids %s (step %s0): clamped to 10..100' % (kind, '>' if sign == '+' else '<'))
        else:
            ctx.finding('QK', '%s::qkids_score::bounds' % QK, QK, rets[0][1].lineno,
                        'the QuadKids result is bounded by [%s, %s], not clamped to 10..100' % (res.lb, res.ub))


# ---------------------------------------------------------------- sportshall
def sportshall(ctx, repo):
    probs, n_cells, db, high = tables.sportshall_problems(repo)
    ctx.count('sportshall cells checked', n_cells)
    ctx.floor('sportshall cells', n_cells, 700)
    seen = set()
    for kind, code, msg, w in probs:
        if kind in ('order', 'value', 'increment', 'shape'):
            k = (kind, code)
            if k in seen:
                continue
            seen.add(k)
            ctx.finding('SH', '%s::table %s::%s' % (SH, code, kind), SH, None, msg, w)
    if not seen:
        ctx.ok('SH', 'all %d columns ordered (%d cells), increments non-negative' % (len(db), n_cells))
    # beyond-table arm: points = max_points + steps * incpoints with steps = floor(excess / increment)
    mod = repo.module(SH)
    for fname, high in (('score_high_event', True), ('score_low_event', False)):
        fn = mod.func(fname)
        dperf = fn.args.args[0].arg
        # the top-of-table mark: the Decimal built from the last table entry
        tops = [n.targets[0].id for n in ast.walk(fn) if isinstance(n, ast.Assign) and isinstance(n.value, ast.Call) and call_name(n.value) == 'Decimal'
                and isinstance(n.targets[0], ast.Name) and isinstance(n.value.args[0], ast.Name)]
        if not tops:
            raise AnalysisError('%s: top-of-table Decimal not found' % fname)
        top = tops[0]
        better = ('%s - %s' % (dperf, top)) if high else ('%s - %s' % (top, dperf))
        # excess: the name that is floor-divided by the increment (or passed through float() and divided)
        exn = None
        for n in ast.walk(fn):
            if isinstance(n, ast.BinOp) and isinstance(n.op, (ast.FloorDiv, ast.Div)) and 'increment' in ast.unparse(n.right):
                nm = [x.id for x in ast.walk(n.left) if isinstance(x, ast.Name) and x.id not in ('float', 'Decimal')]
                if nm:
                    exn = nm[0]
        ex = [n for n in ast.walk(fn) if isinstance(n, ast.Assign) and exn and ast.unparse(n.targets[0]) == exn]
        if ex and ast.unparse(ex[0].value) == better:
            ctx.ok('SH', '%s: excess = %s' % (fname, better))
        else:
            ctx.finding('SH', '%s::%s::excess orientation' % (SH, fname), SH, fn.lineno,
                        'beyond the table %s computes the excess as %s, not %s (mark beyond the top of the table)' % (
                            fname, unparse(ex[0].value) if ex else '?', better))
        # points beyond the table = top points + steps * incpoints
        sums = [n for n in ast.walk(fn) if isinstance(n, ast.Assign) and isinstance(n.value, ast.BinOp) and isinstance(n.value.op, ast.Add)
                and isinstance(n.value.left, ast.Name) and isinstance(n.value.right, ast.Name) and n.lineno > (ex[0].lineno if ex else 0)]
        subs = [n for n in ast.walk(fn) if isinstance(n, ast.Assign) and isinstance(n.value, ast.BinOp) and isinstance(n.value.op, ast.Sub)
                and isinstance(n.value.left, ast.Name) and isinstance(n.value.right, ast.Name) and n.lineno > (ex[0].lineno if ex else 0)
                and n.lineno < (ex[0].lineno if ex else 0) + 14]
        if sums and not subs:
            ctx.ok('SH', '%s: points beyond the table are added to the top points' % fname)
        else:
            ctx.finding('SH', '%s::%s::beyond-table points' % (SH, fname), SH, fn.lineno, 'beyond-table points are not top points + extra points')
        first = [n for n in fn.body if isinstance(n, ast.If) and top in ast.unparse(n.test)]
        want = ('%s > %s' % (dperf, top)) if high else ('%s < %s' % (dperf, top))
        alt = ('%s < %s' % (top, dperf)) if high else ('%s > %s' % (top, dperf))
        if first and ast.unparse(first[0].test) in (want, alt):
            ctx.ok('SH', '%s: beyond-table test %s' % (fname, want))
        else:
            ctx.finding('SH', '%s::%s::beyond-table test' % (SH, fname), SH, fn.lineno, 'the beyond-table test is not %s' % want)


# ---------------------------------------------------------------- bulgarian
def bulgarian(ctx, repo):
    probs, n_cells, scores = tables.bulgarian_problems(repo)
    ctx.count('bulgarian cells checked', n_cells)
    ctx.floor('bulgarian cells', n_cells, 29000)
    seen = set()
    for kind, key, msg, w in probs:
        if kind == 'dead':
            ctx.info(msg)
            continue
        k = (kind, key)
        if k in seen:
            continue
        seen.add(k)
        ctx.finding('BUL', '%s::scores %s::%s' % (BUL, key, kind), BUL, None, msg, w)
    if not seen:
        ctx.ok('BUL', 'all %d tables complete, within 0..150 and weakly monotone (%d cells)' % (len(scores), n_cells))
    try:
        for msg in tables.bulgarian_clamps(repo):
            ctx.finding('BUL', '%s::score::clamp orientation' % BUL, BUL, None, msg)
    except AnalysisError as e_:
        ctx.info('clamp arms not in the recognised shape (%s); decided by the decision table below' % e_)
    # decision table of score() over the complete tabulated domain and the marks beyond both ends (the function is folded)
    dt, n_dt = tables.bulgarian_decision_table(repo)
    ctx.count('Bulgarian (table, mark) cells folded through score()', n_dt)
    ctx.floor('Bulgarian decision-table cells', n_dt, 3000)
    for key_, msg_, w_ in dt:
        ctx.finding('BUL', '%s::score::decision table %s' % (BUL, key_), BUL, None, msg_, w_)
    if not dt:
        ctx.ok('BUL', 'score() equals the table on all %d tabulated marks and is 0 / 150 beyond the worst / best end' % n_dt)
    if not any(f.construct.endswith('clamp orientation') for f in ctx.findings):
        ctx.ok('BUL', 'clamps oriented like the min/max of the tables')
    ctx.extra['exhaustive'] = True
