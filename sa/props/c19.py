"""C19 — schema validation answers do not depend on history (memo transparency + sole-state argument)."""
import ast
import glob
import json
import os

from ..core import AnalysisError
from ..src import call_name, stmt_key, unparse, enclosing

LEVEL = 'other'
UTILS = 'athlib/utils.py'
MEMO_FUNCS = ['schema_valid', 'valid_against_schema']
SCOPE = ['schema_valid', 'valid_against_schema', '_add_to_cache', 'localpath', 'LocalFileResolver.resolve_from_url']
MUT = {'append', 'extend', 'insert', 'pop', 'remove', 'clear', 'sort', 'reverse', 'update', 'setdefault', 'add',
       'discard', 'popitem', '__setitem__', '__delitem__'}


def module_mutables(mod):
    out = {}
    for st in mod.tree.body:
        if isinstance(st, (ast.Assign, ast.AnnAssign)):
            tg = st.targets if isinstance(st, ast.Assign) else [st.target]
            v = st.value
            kind = None
            if isinstance(v, (ast.Dict, ast.List, ast.Set, ast.DictComp, ast.ListComp, ast.SetComp)):
                kind = 'container'
            elif isinstance(v, ast.Call) and call_name(v) in ('dict', 'list', 'set', 'OrderedDict', 'defaultdict', 'deque'):
                kind = 'container'
            for t in tg:
                if isinstance(t, ast.Name) and kind:
                    out[t.id] = kind
    return out


def names_in(n):
    return {x.id for x in ast.walk(n) if isinstance(x, ast.Name)}


def run(ctx, repo):
    mod = repo.module(UTILS)
    ctx.explanation = (
        'Complete argument: (R1) effect inventory of the validation helpers shows the two memo dicts are the only state '
        'carried between calls; (R2) memo transparency: the key contains every parameter the stored outcome can depend on '
        '- no cache store is control-dependent (through an enclosing test, an enclosing with, or an earlier may-raise '
        'statement of the same try body) on a parameter that is not part of the key - a hit returns only the stored value, '
        'and eviction only removes entries.  R1+R2 imply every call equals the same call in a fresh process (files and '
        'jsonschema assumed deterministic).  (R3) every $ref under json/ is local and names an existing file.')
    ctx.rule('R1', 'the memo dicts are the only module state written by the validation helpers')
    ctx.rule('R2', 'memo transparency: no cache store depends on a non-key parameter; hits return the stored value; eviction only removes')
    ctx.rule('R4', 'the eviction of _add_to_cache uses only operations that every cache passed to it supports')
    ctx.rule('R3', 'every $ref in json/** is "#..." or "file:///json/..." naming an existing file')
    ctx.rule('R5', 'the report of a failed validation cannot fail itself: between the caught schema / validation error and `return False` '
                   'only printing / formatting operations that accept any value are performed')
    # ---- R5
    SAFE = {'print', 'str', 'repr', 'format', 'len', 'type', 'isinstance', 'getattr'}
    n_h = 0
    for fname in ('schema_valid', 'valid_against_schema'):
        if not mod.has_func(fname):
            continue
        f_ = mod.func(fname)
        for h in [x for x in ast.walk(f_) if isinstance(x, ast.ExceptHandler)]:
            if not any(isinstance(r, ast.Return) and isinstance(r.value, ast.Constant) and r.value.value is False for r in ast.walk(h)):
                continue
            n_h += 1
            bad = []
            for c in ast.walk(h):
                if isinstance(c, ast.Call):
                    nm = call_name(c)
                    root = c.func
                    while isinstance(root, ast.Attribute):
                        root = root.value
                    rooted = root.id if isinstance(root, ast.Name) else None
                    if isinstance(c.func, ast.Name) and nm in SAFE:
                        continue
                    if rooted in ('logging', 'logger', 'log', 'warnings', 'sys'):
                        continue
                    if isinstance(c.func, ast.Attribute) and nm == 'format' and isinstance(c.func.value, ast.Constant):
                        continue
                    if isinstance(c.func, ast.Attribute) and nm == 'join' and isinstance(c.func.value, ast.Constant) and len(c.args) == 1 and isinstance(
                            c.args[0], (ast.GeneratorExp, ast.ListComp)) and isinstance(c.args[0].elt, ast.Call) and call_name(c.args[0].elt) in ('str', 'repr'):
                        continue
                    bad.append(c)
                if isinstance(c, ast.BinOp) and isinstance(c.op, ast.Mod) and isinstance(c.left, ast.Constant) and isinstance(c.left.value, str):
                    import re as _re
                    if [m for m in _re.findall(r'%[-+ #0-9.]*([a-zA-Z%])', c.left.value) if m not in 'sr%a']:
                        bad.append(c)
            if bad:
                b = bad[0]
                ctx.finding('R5', '%s::%s::the failure report can fail' % (UTILS, fname), UTILS, b.lineno,
                            '%s: while reporting a failed validation (the path that returns False) `%s` is evaluated; it can raise for some '
                            'error objects (a path with array indices, a missing attribute), and the call then ends in that error instead of False'
                            % (fname, unparse(b)[:80]), 'an invalid document whose error sits inside an array, expect_failure=False')
            else:
                ctx.ok('R5', '%s: the failure report only prints' % fname)
    ctx.floor('failure handlers that return False', n_h, 2)
    muts = module_mutables(mod)
    caches = set()
    n_store = 0
    for fname in MEMO_FUNCS:
        fn = mod.func(fname)
        params = [a.arg for a in fn.args.args]
        # key tuple
        key = keyvar = None
        lossy = []
        for st in fn.body:
            if isinstance(st, ast.Assign) and isinstance(st.value, ast.Tuple) and isinstance(st.targets[0], ast.Name) \
                    and any(names_in(x) & set(params) for x in st.value.elts):
                key = []
                for x in st.value.elts:
                    if isinstance(x, ast.Name) and x.id in params:
                        key.append(x.id)
                    elif names_in(x) & set(params):
                        lossy.append((unparse(x), sorted(names_in(x) & set(params))))
                keyvar = st.targets[0].id
                break
        if key is None:
            raise AnalysisError('%s: memo key tuple not found' % fname)
        for txt, ps in lossy:
            ctx.finding('R2', '%s::%s::key component %s' % (UTILS, fname, txt), UTILS, fn.lineno,
                        'the memo key of %s contains %s instead of the parameter %s itself: different values of %s share one cache entry, '
                        'so the answer for one is served to the other' % (fname, txt, ps[0], ps[0]), 'the accepting value first, then a rejecting one')
        nonkey = set(params) - set(key)
        # cache used by this function
        stores = [c for c in ast.walk(fn) if isinstance(c, ast.Call) and call_name(c) == '_add_to_cache']
        sub_stores = [n for n in ast.walk(fn) if isinstance(n, ast.Assign) and any(
            isinstance(t, ast.Subscript) and isinstance(t.value, ast.Name) and t.value.id in muts for t in n.targets)]
        cache_names = {c.args[0].id for c in stores if c.args and isinstance(c.args[0], ast.Name)} | \
            {t.value.id for n in sub_stores for t in n.targets if isinstance(t, ast.Subscript)}
        # the function's own cache is the one its hit test reads; stores into any other cache are reported
        own = None
        for st in fn.body:
            if isinstance(st, ast.If):
                for cn in sorted(cache_names):
                    if cn in ast.unparse(st.test) and own is None:
                        own = cn
        if own is None:
            if len(cache_names) != 1:
                raise AnalysisError('%s: cannot tell which of %s is its own memo' % (fname, sorted(cache_names)))
            own = sorted(cache_names)[0]
        for other in sorted(cache_names - {own}):
            site = [c for c in stores if c.args and isinstance(c.args[0], ast.Name) and c.args[0].id == other]
            ctx.finding('R2', '%s::%s::stores into %s' % (UTILS, fname, other), UTILS, site[0].lineno if site else fn.lineno,
                        '%s also fills %s, the memo of another function, under a key it builds itself (%s): that function later answers '
                        'from an entry it never computed' % (fname, other, unparse(site[0].args[1]) if site else '?'),
                        'a successful %s first, then the other function with that key' % fname)
        stores = [c for c in stores if not (c.args and isinstance(c.args[0], ast.Name) and c.args[0].id != own)]
        sub_stores = [n for n in sub_stores if all(not (isinstance(t, ast.Subscript) and t.value.id != own) for t in n.targets)]
        cache = own
        caches.add(cache)
        ctx.sample({'function': fname, 'key': key, 'non_key_params': sorted(nonkey), 'cache': cache, 'store_sites': len(stores) + len(sub_stores)})
        for c in stores + sub_stores:
            n_store += 1
            is_call = isinstance(c, ast.Call)
            if is_call and (len(c.args) < 3 or ast.unparse(c.args[1]) != keyvar):
                ctx.finding('R2', '%s::%s::store under another key' % (UTILS, fname), UTILS, c.lineno,
                            'the cache is filled under %s, not under the lookup key %s' % (unparse(c.args[1]) if len(c.args) > 1 else '?', keyvar))
                continue
            stored = unparse(c.args[2]) if is_call else unparse(c.value)
            deps = set()
            how = {}
            node = c
            p = getattr(c, '_parent', None)
            while p is not None and p is not fn:
                if isinstance(p, (ast.If, ast.While)) and node is not p.test:
                    for nm in names_in(p.test) & nonkey:
                        deps.add(nm)
                        how[nm] = 'enclosing test `%s`' % unparse(p.test)
                if isinstance(p, ast.IfExp) and node is not p.test:
                    for nm in names_in(p.test) & nonkey:
                        deps.add(nm)
                        how[nm] = 'conditional expression on `%s`' % unparse(p.test)
                if isinstance(p, ast.Try) and node in p.body:
                    for st in p.body:
                        if st is node:
                            break
                        for nm in names_in(st) & nonkey:
                            deps.add(nm)
                            how[nm] = 'earlier statement of the try body `%s` (may raise)' % stmt_key(st)
                if isinstance(p, ast.With) and node in p.body:
                    for it in p.items:
                        for nm in names_in(it.context_expr) & nonkey:
                            deps.add(nm)
                            how[nm] = 'enclosing with `%s`' % unparse(it.context_expr)
                    for st in p.body:
                        if st is node:
                            break
                        for nm in names_in(st) & nonkey:
                            deps.add(nm)
                            how[nm] = 'earlier statement `%s`' % stmt_key(st)
                node = p
                p = getattr(p, '_parent', None)
            # the stored value itself
            val_node = c.args[2] if is_call else c.value
            for nm in names_in(val_node) & nonkey:
                deps.add(nm)
                how[nm] = 'the stored value'
            if deps:
                for nm in sorted(deps):
                    ctx.finding('R2', '%s::%s::store of %s depends on %s' % (UTILS, fname, stored, nm), UTILS, c.lineno,
                                '%s stores %s in %s under the key %s, but whether it does depends on the parameter %r (%s), which '
                                'is not part of the key: a later call with another %s gets the stored answer instead of its own' % (
                                    fname, stored, cache, tuple(key), nm, how[nm], nm),
                                'call with %s=False first, then %s=True' % (nm, nm) if nm == 'expect_failure' else nm)
            else:
                ctx.ok('R2', '%s: store of %s depends only on the key %s' % (fname, stored, tuple(key)))
        # hit path: returns the stored value only
        hit_ok = False
        for st in fn.body:
            if isinstance(st, ast.If) and cache in ast.unparse(st.test) and keyvar in ast.unparse(st.test):
                rets = [r for r in st.body if isinstance(r, ast.Return)]
                t = ast.unparse(st.test)
                if rets:
                    rv = ast.unparse(rets[0].value)
                    if t == '%s in %s' % (keyvar, cache) and rv == '%s[%s]' % (cache, keyvar):
                        hit_ok = True
                    if t in ('%s.get(%s, False)' % (cache, keyvar), '%s.get(%s)' % (cache, keyvar)) and rv == 'True':
                        hit_ok = True       # only truthy answers are served from the cache, and they are True
                        # then only True may ever be stored
                        for c in stores:
                            if unparse(c.args[2]) != 'True':
                                hit_ok = False
                if names_in(st.test) & nonkey:
                    hit_ok = False
        if hit_ok:
            ctx.ok('R2', '%s: a hit returns the stored value only' % fname)
        else:
            ctx.finding('R2', '%s::%s::hit path' % (UTILS, fname), UTILS, fn.lineno,
                        'the cache-hit path of %s does not simply return the value stored under the key' % fname)
    ctx.floor('cache store sites', n_store, 2)
    # eviction
    atc = mod.func('_add_to_cache')
    # R4 the eviction uses only what every cache passed in supports: popitem(last=...) exists on OrderedDict only
    cparam = atc.args.args[0].arg
    kw_pop = [c for c in ast.walk(atc) if isinstance(c, ast.Call) and isinstance(c.func, ast.Attribute) and c.func.attr in ('popitem', 'move_to_end')
              and isinstance(c.func.value, ast.Name) and c.func.value.id == cparam and (c.keywords or c.args or c.func.attr == 'move_to_end')]
    cache_inits = {}
    for st in mod.tree.body:
        if isinstance(st, (ast.Assign, ast.AnnAssign)) and st.value is not None:
            for t in (st.targets if isinstance(st, ast.Assign) else [st.target]):
                if isinstance(t, ast.Name):
                    cache_inits[t.id] = st.value
    passed = sorted({c.args[0].id for f_ in mod.functions.values() for c in ast.walk(f_) if isinstance(c, ast.Call) and call_name(c) == '_add_to_cache'
                     and c.args and isinstance(c.args[0], ast.Name)})
    for c in kw_pop:
        for nm in passed:
            init = cache_inits.get(nm)
            ordered = isinstance(init, ast.Call) and call_name(init) == 'OrderedDict'
            if not ordered:
                ctx.finding('R4', '%s::_add_to_cache::%s on %s' % (UTILS, ast.unparse(c), nm), UTILS, c.lineno,
                            '_add_to_cache evicts with `%s`, which only an OrderedDict supports, but the cache %s is created as `%s`: the first '
                            'eviction (the 21st distinct entry) raises TypeError, and from then on every call that would store a result fails'
                            % (ast.unparse(c), nm, ast.unparse(init) if init is not None else '?'), 'the 21st distinct successful validation in one process')
    if kw_pop and not any(f.rule == 'R4' for f in ctx.findings):
        ctx.ok('R4', 'ordered eviction on caches that are all OrderedDicts (%s)' % passed)
    elif not kw_pop:
        ctx.ok('R4', 'eviction uses plain dict operations; caches passed: %s' % passed)
    cparam = atc.args.args[0].arg
    ops = []
    for n in ast.walk(atc):
        if isinstance(n, ast.Call) and isinstance(n.func, ast.Attribute) and ast.unparse(n.func.value) == cparam and n.func.attr in MUT:
            ops.append(n.func.attr)
        if isinstance(n, ast.Assign) and any(isinstance(t, ast.Subscript) and ast.unparse(t.value) == cparam for t in n.targets):
            ops.append('store:' + unparse(n))
    stores = [o for o in ops if o.startswith('store:')]
    removes = [o for o in ops if o in ('pop', 'popitem')]
    others = [o for o in ops if not o.startswith('store:') and o not in ('pop', 'popitem')]
    kp, vp = atc.args.args[1].arg, atc.args.args[2].arg
    if len(stores) == 1 and stores[0] == 'store:%s[%s] = %s' % (cparam, kp, vp) and not others:
        ctx.ok('R2', '_add_to_cache: one store c[key]=value; eviction only removes entries (%s)' % removes)
    else:
        ctx.finding('R2', '%s::_add_to_cache::eviction only removes' % UTILS, UTILS, atc.lineno,
                    '_add_to_cache does %s on the cache; memo transparency needs exactly c[key] = value plus removals' % ops)
    rets = [r for r in ast.walk(atc) if isinstance(r, ast.Return)]
    if not rets or any(ast.unparse(r.value) != vp for r in rets):
        ctx.finding('R2', '%s::_add_to_cache::returns the value' % UTILS, UTILS, atc.lineno, '_add_to_cache does not return the value it stores')

    # ---- R1 effect inventory
    n_fn = 0
    for q in SCOPE:
        if not mod.has_func(q):
            raise AnalysisError('anchor vanished: %s' % q)
        fn = mod.func(q)
        n_fn += 1
        gdecl = set()
        for n in ast.walk(fn):
            if isinstance(n, (ast.Global, ast.Nonlocal)):
                gdecl.update(n.names)
        params = {a.arg for a in fn.args.args}
        bad = []
        for n in ast.walk(fn):
            if isinstance(n, (ast.Assign, ast.AugAssign)):
                tg = n.targets if isinstance(n, ast.Assign) else [n.target]
                for t in tg:
                    if isinstance(t, ast.Name) and t.id in gdecl:
                        bad.append((n, 'rebinds global %s' % t.id))
                    b = t
                    while isinstance(b, (ast.Subscript, ast.Attribute)):
                        b = b.value
                    if isinstance(t, (ast.Subscript, ast.Attribute)) and isinstance(b, ast.Name) and b.id not in params \
                            and (b.id in muts or b.id in gdecl or b.id in ('jsonschema', 'os', 'sys')) and b.id not in caches:
                        bad.append((n, 'writes module state %s' % unparse(t)))
                    if isinstance(t, (ast.Subscript, ast.Attribute)) and isinstance(b, ast.Name) and b.id == 'self':
                        bad.append((n, 'writes instance state %s' % unparse(t)))
            if isinstance(n, ast.Call) and isinstance(n.func, ast.Attribute) and n.func.attr in MUT:
                b = n.func.value
                while isinstance(b, (ast.Subscript, ast.Attribute)):
                    b = b.value
                if isinstance(b, ast.Name) and b.id not in params and (b.id in muts or b.id in gdecl) and b.id not in caches:
                    bad.append((n, 'mutates module state %s' % unparse(n.func.value)))
        for d in fn.args.defaults + fn.args.kw_defaults:
            if isinstance(d, (ast.List, ast.Dict, ast.Set)):
                bad.append((fn, 'mutable default argument'))
        for n, what in bad:
            ctx.finding('R1', '%s::%s::%s' % (UTILS, q, what), UTILS, n.lineno,
                        '%s %s: state other than the two memo dicts is carried between calls' % (q, what))
        if not bad:
            ctx.ok('R1', '%s writes no module state besides the memo dicts' % q)
    # module-level containers written from elsewhere in the file that the helpers read
    ctx.floor('helper functions in the effect inventory', n_fn, 5)

    # ---- R3 $refs
    root = os.path.join(repo.root, 'json')
    files = sorted(glob.glob(os.path.join(root, '**', '*.json'), recursive=True))
    n_ref = 0

    def refs(o):
        if isinstance(o, dict):
            for k, v in o.items():
                if k == '$ref' and isinstance(v, str):
                    yield v
                else:
                    yield from refs(v)
        elif isinstance(o, list):
            for v in o:
                yield from refs(v)
    for f in files:
        try:
            doc = json.load(open(f, encoding='utf-8'))
        except ValueError as e:
            raise AnalysisError('cannot parse %s: %s' % (f, e))
        rel = os.path.relpath(f, repo.root)
        for r in refs(doc):
            n_ref += 1
            if r.startswith('#'):
                ctx.ok('R3', '%s: %s' % (rel, r))
                continue
            if r.startswith('file:///'):
                path = r[8:].split('#')[0]
                if os.path.isfile(os.path.join(repo.root, path)) and path.split('/')[0] == 'json':
                    ctx.ok('R3', '%s: %s' % (rel, r))
                else:
                    ctx.finding('R3', '%s::$ref %s' % (rel, r), rel, None,
                                '$ref %r does not name an existing file under json/: it cannot be resolved offline' % r, r)
                continue
            ctx.finding('R3', '%s::$ref %s' % (rel, r), rel, None,
                        '$ref %r is neither a local pointer nor a file:///json/ reference: resolving it needs the network' % r, r)
    ctx.floor('$ref occurrences checked', n_ref, 15)
    # ---- R6 every bundled schema is structurally a schema: where the vocabulary expects a schema (the values of properties /
    # definitions, items, allOf ...) there is an object or a boolean, and `required` is a list of strings.  A file that is not a schema
    # makes every validation against it (or against a file that refers to it) end in SchemaError, whatever the document and whatever
    # expect_failure says - an outcome the callers of valid_against_schema(..., expect_failure=False) do not expect.
    ctx.rule('R6', 'every file under json/ that is used as a schema is structurally one (schemas where schemas are expected, required = list of strings)')
    MAPS = ('properties', 'patternProperties', 'definitions', '$defs')
    ONE = ('additionalItems', 'additionalProperties', 'not', 'contains', 'propertyNames', 'if', 'then', 'else')
    LISTS = ('allOf', 'anyOf', 'oneOf')

    def walk_schema(sc, ptr, out):
        if isinstance(sc, bool):
            return
        if not isinstance(sc, dict):
            out.append((ptr, 'a %s stands where a schema (an object) is expected' % type(sc).__name__))
            return
        for k in MAPS:
            if k in sc:
                if not isinstance(sc[k], dict):
                    out.append((ptr + '/' + k, '%s is not an object' % k))
                else:
                    for name, sub in sc[k].items():
                        walk_schema(sub, ptr + '/' + k + '/' + name, out)
        for k in ONE:
            if k in sc and not (k in ('additionalItems', 'additionalProperties') and isinstance(sc[k], bool)):
                walk_schema(sc[k], ptr + '/' + k, out)
        for k in LISTS:
            if k in sc:
                if not isinstance(sc[k], list) or not sc[k]:
                    out.append((ptr + '/' + k, '%s is not a non-empty list' % k))
                else:
                    for i_, sub in enumerate(sc[k]):
                        walk_schema(sub, '%s/%s/%d' % (ptr, k, i_), out)
        if 'items' in sc:
            if isinstance(sc['items'], list):
                for i_, sub in enumerate(sc['items']):
                    walk_schema(sub, '%s/items/%d' % (ptr, i_), out)
            else:
                walk_schema(sc['items'], ptr + '/items', out)
        if 'required' in sc and not (isinstance(sc['required'], list) and all(isinstance(x, str) for x in sc['required'])):
            out.append((ptr + '/required', 'required is not a list of property names'))
        if 'type' in sc and not (isinstance(sc['type'], str) or (isinstance(sc['type'], list) and all(isinstance(x, str) for x in sc['type']))):
            out.append((ptr + '/type', 'type is neither a name nor a list of names'))
        if 'enum' in sc and not isinstance(sc['enum'], list):
            out.append((ptr + '/enum', 'enum is not a list'))
    n_schema = 0
    for f in files:
        try:
            doc = json.load(open(f, encoding='utf-8'))
        except ValueError:
            continue
        rel = os.path.relpath(f, repo.root)
        if not (isinstance(doc, dict) and ('$schema' in doc or 'properties' in doc or 'definitions' in doc)) or '/samples/' in rel.replace(os.sep, '/'):
            continue
        n_schema += 1
        probs = []
        walk_schema(doc, '#', probs)
        for ptr, why in probs[:3]:
            ctx.finding('R6', '%s::%s' % (rel, ptr), rel, None,
                        '%s at %s: %s - the file is not a valid schema, so validating any document against it (or against a schema that refers to '
                        'it) raises SchemaError instead of answering' % (rel, ptr, why), ptr)
        if not probs:
            ctx.ok('R6', '%s is structurally a schema' % rel)
    ctx.floor('schema files checked for structure', n_schema, 10)
    ctx.count('schema files', len(files))
