"""C10 — every valid event code can be sorted, measured and classified without error."""
import ast

from .. import rx, regops as ro
from ..core import AnalysisError
from ..e4 import Interp, S, C, T
from ..pats import Pats, find_group
from ..src import call_name, stmt_key, unparse

LEVEL = 'other'
UTILS = 'athlib/utils.py'
ATHLON = 'athlib/athlon_score.py'
AGEGRADER = 'athlib/wma/agegrader.py'
KIND_RULE = {'none-method': 'R1', 'none-subscript': 'R1', 'none-arg': 'R1', 'index-empty': 'R1',
             'conv-domain': 'R2', 'index-missing': 'R3', 'none-arith': 'R4', 'raise': 'R5'}
ORDER_SPEC = ['PAT_TRACK', 'PAT_HURDLES', 'PAT_JUMPS', 'PAT_THROWS', 'PAT_RELAYS']   # then everything else
FIELD_ORDER_SPEC = ['HJ', 'PV', 'LJ', 'TJ', 'SP', 'DT', 'HT', 'JT']


FAMILIES = ['PAT_MULTI', 'PAT_TRACK', 'PAT_ROAD', 'PAT_RELAYS', 'PAT_THROWS', 'PAT_JUMPS', 'PAT_HURDLES',
            'PAT_RACES_FOR_DISTANCE', 'PAT_HIGHSCORING_EVENT', 'PAT_LOWSCORING_EVENT']


def report_interp(ctx, rel, qual, it, known_raise_ok=False):
    n = 0
    P = it.P
    for node, kind, msg, w, detail in it.findings:
        rule = KIND_RULE.get(kind, 'R1')
        if kind == 'raise':
            # one finding per event family that can reach the raise (so a newly unhandled family is a new finding)
            lang = P.EMPTY
            for st, inp in it.raises:
                if st is node:
                    lang = rx.union(lang, inp)
            covered = P.EMPTY
            exc = node.exc.func if isinstance(node.exc, ast.Call) else node.exc
            rkey = 'raise %s' % (ast.unparse(exc) if exc is not None else '')
            for fam in FAMILIES:
                wf = P.wit(rx.inter(lang, P.dfa(fam)))
                covered = rx.union(covered, P.dfa(fam))
                if wf is not None:
                    ctx.finding(rule, '%s::%s::%s::family %s' % (rel, qual, rkey, fam), rel, node.lineno,
                                'an accepted %s code reaches this raise' % fam, {'input': wf})
                    n += 1
            wo = P.wit(rx.diff(lang, covered))
            if wo is not None:
                ctx.finding(rule, '%s::%s::%s' % (rel, qual, rkey), rel, node.lineno,
                            'an accepted code reaches this raise', {'input': wo})
                n += 1
            continue
        missing = (detail or {}).get('missing')
        if kind == 'index-missing' and missing and len(missing) < 12:
            for mval in missing:
                ctx.finding(rule, '%s::%s::%s::missing %s' % (rel, qual, stmt_key(node), mval), rel, node.lineno,
                            '%s: %r is not in the list (an accepted event code reaches this lookup)' % (msg, mval),
                            {'input': (detail.get('inputs') or {}).get(mval, w), 'value': mval})
                n += 1
            continue
        ctx.finding(rule, '%s::%s::%s' % (rel, qual, stmt_key(node)), rel, getattr(node, 'lineno', None),
                    '%s for an accepted event code' % msg, dict(detail or {}, input=w))
        n += 1
    return n


def run(ctx, repo):
    P = Pats(repo)
    EC = P.dfa('PAT_EVENT_CODE')
    utils = repo.module(UTILS)
    consts = {k: v for k, v in P.env.items() if isinstance(v, (list, tuple, dict, set, frozenset)) and k.strip('_').isupper()}
    try:
        for k, v in repo.folded(UTILS)[0].items():
            if k not in consts and isinstance(v, (list, tuple, dict, set, frozenset)) and k.strip('_').isupper() \
                    and all(isinstance(x, (str, int, float)) for x in v):
                consts[k] = v
    except Exception:
        pass
    ctx.explanation = (
        'Totality over the whole accepted language L(PAT_EVENT_CODE): the consumers are interpreted over the '
        'regular domain (abstract string = DFA, abstract match object = the pattern restricted by the path), every '
        'int()/float()/.index()/method-on-None/arithmetic-on-None sink is an inclusion check between regular '
        'languages, reported with a concrete accepted code as witness.  Ordering clauses are checked as data/shape.')
    ctx.rule('R1', 'no method call / subscript / conversion on a match group or result that may be None')
    ctx.rule('R2', 'int()/float() arguments lie inside the conversion\'s domain for every accepted code')
    ctx.rule('R3', 'LIST.index(x): every x that an accepted code can produce is in LIST')
    ctx.rule('R4', 'no arithmetic on an Optional result (relay leg distance)')
    ctx.rule('R5', 'classifiers are exhaustive: no accepted code reaches a raise')
    ctx.rule('R6', 'ordering constants: track < hurdles < jumps < throws < relays < other; FIELD_SORT_ORDER lists '
                   'HJ PV LJ TJ SP DT HT JT in that order; text key = one digit + zero-padded >=5 digits; sorter keys only')
    ctx.rule('R7', 'relay distance = int(number of legs) * leg distance')
    ctx.rule('R11', 'every accepted code reaches a return of its own family category (input languages per return path from the interpreter)')
    ctx.rule('R10', 'the order component of a sort key is never the bare result of a function that can return None')
    ctx.rule('R9', 'case folding of a relay leg does not move it to another unit arm of get_distance (m metres / M miles)')
    ctx.rule('R8', 'the distance component of a sort key is computed from text that still carries the unit letter (K / M) the pattern admits')
    n_sinks = 0

    # ---- E4 on the consumers -------------------------------------------------------------
    targets = [(UTILS, utils, 'discipline_sort_key'), (UTILS, utils, 'get_duration_event_time'),
               (ATHLON, repo.module(ATHLON), 'unit_name'),
               (AGEGRADER, repo.module(AGEGRADER), 'event_code_to_kind')]
    analysed = []
    for rel, mod, fname in targets:
        qual = [q for q in mod.functions if q.split('.')[-1] == fname]
        if not qual:
            raise AnalysisError('anchor vanished: %s in %s' % (fname, rel))
        try:
            if fname in ('event_code_to_kind', 'unit_name'):
                raise AnalysisError('pure first-match classifier: decided on its probed decision list')
            it = Interp(P, mod.tree, fname, EC, consts=consts)
        except AnalysisError as ae_:
            if fname not in ('event_code_to_kind', 'unit_name'):
                raise
            # a pure first-match classifier written in a form the interpreter does not read (a loop over a named table, next(...)):
            # its decision list is reconstructed by probing the folded function, and exhaustiveness is decided on the automata directly
            from .. import fold as _fold2
            fn_c = mod.functions[qual[0]]
            tab_ = None
            try:
                tab_, none_out = _fold2.probe_first_match(fn_c, dict(repo.folded(rel)[0]), None)
            except Exception as e2_:
                tab_ = None
            if not tab_ or not all(isinstance(nm_, str) and nm_ in P.parsed for nm_, _r, _o in tab_):
                # not a list of named patterns: the regular-domain interpreter decides it (or fails closed)
                it = Interp(P, mod.tree, fname, EC, consts=consts)
                nf = report_interp(ctx, rel, qual[0], it)
                analysed.append({'function': '%s::%s' % (rel, qual[0]), 'findings': nf, 'return_paths': len(it.ret), 'raise_paths': len(it.raises)})
                if nf == 0:
                    ctx.ok('R1-R5', '%s::%s total on L(PAT_EVENT_CODE)' % (rel, qual[0]))
                continue
            rest = EC
            for nm_, _r, _o in tab_:
                rest = rx.diff(rest, P.dfa(nm_))
            nf = 0
            if none_out[0] == 'raises':
                covered = P.EMPTY
                rkey = 'raise %s' % (none_out[1] or '')
                for fam in FAMILIES:
                    wf = P.wit(rx.inter(rest, P.dfa(fam)))
                    covered = rx.union(covered, P.dfa(fam))
                    if wf is not None:
                        ctx.finding('R5', '%s::%s::%s::family %s' % (rel, qual[0], rkey, fam), rel, fn_c.lineno,
                                    'an accepted %s code reaches this raise' % fam, {'input': wf})
                        nf += 1
                wo = P.wit(rx.diff(rest, covered))
                if wo is not None:
                    ctx.finding('R5', '%s::%s::%s' % (rel, qual[0], rkey), rel, fn_c.lineno, 'an accepted code reaches this raise', {'input': wo})
                    nf += 1
            analysed.append({'function': '%s::%s' % (rel, qual[0]), 'decision list (probed)': [nm_ for nm_, _r, _o in tab_], 'findings': nf,
                             'when nothing matches': list(none_out)})
            if nf == 0:
                ctx.ok('R1-R5', '%s::%s total on L(PAT_EVENT_CODE) (decision list probed)' % (rel, qual[0]))
            continue
        nf = report_interp(ctx, rel, qual[0], it)
        sinks = sum(1 for n in ast.walk(mod.functions[qual[0]]) if isinstance(n, ast.Call) and (
            call_name(n) in ('int', 'float', 'index', 'group', 'upper', 'endswith', 'startswith', 'strip')))
        n_sinks += sinks
        analysed.append({'function': '%s::%s' % (rel, qual[0]), 'sinks': sinks, 'findings': nf,
                         'return_paths': len(it.ret), 'raise_paths': len(it.raises)})
        if nf == 0:
            ctx.ok('R1-R5', '%s::%s total on L(PAT_EVENT_CODE)' % (rel, qual[0]),
                   {'return_paths': len(it.ret), 'sinks': sinks})
        # R11 every accepted code is keyed in the category of its family: the input language that reaches each return (from the
        # interpreter) must not contain a code whose first family, in the order throws / hurdles / jumps / relays / track, has another category
        if fname == 'discipline_sort_key':
            fn_ = mod.functions[qual[0]]
            arms_ = arm_returns(fn_)
            cat_of = {}
            for pat, r, st in arms_:
                if pat and isinstance(r.value, ast.Tuple) and r.value.elts and isinstance(r.value.elts[0], ast.Constant):
                    cat_of.setdefault(pat, r.value.elts[0].value)
            order_ = [p_ for p_ in ('PAT_THROWS', 'PAT_HURDLES', 'PAT_JUMPS', 'PAT_RELAYS', 'PAT_TRACK') if p_ in cat_of]
            expected = {}
            seen_l = None
            for p_ in order_:
                L = rx.inter(EC, P.dfa(p_))
                own = L if seen_l is None else rx.diff(L, seen_l)
                expected[p_] = own
                seen_l = L if seen_l is None else rx.union(seen_l, L)
            # the subject of the searches: the parameter itself, or a case-folded copy of it (then membership is decided on the image)
            param_ = fn_.args.args[0].arg
            subj = set()
            for n in ast.walk(fn_):
                if isinstance(n, ast.Call) and isinstance(n.func, ast.Attribute) and n.func.attr in ('search', 'match') and n.args \
                        and isinstance(n.func.value, ast.Name) and n.func.value.id in cat_of:
                    subj.add(ast.unparse(n.args[0]))
            tr = 'id'
            if subj == {param_}:
                tr = 'id'
            elif len(subj) == 1:
                nm = list(subj)[0]
                defs_ = [a.value for a in ast.walk(fn_) if isinstance(a, ast.Assign) and any(isinstance(t, ast.Name) and t.id == nm for t in a.targets)]
                if len(defs_) == 1 and isinstance(defs_[0], ast.Call) and isinstance(defs_[0].func, ast.Attribute) and defs_[0].func.attr in ('upper', 'lower') \
                        and ast.unparse(defs_[0].func.value) == param_:
                    tr = defs_[0].func.attr
                elif len(defs_) == 1 and (ast.unparse(defs_[0]) == param_ or (
                        isinstance(defs_[0], ast.Call) and isinstance(defs_[0].func, ast.Attribute) and defs_[0].func.attr == 'strip'
                        and not defs_[0].args and ast.unparse(defs_[0].func.value) == param_)):
                    tr = 'id'          # an alias, or the code without outer blanks (accepted codes of the domain have none)
                else:
                    raise AnalysisError('discipline_sort_key: the patterns are searched in %s, whose relation to the code is not modelled' % nm)
            else:
                raise AnalysisError('discipline_sort_key: the patterns are searched in several subjects %s' % sorted(subj))

            def pre(L):
                if tr == 'id':
                    return L
                mp_ = P.UM_total() if tr == 'upper' else {b: (t if t is not None else b) for b, t in P.LM.items()}
                return ro.relabel_inverse(L, mp_)
            seen_r = None
            n_r = 0
            for p_ in order_:
                R_ = rx.inter(EC, pre(P.dfa(p_)))
                reach = R_ if seen_r is None else rx.diff(R_, seen_r)
                seen_r = R_ if seen_r is None else rx.union(seen_r, R_)
                n_r += 1
                w = P.wit(rx.diff(expected[p_], reach))
                if w is not None:
                    ctx.finding('R11', '%s::discipline_sort_key::%s codes that do not reach their arm' % (UTILS, p_), UTILS, fn_.lineno,
                                'the accepted code %r belongs to %s (category %s) but %s: it is keyed in another category, away from its family and '
                                'without its distance' % (w, p_, cat_of[p_], 'its %s-cased copy, which is what the patterns are applied to, does not '
                                                          'match %s' % (tr, p_) if tr != 'id' else 'an earlier arm takes it'), w)
            ctx.count('families whose codes were followed to their arm', n_r)
            if not any(f.rule == 'R11' for f in ctx.findings):
                ctx.ok('R11', 'every accepted code of the %d families reaches the arm of its own category (subject: %s)' % (n_r, tr))
        # every return of discipline_sort_key is a 3-tuple
        if fname == 'discipline_sort_key':
            check_sort_key_shape(ctx, P, utils, mod.functions[qual[0]], consts)
            check_case_folding(ctx, P, utils)
    # field codes must find their own entry: the "unknown, sorts last" fallback of the lookup helper is for non-codes
    if utils.has_func('_field_sort_order'):
        FIELD = rx.inter(EC, rx.union(P.dfa('PAT_THROWS'), P.dfa('PAT_JUMPS')))
        it = Interp(P, utils.tree, '_field_sort_order', FIELD, consts=consts)
        nf = report_interp(ctx, UTILS, '_field_sort_order', it)
        for v, inp, st in it.ret:
            # the entry that was found: LIST.index(key), or TABLE[key] (the same lookup through a precomputed table)
            is_index = (isinstance(st.value, ast.Call) and call_name(st.value) == 'index') or isinstance(st.value, ast.Subscript)
            if not is_index:
                w = P.wit(inp)
                if w is not None:
                    ctx.finding('R6', '%s::_field_sort_order::fallback index for an accepted field code' % UTILS, UTILS, st.lineno,
                                'the accepted field code %r finds none of its prefixes in FIELD_SORT_ORDER and gets the "unknown, last" index '
                                '(%s): field events are then not in the conventional HJ PV LJ TJ SP DT HT JT order' % (w, unparse(st)), w)
        if not any(f.construct.endswith('fallback index for an accepted field code') for f in ctx.findings):
            ctx.ok('R6', 'every accepted throws / jumps code finds a listed prefix in FIELD_SORT_ORDER')
    ctx.note('consumers interpreted over L(PAT_EVENT_CODE)', analysed)
    ctx.floor('conversion/lookup/None sinks in the interpreted consumers', n_sinks, 8)

    # ---- the None / '' arm of the sorter key
    dsk = utils.func('discipline_sort_key')
    first = [s for s in dsk.body if not (isinstance(s, ast.Expr) and isinstance(s.value, ast.Constant))][0]
    if isinstance(first, ast.If) and isinstance(first.test, ast.UnaryOp) and isinstance(first.test.op, ast.Not) \
            and isinstance(first.test.operand, ast.Name) and first.test.operand.id == dsk.args.args[0].arg \
            and isinstance(first.body[-1], ast.Return):
        ctx.ok('R1', 'discipline_sort_key: missing discipline (None / empty) returns before any pattern is applied')
    else:
        ctx.finding('R1', '%s::discipline_sort_key::missing-discipline guard' % UTILS, UTILS, first.lineno,
                    'the guard `if not discipline: return ...` no longer precedes the pattern matching; '
                    'sort_by_discipline passes None for things without the attribute', 'None')

    check_text_key(ctx, utils)
    check_sorter(ctx, utils)
    check_get_distance(ctx, P, utils)

    # ---- FIELD_SORT_ORDER data
    fso = consts.get('FIELD_SORT_ORDER')
    if not isinstance(fso, list):
        raise AnalysisError('FIELD_SORT_ORDER not foldable')
    idx = [fso.index(x) if x in fso else None for x in FIELD_ORDER_SPEC]
    if None in idx or idx != sorted(idx):
        ctx.finding('R6', 'athlib/codes.py::FIELD_SORT_ORDER::conventional order', 'athlib/codes.py', None,
                    'FIELD_SORT_ORDER does not list %s in this order (positions %s)' % (' '.join(FIELD_ORDER_SPEC), idx))
    else:
        ctx.ok('R6', 'FIELD_SORT_ORDER orders HJ PV LJ TJ SP DT HT JT', idx)
    if len(set(fso)) != len(fso):
        dup = sorted({x for x in fso if fso.count(x) > 1})
        ctx.info('FIELD_SORT_ORDER has repeated entries %s (index() takes the first)' % dup)


def arm_returns(fn):
    """[(pattern name or None, Return node)] for `m = PAT.search(x); if m: ... return (...)` arms and the fall-through"""
    out = []
    body = fn.body
    for i, st in enumerate(body):
        if isinstance(st, ast.If) and isinstance(st.test, ast.Name) and i > 0 and isinstance(body[i - 1], ast.Assign) \
                and isinstance(body[i - 1].value, ast.Call) and isinstance(body[i - 1].value.func, ast.Attribute) \
                and body[i - 1].value.func.attr in ('search', 'match') and isinstance(body[i - 1].value.func.value, ast.Name):
            pat = body[i - 1].value.func.value.id
            rets = [n for n in ast.walk(st) if isinstance(n, ast.Return)]
            for r in rets:
                out.append((pat, r, st))
    if isinstance(body[-1], ast.Return):
        out.append((None, body[-1], None))
    return out


def check_case_folding(ctx, P, utils):
    """R9: the relay arm of get_distance upper-cases the leg before it asks get_distance again; the unit chain is case sensitive
    ('m' metres, 'M' miles).  For every leg suffix PAT_RELAYS admits, the unit arm of the suffix and of its upper-cased form agree."""
    import re._parser as _sp
    from ..xval import enumerate_lang
    gd = utils.func('get_distance')
    # does the relay arm fold the case of the leg?
    folds = [c for c in ast.walk(gd) if isinstance(c, ast.Call) and isinstance(c.func, ast.Attribute) and c.func.attr in ('upper', 'lower')
             and isinstance(c.func.value, ast.Call) and call_name(c.func.value) == 'group']
    if not folds:
        ctx.info('get_distance: the relay leg is not case-folded; R9 has nothing to check')
        return
    fold_name = folds[0].func.attr
    # the unit chain: if/elif tests  `remains[.lower()] in (...)`  /  `not remains`
    arms = []
    for n in ast.walk(gd):
        if isinstance(n, ast.If):
            parts = n.test.values if isinstance(n.test, ast.BoolOp) and isinstance(n.test.op, ast.Or) else [n.test]
            sets = []
            for p_ in parts:
                if isinstance(p_, ast.Compare) and len(p_.ops) == 1 and isinstance(p_.ops[0], ast.In) and isinstance(p_.comparators[0], (ast.Tuple, ast.List, ast.Set)) \
                        and all(isinstance(x, ast.Constant) and isinstance(x.value, str) for x in p_.comparators[0].elts):
                    l = p_.left
                    tr = 'id'
                    if isinstance(l, ast.Call) and isinstance(l.func, ast.Attribute) and l.func.attr in ('lower', 'upper'):
                        tr = l.func.attr
                        l = l.func.value
                    if isinstance(l, ast.Name):
                        sets.append((l.id, tr, {x.value for x in p_.comparators[0].elts}))
            rets = [r for r in n.body if isinstance(r, ast.Return)]
            if sets and rets and len({s_[0] for s_ in sets}) == 1:
                arms.append((sets, unparse(rets[0].value)))
    arms = [a for a in arms if any('qty' in a[1] or '*' in a[1] or 'int' in a[1] for _ in [0])]
    folded_gd = None
    if len(arms) < 3:
        # the units are not an if / elif chain (lookup tables ...): the unit of a suffix is what the folded get_distance makes of one
        # unit of it - get_distance('1' + suffix) - a decision table over the finite set of suffixes the pattern admits
        from .. import fold as _fold
        try:
            uenv_, ufolder_ = utils.repo.folded(utils.rel)
            gd_fc_ = uenv_.get('get_distance')
        except Exception:
            gd_fc_ = None
        if not isinstance(gd_fc_, _fold.FuncConst):
            raise AnalysisError('get_distance: unit chain not recognised (%d arms) and the function does not fold' % len(arms))

        def folded_gd(code):
            try:
                return 'one unit = %r m' % (_fold.Folder(importer=ufolder_.importer).call(gd_fc_, [code], {}),)
            except _fold._Raise as ex_:
                return 'raises %s' % ex_.name
            except Exception as e_:
                return 'raises %s' % type(e_).__name__

    def arm_of(sfx):
        if folded_gd is not None:
            return folded_gd('1' + sfx)
        if sfx == '':
            return 'metres (no suffix)'
        for sets, ret in arms:
            for _nm, tr, vals in sets:
                x = sfx.lower() if tr == 'lower' else sfx.upper() if tr == 'upper' else sfx
                if x in vals:
                    return ret
        return None
    g2 = find_group(list(P.need('PAT_RELAYS')), 2)
    if g2 is None:
        raise AnalysisError('PAT_RELAYS has no group 2')
    legs = rx.inter(P.exact(g2), P.exact(list(_sp.parse(r'1(?:\.5)?[A-Za-z]*'))))
    words = enumerate_lang(P, legs, limit=400, maxlen=10)
    n = 0
    for w in words:
        sfx = w.lstrip('0123456789.')
        if not w[:1].isdigit():
            continue
        n += 1
        a, b = arm_of(sfx), arm_of(getattr(sfx, fold_name)())
        if a != b and a is not None:
            ctx.finding('R9', '%s::get_distance::relay leg suffix %r changes unit when %s-cased' % (UTILS, sfx, fold_name), UTILS, folds[0].lineno,
                        'PAT_RELAYS admits the leg %r, which get_distance reads as `%s`; the relay arm %s-cases the leg first and %r is read as `%s`: '
                        'the distance of the relay is computed in another unit' % (w, a, fold_name, getattr(w, fold_name)(), b), '4x' + w)
    ctx.count('relay leg spellings compared before / after case folding', n)
    ctx.floor('relay leg spellings compared', n, 4)
    if not any(f.rule == 'R9' for f in ctx.findings):
        ctx.ok('R9', 'every leg suffix PAT_RELAYS admits keeps its unit arm under %s() (%d spellings)' % (fold_name, n))


def check_sort_key_shape(ctx, P, utils, fn, consts):
    arms = arm_returns(fn)
    cats = {}
    for pat, r, st in arms:
        v = r.value
        if not (isinstance(v, ast.Tuple) and len(v.elts) == 3):
            ctx.finding('R6', '%s::discipline_sort_key::return shape %s' % (UTILS, pat), UTILS, r.lineno,
                        'a sort key must be a (category, order, text) triple: %s' % unparse(r))
            continue
        c = v.elts[0]
        if not (isinstance(c, ast.Constant) and isinstance(c.value, int)):
            raise AnalysisError('discipline_sort_key: category of the %s arm is not an integer constant' % pat)
        cats.setdefault(pat, set()).add(c.value)
        # second component: for field arms derived from FIELD_SORT_ORDER, for timed arms from the match / distance
        second = v.elts[1]
        if pat in ('PAT_TRACK', 'PAT_HURDLES', 'PAT_RELAYS') and isinstance(second, ast.Constant):
            ctx.finding('R6', '%s::discipline_sort_key::%s order component' % (UTILS, pat), UTILS, r.lineno,
                        'the %s arm orders by a constant instead of the distance' % pat)
    # R10: the order component is never None: a name that reaches it must not be bound to the bare result of a function that can return
    # None (the `or 0` idiom, a None test, or an int conversion is what makes it a number); text_discipline_sort_key formats it with %d
    from ..cfg import reaching_defs
    for pat, r, st in arms:
        if not (isinstance(r.value, ast.Tuple) and len(r.value.elts) == 3):
            continue
        sec = r.value.elts[1]
        cands = [sec] if isinstance(sec, ast.Name) else []
        for nm in cands:
            # a None test of the name between the definition and the return (if x is None: x = 0) repairs it
            none_tests = [t for t in ast.walk(fn) if isinstance(t, ast.If) and any(
                (isinstance(c_, ast.Compare) and isinstance(c_.left, ast.Name) and c_.left.id == nm.id and isinstance(c_.ops[0], (ast.Is, ast.IsNot, ast.Eq))
                 and isinstance(c_.comparators[0], ast.Constant) and c_.comparators[0].value is None)
                or (isinstance(c_, ast.UnaryOp) and isinstance(c_.op, ast.Not) and isinstance(c_.operand, ast.Name) and c_.operand.id == nm.id)
                for c_ in ast.walk(t.test))]
            for d in reaching_defs(fn, nm.id, nm):
                if any(d.lineno < t.lineno <= r.lineno for t in none_tests if d is not None):
                    continue
                if isinstance(d, ast.Assign) and isinstance(d.value, ast.Call) and isinstance(d.value.func, ast.Name) \
                        and utils.has_func(d.value.func.id) and Interp.may_return_none(utils.func(d.value.func.id)):
                    ctx.finding('R10', '%s::discipline_sort_key::%s order component may be None' % (UTILS, pat or 'fall-through'), UTILS, d.lineno,
                                '`%s` binds the order component to the bare result of %s, which returns None for some codes: the key then holds None, '
                                'text_discipline_sort_key (%%05d) raises TypeError and sorting mixed lists compares None with int' % (
                                    unparse(d), d.value.func.id), 'SC')
    # R8: where the arm's pattern admits a distance written with a unit (digit followed by K, k or M - the letters with a multiplier; a lower-case m is metres: 4x1.5K), the order component must be
    # computed from text that still carries the unit: the groups (or the whole code) that the component reads, closed over the arm's
    # local definitions, must be able to hold a digit followed by the unit letter
    has_unit = P.dfa_of_pattern(r'[\s\S]*[0-9][KkM][\s\S]*')
    param = fn.args.args[0].arg
    for pat, r, st in arms:
        if pat not in ('PAT_TRACK', 'PAT_HURDLES', 'PAT_RELAYS') or not isinstance(r.value, ast.Tuple) or len(r.value.elts) != 3:
            continue
        whole = P.dfa(pat)
        unit_words = rx.inter(whole, has_unit)
        wit = P.wit(unit_words)
        if wit is None:
            continue
        # definitions of local names inside the arm
        defs = {}
        for n in ast.walk(st):
            if isinstance(n, ast.Assign) and len(n.targets) == 1 and isinstance(n.targets[0], ast.Name):
                defs.setdefault(n.targets[0].id, []).append(n.value)
        seen, work, exprs = set(), [r.value.elts[1]], []
        while work:
            e = work.pop()
            exprs.append(e)
            for x in ast.walk(e):
                if isinstance(x, ast.Name) and x.id in defs and x.id not in seen:
                    seen.add(x.id)
                    work += defs[x.id]
        carries = False
        read = []
        for e in exprs:
            for x in ast.walk(e):
                if isinstance(x, ast.Name) and x.id == param:
                    carries = True
                    read.append(param)
                if isinstance(x, ast.Call) and call_name(x) == 'group' and isinstance(x.func, ast.Attribute):
                    gid = x.args[0].value if x.args and isinstance(x.args[0], ast.Constant) else 0
                    read.append('group(%r)' % gid)
                    if gid == 0:
                        carries = True
                        continue
                    if isinstance(gid, str):
                        gid = P.group_index(pat, gid)
                    g = find_group(list(P.need(pat)), gid)
                    if g is not None and not P.is_empty(rx.inter(P.exact(g), has_unit)):
                        carries = True
        if carries:
            ctx.ok('R8', '%s arm: the order component reads %s, which can carry the unit of %r' % (pat, sorted(set(read)), wit))
        else:
            ctx.finding('R8', '%s::discipline_sort_key::%s distance drops the unit' % (UTILS, pat), UTILS, r.lineno,
                        'the %s arm computes its order component from %s, which cannot hold the unit letter of a distance such as %r: the '
                        'kilometre / mile multiplier is lost, so %r sorts as if the figure were metres' % (
                            pat, sorted(set(read)) or 'no part of the code', wit, wit), wit)
    missing = [p for p in ORDER_SPEC if p not in cats]
    if missing:
        raise AnalysisError('discipline_sort_key: no dispatch arm found for %s' % missing)
    other = cats.get(None)
    if not other:
        raise AnalysisError('discipline_sort_key: no fall-through return found')
    seq = [cats[p] for p in ORDER_SPEC] + [other]
    ok = all(len(s) == 1 for s in seq)
    vals = [min(s) for s in seq]
    if ok and all(vals[i] < vals[i + 1] for i in range(len(vals) - 1)):
        ctx.ok('R6', 'category constants ascend track<hurdles<jumps<throws<relays<other', vals)
    else:
        ctx.finding('R6', '%s::discipline_sort_key::category order' % UTILS, UTILS, fn.lineno,
                    'category constants %s do not place track < hurdles < jumps < throws < relays < everything else'
                    % dict(zip(ORDER_SPEC + ['other'], [sorted(s) for s in seq])))
    allc = set().union(*seq)
    # the first guard (missing discipline) must sort last as well
    for n in ast.walk(fn):
        if isinstance(n, ast.Return) and isinstance(n.value, ast.Tuple) and n.value.elts and isinstance(n.value.elts[0], ast.Constant):
            allc.add(n.value.elts[0].value)
    if not all(isinstance(c, int) and 0 <= c <= 9 for c in allc):
        ctx.finding('R6', '%s::discipline_sort_key::one-digit categories' % UTILS, UTILS, fn.lineno,
                    'categories %s are not single digits: the text key would not sort like the tuple key' % sorted(allc))
    else:
        ctx.ok('R6', 'all categories are single digits', sorted(allc))


def check_text_key(ctx, utils):
    fn = utils.func('text_discipline_sort_key')
    rets = [n for n in ast.walk(fn) if isinstance(n, ast.Return)]
    ok = False
    for r in rets:
        v = r.value
        if isinstance(v, ast.BinOp) and isinstance(v.op, ast.Mod) and isinstance(v.left, ast.Constant) \
                and isinstance(v.left.value, str) and isinstance(v.right, ast.Call) \
                and call_name(v.right) == 'discipline_sort_key':
            import re
            specs = re.findall(r'%(0?)(\d*)([ds])', v.left.value)
            if len(specs) == 3 and specs[0] == ('', '', 'd') and specs[1][0] == '0' and specs[1][1].isdigit() \
                    and int(specs[1][1]) >= 5 and specs[1][2] == 'd' and specs[2][2] == 's':
                # separators must sort below digits so that prefixes compare like the tuple
                ok = True
            else:
                ctx.finding('R6', '%s::text_discipline_sort_key::format' % UTILS, UTILS, r.lineno,
                            'text key format %r is not <digit><sep><zero-padded >=5 digits><sep><text>: below 100 km '
                            'it must sort exactly like the tuple key' % v.left.value, v.left.value)
                return
    if not ok:
        # second form:  a, b, c = discipline_sort_key(x); return FORMAT % (a, b, c)
        unp = [n for n in fn.body if isinstance(n, ast.Assign) and isinstance(n.targets[0], ast.Tuple) and isinstance(n.value, ast.Call)
               and call_name(n.value) == 'discipline_sort_key' and all(isinstance(x, ast.Name) for x in n.targets[0].elts)]
        for r in rets:
            v = r.value
            if unp and isinstance(v, ast.BinOp) and isinstance(v.op, ast.Mod) and isinstance(v.left, ast.Constant) and isinstance(v.right, ast.Tuple) \
                    and len(v.right.elts) == 3:
                import re
                names3 = [x.id for x in unp[0].targets[0].elts]
                specs = re.findall(r'%(0?)(\d*)([ds])', v.left.value)
                fmt_ok = len(specs) == 3 and specs[0] == ('', '', 'd') and specs[1][0] == '0' and specs[1][1].isdigit() \
                    and int(specs[1][1]) >= 5 and specs[1][2] == 'd' and specs[2][2] == 's'
                changed = [i for i, (a, nm) in enumerate(zip(v.right.elts, names3)) if not (isinstance(a, ast.Name) and a.id == nm)]
                if not fmt_ok:
                    ctx.finding('R6', '%s::text_discipline_sort_key::format' % UTILS, UTILS, r.lineno,
                                'text key format %r is not <digit><sep><zero-padded >=5 digits><sep><text>' % v.left.value, v.left.value)
                    return
                if changed:
                    ctx.finding('R6', '%s::text_discipline_sort_key::component %d altered' % (UTILS, changed[0] + 1), UTILS, r.lineno,
                                'the text key prints `%s` instead of component %d of the tuple key unchanged: characters are replaced, and the '
                                'replacement sorts differently from the original (a blank sorts before digits and letters, `_` after them), so the '
                                'text key no longer orders codes like the tuple key' % (unparse(v.right.elts[changed[0]]), changed[0] + 1),
                                "'400H 84cm' vs '400H33'")
                    return
                ok = True
    if ok:
        ctx.ok('R6', 'text key format: one digit, zero-padded width>=5, text; the three components are printed unchanged')
    else:
        raise AnalysisError('text_discipline_sort_key: return is not "<format>" % discipline_sort_key(...)')


def check_sorter(ctx, utils):
    fn = utils.func('sort_by_discipline')
    calls = [n for n in ast.walk(fn) if isinstance(n, ast.Call) and call_name(n) == 'discipline_sort_key']
    if not calls:
        ctx.finding('R6', '%s::sort_by_discipline::uses discipline_sort_key' % UTILS, UTILS, fn.lineno,
                    'the sorter no longer derives its key from discipline_sort_key')
        return
    sorts = [n for n in ast.walk(fn) if isinstance(n, ast.Call) and (
        (isinstance(n.func, ast.Attribute) and n.func.attr == 'sort') or call_name(n) == 'sorted')]
    if not sorts:
        raise AnalysisError('sort_by_discipline: no sort call found')
    for s in sorts:
        key = [k.value for k in s.keywords if k.arg == 'key']
        good = False
        if key and isinstance(key[0], ast.Lambda):
            b = key[0].body
            # lambda x: x[0]   (the priority component only)
            if isinstance(b, ast.Subscript) and isinstance(b.slice, ast.Constant) and b.slice.value == 0:
                good = True
            if isinstance(b, ast.Call) and call_name(b) == 'discipline_sort_key':
                good = True
        if key and isinstance(key[0], ast.Name) and key[0].id == 'discipline_sort_key':
            good = True
        if key and isinstance(key[0], ast.Name):
            # a local key function: good when everything it returns is the discipline key
            local = [d for d in ast.walk(fn) if isinstance(d, ast.FunctionDef) and d is not fn and d.name == key[0].id]
            if local:
                rets_ = [r for r in ast.walk(local[0]) if isinstance(r, ast.Return)]
                if rets_ and all(isinstance(r.value, ast.Call) and call_name(r.value) == 'discipline_sort_key' for r in rets_):
                    good = True
        if good:
            ctx.ok('R6', 'sort_by_discipline sorts on the key only: %s' % unparse(s))
        else:
            ctx.finding('R6', '%s::sort_by_discipline::sort key' % UTILS, UTILS, s.lineno,
                        'the sort compares more than the discipline key (%s): equal keys would compare the things '
                        'themselves (dicts are not orderable) and the order of ties would change' % unparse(s))
        if any(k.arg == 'reverse' for k in s.keywords):
            ctx.finding('R6', '%s::sort_by_discipline::reverse' % UTILS, UTILS, s.lineno, 'sort is reversed')


def check_get_distance(ctx, P, utils):
    """R4' and R7 on get_distance's relay arm"""
    fn = utils.func('get_distance')
    A = P.A
    # locate the relay arm: `m = PAT_RELAYS.match(x)` ; `if m:` body
    arm = None
    for i, st in enumerate(fn.body):
        if isinstance(st, ast.If) and isinstance(st.test, ast.Name) and i > 0 and isinstance(fn.body[i - 1], ast.Assign) \
                and 'PAT_RELAYS' in ast.unparse(fn.body[i - 1].value):
            arm = st
    if arm is None:
        raise AnalysisError('get_distance: relay arm not found')
    # the multiplication legs * leg distance
    mults = [n for n in ast.walk(arm) if isinstance(n, ast.BinOp) and isinstance(n.op, ast.Mult)]
    rec_calls = [n for n in ast.walk(arm) if isinstance(n, ast.Call) and call_name(n) == 'get_distance']
    if not rec_calls:
        ctx.finding('R7', '%s::get_distance::relay arm computes legs * leg distance' % UTILS, UTILS, arm.lineno,
                    'the relay arm no longer derives the distance from the leg distance')
        return
    # R7: some return in the arm is int(group(1)) * <leg>
    r7 = False
    leg_names = set()
    for n in ast.walk(arm):
        if isinstance(n, ast.Assign) and isinstance(n.value, ast.Call) and call_name(n.value) == 'get_distance' \
                and isinstance(n.targets[0], ast.Name):
            leg_names.add(n.targets[0].id)
    for m in mults:
        sides = [m.left, m.right]
        has_count = any(isinstance(s, ast.Call) and call_name(s) == 'int' and 'group(1)' in ast.unparse(s) for s in sides)
        has_leg = any((isinstance(s, ast.Call) and call_name(s) == 'get_distance') or
                      (isinstance(s, ast.Name) and s.id in leg_names) for s in sides)
        if has_count and has_leg:
            r7 = True
    if r7:
        ctx.ok('R7', 'relay distance is int(group 1) * leg distance')
    else:
        ctx.finding('R7', '%s::get_distance::relay arm computes legs * leg distance' % UTILS, UTILS, arm.lineno,
                    'no expression int(m.group(1)) * <leg distance> in the relay arm')
    # R4': is the recursive result None-guarded before the multiplication?
    unguarded = []
    for m in mults:
        for s in (m.left, m.right):
            if isinstance(s, ast.Call) and call_name(s) == 'get_distance':
                unguarded.append(m)
            if isinstance(s, ast.Name) and s.id in leg_names:
                guarded = False
                for n in ast.walk(arm):
                    if isinstance(n, ast.If):
                        t = ast.unparse(n.test)
                        if t in ('%s is None' % s.id, 'not %s' % s.id) and isinstance(n.body[-1], ast.Return) \
                                and n.lineno < m.lineno:
                            guarded = True
                        if t in ('%s is not None' % s.id, s.id) and any(x is m for b in n.body for x in ast.walk(b)):
                            guarded = True
                if not guarded:
                    unguarded.append(m)
    if not unguarded:
        ctx.ok('R4', 'get_distance: the leg distance is None-guarded before the multiplication')
        return
    # producer/consumer coverage: which leg spellings can reach the multiplication, and can get_distance(leg) be None?
    g2 = find_group(list(P.need('PAT_RELAYS')), 2)
    if g2 is None:
        raise AnalysisError('PAT_RELAYS has no group 2')
    G2 = P.upper(P.exact(g2))
    # string constants compared with the upper-cased leg that return before the multiplication
    handled = set()
    for n in ast.walk(arm):
        if isinstance(n, ast.If) and n.lineno < unguarded[0].lineno and isinstance(n.body[-1], ast.Return):
            t = n.test
            if isinstance(t, ast.Compare) and len(t.ops) == 1:
                r = t.comparators[0]
                if isinstance(t.ops[0], ast.Eq) and isinstance(r, ast.Constant) and isinstance(r.value, str):
                    handled.add(r.value)
                if isinstance(t.ops[0], ast.In) and isinstance(r, (ast.List, ast.Tuple, ast.Set)):
                    handled |= {x.value for x in r.elts if isinstance(x, ast.Constant)}
    starts_digit = ro.concat(ro.sigma_star_set(A, P.DIG, at_least_one=True), P.ANY)
    names = rx.diff(rx.diff(G2, starts_digit), P.finite(sorted(handled)))
    it = Interp.__new__(Interp)
    it.A = A
    it.P = P
    unhandled = Interp.enumerate_some(it, names, limit=20)
    for nm in unhandled:
        ctx.finding('R4', '%s::get_distance::%s::leg %s' % (UTILS, stmt_key(unguarded[0]), nm), UTILS, unguarded[0].lineno,
                    'relay leg %r reaches the multiplication but get_distance(%r) is None: TypeError' % (nm, nm),
                    {'input': '4x' + nm})
    if not unhandled:
        ctx.ok('R4', 'every named relay leg returns before the multiplication', sorted(handled))
    # numeric legs: suffix after the number must be handled by the unit chain
    numeric = rx.inter(G2, starts_digit)
    num = ro.concat(ro.sigma_star_set(A, P.DIG, at_least_one=True),
                    rx.union(P.EPS, ro.concat(P.const('.'), ro.sigma_star_set(A, P.DIG))))
    suffixes = set()
    for sfx in ['', 'H', 'M', 'K', 'W', 'Y', 'SC', 'KM', 'MI', 'MT']:
        if not P.is_empty(rx.inter(numeric, ro.concat(num, P.const(sfx)))):
            suffixes.add(sfx)
    # anything else?
    known = P.EMPTY
    for sfx in suffixes:
        known = rx.union(known, ro.concat(num, P.const(sfx)))
    w = P.wit(rx.diff(numeric, known))
    if w is not None:
        raise AnalysisError('get_distance: numeric relay leg %r has a suffix outside the modelled set' % w)
    handled_sfx = unit_chain_suffixes(fn)
    for sfx in sorted(suffixes):
        if sfx in handled_sfx['exact'] or sfx.lower() in handled_sfx['lower']:
            ctx.ok('R4', 'numeric relay leg suffix %r is handled by the unit chain' % sfx)
        else:
            ctx.finding('R4', '%s::get_distance::%s::suffix %s' % (UTILS, stmt_key(unguarded[0]), sfx), UTILS,
                        unguarded[0].lineno, 'a numeric relay leg with suffix %r gets no distance (None) and is then '
                        'multiplied' % sfx, {'input': '4x100' + sfx})


def unit_chain_suffixes(fn):
    exact, lower = set(), set()
    for n in ast.walk(fn):
        if isinstance(n, ast.If):
            for t in ([n.test] if not isinstance(n.test, ast.BoolOp) else n.test.values):
                if isinstance(t, ast.UnaryOp) and isinstance(t.op, ast.Not) and isinstance(t.operand, ast.Name) \
                        and t.operand.id == 'remains':
                    exact.add('')
                if isinstance(t, ast.Compare) and len(t.ops) == 1 and isinstance(t.ops[0], (ast.In, ast.Eq)):
                    r = t.comparators[0]
                    vals = [x.value for x in r.elts if isinstance(x, ast.Constant)] if isinstance(r, (ast.Tuple, ast.List, ast.Set)) \
                        else ([r.value] if isinstance(r, ast.Constant) else [])
                    l = ast.unparse(t.left)
                    if l == 'remains':
                        exact |= set(vals)
                    elif l == 'remains.lower()':
                        lower |= set(vals)
                    elif l == 'remains.upper()':
                        lower |= {v.lower() for v in vals}
    return {'exact': exact, 'lower': lower}
