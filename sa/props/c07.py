"""C07 — event-code normalisation yields one canonical, valid, stable spelling (set-level, whole language)."""
import ast
import re._constants as sc

from .. import rx, regops as ro
from ..core import AnalysisError
from ..normint import NormInterp
from ..pats import Pats, find_group, top_alternatives
from ..src import call_name, stmt_key, unparse

LEVEL = 'other'
UTILS = 'athlib/utils.py'
CODES = 'athlib/codes.py'


class Slots:
    """what normalize_event_code does, read from its AST"""


def read_gnorms(utils):
    v = utils.module_assign('_gnorms')
    gn = {}
    if isinstance(v, ast.Call) and call_name(v) == 'dict' and not v.args:
        for kw in v.keywords:
            if kw.arg is None or not isinstance(kw.value, ast.Name):
                raise AnalysisError('_gnorms entry is not name=function')
            gn[kw.arg] = kw.value.id
    elif isinstance(v, ast.Dict):
        for k, val in zip(v.keys, v.values):
            if not (isinstance(k, ast.Constant) and isinstance(val, ast.Name)):
                raise AnalysisError('_gnorms entry is not "name": function')
            gn[k.value] = val.id
    else:
        # not written as a literal: the table as it stands after import, by folding the module-level code that builds it
        from ..fold import FuncConst
        try:
            val = utils.repo.folded(utils.rel)[0].get('_gnorms')
        except Exception:
            val = None
        if not isinstance(val, dict) or not val or not all(isinstance(k, str) and isinstance(f, FuncConst) for k, f in val.items()):
            raise AnalysisError('anchor vanished: _gnorms is not a dict(...) / {...} literal and does not fold to a table group -> function')
        gn = {k: f.node.name for k, f in val.items()}
    return gn


def removal_idiom(P, expr, var):
    """set of blocks deleted by the final expression applied to `var`, or None if not recognised.
    returns (blocks, description)"""
    A = P.A
    if isinstance(expr, ast.Name) and expr.id == var:
        return frozenset(), 'nothing'
    # X.replace(' ', '') chains
    if isinstance(expr, ast.Call) and isinstance(expr.func, ast.Attribute) and expr.func.attr == 'replace' \
            and len(expr.args) == 2 and all(isinstance(a, ast.Constant) for a in expr.args) \
            and isinstance(expr.args[0].value, str) and len(expr.args[0].value) == 1 and expr.args[1].value == '':
        inner = removal_idiom(P, expr.func.value, var)
        if inner is None:
            return None
        return inner[0] | {A.block_of(expr.args[0].value)}, inner[1] + '+replace(%r)' % expr.args[0].value
    # ''.join(X.split())
    if isinstance(expr, ast.Call) and isinstance(expr.func, ast.Attribute) and expr.func.attr == 'join' \
            and isinstance(expr.func.value, ast.Constant) and expr.func.value.value == '' and len(expr.args) == 1:
        a = expr.args[0]
        if isinstance(a, ast.Call) and isinstance(a.func, ast.Attribute) and a.func.attr == 'split' and not a.args:
            inner = removal_idiom(P, a.func.value, var)
            if inner is None:
                return None
            return inner[0] | P.WS, inner[1] + '+join(split())'
    # re.sub(r'\s+', '', X)
    if isinstance(expr, ast.Call) and ast.unparse(expr.func) == 're.sub' and len(expr.args) == 3 \
            and isinstance(expr.args[0], ast.Constant) and expr.args[0].value in (r'\s+', r'\s', r'\s*') \
            and isinstance(expr.args[1], ast.Constant) and expr.args[1].value == '':
        inner = removal_idiom(P, expr.args[2], var)
        if inner is None:
            return None
        return inner[0] | P.WS, inner[1] + '+re.sub(\\s)'
    return None


def read_slots(P, utils):
    fn = utils.func('normalize_event_code')
    if not fn.args.args:
        raise AnalysisError('normalize_event_code takes no argument')
    var = fn.args.args[0].arg
    s = Slots()
    s.fn = fn
    s.var = var
    # R5: first effective statements: optional strip, match, refusal guard
    body = [st for st in fn.body if not (isinstance(st, ast.Expr) and isinstance(st.value, ast.Constant))]
    s.strips = False
    s.match_var = None
    s.guard = None
    s.guard_index = None
    for i, st in enumerate(body):
        if isinstance(st, ast.Assign) and ast.unparse(st) == '%s = %s.strip()' % (var, var) and s.match_var is None:
            s.strips = True
        elif isinstance(st, ast.Assign) and isinstance(st.value, ast.Call) and isinstance(st.value.func, ast.Attribute) \
                and st.value.func.attr == 'match' and ast.unparse(st.value.func.value) == 'PAT_EVENT_CODE' \
                and ast.unparse(st.value.args[0]) == var and s.match_var is None:
            s.match_var = st.targets[0].id
            s.match_index = i
        elif isinstance(st, ast.If) and s.match_var and s.guard is None:
            t = ast.unparse(st.test)
            if t in ('not %s' % s.match_var, '%s is None' % s.match_var) and isinstance(st.body[-1], ast.Raise):
                s.guard = st
                s.guard_index = i
    # relay arm and generic arm
    s.relay_if = None
    for st in body:
        if isinstance(st, ast.If) and isinstance(st.test, ast.Name):
            # find the assignment that defines the tested name from PAT_RELAYS.match
            for st2 in body:
                if isinstance(st2, ast.Assign) and isinstance(st2.targets[0], ast.Name) and st2.targets[0].id == st.test.id \
                        and 'PAT_RELAYS.match' in ast.unparse(st2.value):
                    s.relay_if = st
                    s.relay_var = st.test.id
    s.ret = [st for st in body if isinstance(st, ast.Return)]
    s.early_returns = [n for n in ast.walk(fn) if isinstance(n, ast.Return) and n is not body[-1]]
    if not s.ret or s.ret[-1] is not body[-1]:
        raise AnalysisError('normalize_event_code: expected a final return')
    s.ret = [s.ret[-1]]
    rexpr = s.ret[0].value
    # `x = <expr>; return x` (also chained `x = CACHE[k] = <expr>`): resolve the returned name one step
    if isinstance(rexpr, ast.Name) and len(body) >= 2 and isinstance(body[-2], ast.Assign) \
            and any(isinstance(t, ast.Name) and t.id == rexpr.id for t in body[-2].targets):
        rexpr = body[-2].value
    rem = removal_idiom(P, rexpr, var)
    if rem is None:
        raise AnalysisError('normalize_event_code: final expression %s is not a recognised whitespace-removal idiom'
                            % unparse(s.ret[0].value))
    s.removed, s.removed_desc = rem
    return s


class OutNFA(rx.NFA):
    """pattern automaton emitting the normalised text of *stripped* inputs: outside replaced groups upper-case and
    delete `removed`; group k in N -> N_k (or the blank capture kept, treated like the rest).  verbatim=True keeps
    listed groups exactly as captured (used for the skeleton closure).  Edges that consume an input character carry
    its kind (whitespace / other / inside a replaced group) so that a 3-state monitor can restrict the inputs to
    those without leading or trailing whitespace (normalize_event_code strips before matching)."""

    def __init__(self, P, names, N, removed, verbatim=False):
        super().__init__(P.A)
        self.P = P
        self.names = names
        self.N = N
        self.removed = removed
        self.verbatim = verbatim
        self.xedges = []        # (src, emitted blocks or None, dst, kind 'n'|'w')
        self.group_states = set()

    def build1(self, node, s):
        op, av = node
        P = self.P
        if op in (sc.LITERAL, sc.NOT_LITERAL, sc.IN, sc.ANY):
            t = self.new()
            blocks = self.alpha.blocks_of_set(rx.charset_of(node))
            out_n, out_w = set(), set()
            silent_w = False
            for b in blocks:
                isw = b in P.WS
                if b in self.removed:
                    if isw:
                        silent_w = True
                    else:
                        self.xedges.append((s, None, t, 'n'))
                else:
                    ub = P.UM[b]
                    if ub is None:
                        raise AnalysisError('upper() not letter-to-letter on %s' % self.alpha.names[b])
                    (out_w if isw else out_n).add(ub)
            if out_n:
                self.xedges.append((s, frozenset(out_n), t, 'n'))
            if out_w:
                self.xedges.append((s, frozenset(out_w), t, 'w'))
            if silent_w:
                self.xedges.append((s, None, t, 'w'))
            return t
        if op is sc.SUBPATTERN and av[0] is not None and self.names.get(av[0]) in self.N:
            k = self.names[av[0]]
            t = self.new()
            before = len(self.trans)
            if self.verbatim:
                langs = (self.N[k],)
            else:
                GL = P.exact(av[3])
                keep = rx.inter(GL, ro.sigma_star_set(P.A, P.WS))    # blank / empty capture: not replaced
                langs = (ro.relabel(self.N[k], None, delete=self.removed),
                         ro.relabel(keep, P.UM_total(), delete=self.removed))
            for lang in langs:
                st, accs = ro.nfa_from_dfa_into(self, lang)
                self.eps[s].append(st)
                for a in accs:
                    self.eps[a].append(t)
            self.group_states.update(range(before, len(self.trans)))
            return t
        return super().build1(node, s)

    def language(self, final):
        """DFA of the emitted strings over inputs without leading/trailing whitespace"""
        A = self.alpha
        e = ro.ENFA(A)
        n = len(self.eps)
        for _ in range(3 * n):
            e.new()
        idx = lambda q, m: m * n + q
        for q in range(n):
            for m in range(3):
                for t in self.eps[q] + self.bol[q] + self.eol[q] + self.eos[q]:
                    e.edge(idx(q, m), None, idx(t, m))
                for blocks, t in self.trans[q]:
                    # only the embedded group automata use self.trans: permissive monitor (state 1)
                    for b in blocks:
                        e.edge(idx(q, m), b, idx(t, 1))
        for (q, blocks, t, kind) in self.xedges:
            for m in range(3):
                if kind == 'w' and m == 0:
                    continue            # leading whitespace: not a stripped input
                m2 = 1 if kind == 'n' else 2
                if blocks is None:
                    e.edge(idx(q, m), None, idx(t, m2))
                else:
                    for b in blocks:
                        e.edge(idx(q, m), b, idx(t, m2))
        e.starts.add(idx(self.start, 0))
        e.accepts.add(idx(final, 0))
        e.accepts.add(idx(final, 1))
        return e.determinize()


def out_lang(P, nodes, names, N, removed, verbatim=False):
    n = OutNFA(P, names, N, removed, verbatim)
    f = n.build(list(nodes), n.start)
    return n.language(f)


def run(ctx, repo):
    P = Pats(repo)
    A = P.A
    utils = repo.module(UTILS)
    EC = P.need('PAT_EVENT_CODE')
    D_EC = P.dfa('PAT_EVENT_CODE')
    gidx = dict(EC.state.groupdict)
    names = {v: k for k, v in gidx.items()}
    gn = read_gnorms(utils)
    fns = {q: f for q, f in utils.functions.items() if '.' not in q}
    ni = NormInterp(P, fns)
    ctx.explanation = (
        'The normalisers _norm_* are interpreted over the regular domain (exact rational transductions), the image '
        '"Out" of the whole accepted language under normalize_event_code is built as an automaton from the pattern\'s '
        'syntax tree (listed groups replaced by their normalised languages N_k, the rest upper-cased with the '
        'characters the final expression deletes removed), and closure / whitespace-freedom / variant coverage / '
        'numeral preservation are language inclusions with shortest witnesses.  Set-level necessary conditions of '
        'the pointwise property.')
    ctx.rule('R1a', 'per listed group k: N_k ⊆ L(group k) (the re-inserted text still matches)')
    ctx.rule('R1b', 'skeleton closure: upper-casing / deletion image with groups kept as they are ⊆ L(PAT_EVENT_CODE)')
    ctx.rule('R1c', 'combined closure: Out ⊆ L(PAT_EVENT_CODE)')
    ctx.rule('R2', 'no whitespace in any normalised code')
    ctx.rule('R3', 'every named group that admits unit-suffix / trailing-zero variants has a normaliser; every _gnorms '
                   'key is a group of the pattern; replaced groups do not nest')
    ctx.rule('R4', 'relay arm: count group digits, constant separator, leg upper-cased; result accepted')
    ctx.rule('R5', 'refusal: `not m -> raise ValueError` precedes all other work')
    ctx.rule('R6', 'numeral preservation (set level): every numeral with a dotted-zero spelling in a group is the '
                   'image of such a spelling')
    ctx.rule('R7', '(thorough) per top-level alternative: Out(A_i) stays inside every family that contains A_i')
    ctx.rule('R8', '(thorough) set-level idempotence f_k(N_k) = N_k')
    ctx.rule('R10', 'every return of normalize_event_code is the whitespace-removal expression or a format of whitespace-free match groups')
    ctx.rule('R9', 'memo transparency: a cache in the normalisation path is keyed by the plain argument, complete, and stores what it returns')
    # ---- R10 every return of normalize_event_code is whitespace-free by construction: it returns the whitespace-removal expression
    # itself, or a format of match groups whose languages hold no whitespace (decided before the structural model is read, so that a
    # restructured function with a path around the removal is a finding and not an analysis error)
    nec = utils.func('normalize_event_code')
    WSL = ro.contains_any(A, P.WS)

    def removes_ws(e):
        if isinstance(e, ast.Call) and isinstance(e.func, ast.Attribute) and e.func.attr == 'join' and isinstance(e.func.value, ast.Constant) \
                and e.func.value.value == '' and e.args and isinstance(e.args[0], ast.Call) and isinstance(e.args[0].func, ast.Attribute) \
                and e.args[0].func.attr == 'split' and not e.args[0].args:
            return True
        if isinstance(e, ast.Call) and call_name(e) == 'sub' and e.args and isinstance(e.args[0], ast.Constant) and e.args[0].value in ('\\s', '\\s+') \
                and len(e.args) >= 2 and isinstance(e.args[1], ast.Constant) and e.args[1].value == '':
            return True
        return False

    def group_format_ws_free(e):
        if not (isinstance(e, ast.BinOp) and isinstance(e.op, ast.Mod) and isinstance(e.left, ast.Constant) and isinstance(e.left.value, str)):
            return False
        if any(ch.isspace() for ch in e.left.value):
            return False
        args = e.right.elts if isinstance(e.right, ast.Tuple) else [e.right]
        for a in args:
            core = a.func.value if isinstance(a, ast.Call) and isinstance(a.func, ast.Attribute) and a.func.attr in ('upper', 'lower', 'strip') else a
            if not (isinstance(core, ast.Call) and call_name(core) == 'group' and core.args and isinstance(core.args[0], ast.Constant)
                    and isinstance(core.func.value, ast.Name)):
                return False
            # which pattern produced the match object?
            mvar = core.func.value.id
            pat = None
            for n in ast.walk(nec):
                if isinstance(n, ast.Assign) and isinstance(n.targets[0], ast.Name) and n.targets[0].id == mvar and isinstance(n.value, ast.Call) \
                        and isinstance(n.value.func, ast.Attribute) and n.value.func.attr in ('match', 'search') and isinstance(n.value.func.value, ast.Name):
                    pat = n.value.func.value.id
            if pat is None or pat not in P.parsed:
                return False
            gid = core.args[0].value
            if isinstance(gid, str):
                gid = P.group_index(pat, gid)
            g = find_group(list(P.need(pat)), gid)
            if g is None or not P.is_empty(rx.inter(P.exact(g), WSL)):
                return False
        return True
    n_ret = 0
    for r in [x for x in ast.walk(nec) if isinstance(x, ast.Return)]:
        n_ret += 1
        v = r.value
        def ok_value(x):
            if isinstance(x, ast.Name):
                from ..cfg import reaching_defs as _rd
                ds_ = _rd(nec, x.id, x)
                return bool(ds_) and all(d is not None and isinstance(d, ast.Assign) and (removes_ws(d.value) or group_format_ws_free(d.value)) for d in ds_)
            return removes_ws(x) or group_format_ws_free(x)
        if v is not None and isinstance(v, ast.Subscript) and isinstance(v.value, ast.Name):
            # a memo hit: what the function stores in that container is what it returns elsewhere (transparency is rule HIST / R9)
            stores_ = [a for a in ast.walk(nec) if isinstance(a, ast.Assign) and any(
                isinstance(t, ast.Subscript) and isinstance(t.value, ast.Name) and t.value.id == v.value.id for t in a.targets)]
            if stores_ and all(ok_value(a.value) for a in stores_):
                ctx.ok('R10', 'return at line %d is a memo hit of whitespace-free values' % r.lineno)
                continue
        if v is not None and isinstance(v, ast.Name):
            from ..cfg import reaching_defs
            ds = reaching_defs(nec, v.id, v)
            okv = bool(ds) and all(d is not None and isinstance(d, ast.Assign) and (removes_ws(d.value) or group_format_ws_free(d.value)) for d in ds)
        else:
            okv = v is not None and (removes_ws(v) or group_format_ws_free(v))
        if okv:
            ctx.ok('R10', 'return at line %d is whitespace-free by construction' % r.lineno)
        else:
            ctx.finding('R10', '%s::normalize_event_code::a return bypasses the whitespace removal' % UTILS, UTILS, r.lineno,
                        '`%s` returns a value that has not passed through the whitespace removal: the patterns admit blanks inside a code '
                        "('400 H', '3000\\tsc'), so such a code comes back with its blanks and spellings that differ only in spacing do not meet"
                        % unparse(r), '400 H')
    ctx.floor('returns of normalize_event_code examined', n_ret, 1)
    S = read_slots(P, utils)
    ctx.note('removal idiom of the final expression', S.removed_desc)
    ctx.note('_gnorms', gn)
    ctx.floor('_gnorms entries', len(gn), 8)

    # ---- R5 refusal guard
    if S.match_var is None:
        raise AnalysisError('normalize_event_code: PAT_EVENT_CODE.match(%s) not found' % S.var)
    if S.guard is None:
        ctx.finding('R5', '%s::normalize_event_code::refusal guard' % UTILS, UTILS, S.fn.lineno,
                    'no `if not %s: raise ValueError` guard after the match: non-codes are not refused' % S.match_var)
    else:
        exc = S.guard.body[-1].exc
        exname = call_name(exc) if isinstance(exc, ast.Call) else (exc.id if isinstance(exc, ast.Name) else None)
        if exname != 'ValueError':
            ctx.finding('R5', '%s::normalize_event_code::refusal raises %s' % (UTILS, exname), UTILS, S.guard.lineno,
                        'non-codes are refused with %s, not ValueError' % exname)
        elif S.guard_index != S.match_index + 1:
            ctx.finding('R5', '%s::normalize_event_code::refusal guard position' % UTILS, UTILS, S.guard.lineno,
                        'work is done between the match and the refusal guard')
        else:
            ctx.ok('R5', 'refusal guard directly after PAT_EVENT_CODE.match')
    if not S.strips:
        ctx.info('normalize_event_code does not strip its argument first')
    # a return before the refusal guard answers without validating; the one accepted case is the hit of a transparent memo
    # (plain key, filled only after the guard has passed)
    from ..memo import analyse as memo_analyse, find_memos, container_text
    from ..props.c19 import module_mutables
    mm0 = set(module_mutables(utils))
    res0, memos0 = memo_analyse(S.fn, mm0)
    clean_memos = set()
    if not res0:
        for cont, key, store, value in memos0:
            if S.guard is not None and store.lineno > S.guard.lineno:
                clean_memos.add((cont, ast.unparse(key)))
    for r in S.early_returns:
        if S.guard is None or r.lineno < S.guard.lineno:
            v = r.value
            if isinstance(v, ast.Subscript) and (container_text(v), ast.unparse(v.slice)) in clean_memos:
                ctx.ok('R5', 'memo hit before the guard: key is the plain argument and entries are stored only after validation')
                continue
            ctx.finding('R5', '%s::normalize_event_code::return before the refusal guard' % UTILS, UTILS, r.lineno,
                        'normalize_event_code can return (%s) before the `not m -> raise ValueError` guard has run: a string that is '
                        'not an event code can be answered instead of refused' % unparse(r))
    from ..memo import analyse as memo_analyse
    from ..props.c19 import module_mutables
    mm = set(module_mutables(utils))
    for fname in ['normalize_event_code', 'check_event_code'] + sorted(set(gn.values())) + ['_norm_tzeroes']:
        if fname in fns:
            res, memos = memo_analyse(fns[fname], mm)
            for rule, msg, node in res:
                ctx.finding('R9', '%s::%s::memo %s' % (UTILS, fname, rule), UTILS, node.lineno, msg, 'a valid code first, then a near miss differing only in what the key drops')

    # ---- normalisers: N_k
    N = {}
    rows = []
    for g, fname in gn.items():
        if g not in gidx:
            ctx.finding('R3', '%s::_gnorms::%s is not a group' % (UTILS, g), UTILS, None,
                        '_gnorms key %r is not a named group of PAT_EVENT_CODE: its normaliser is never applied' % g)
            continue
        sub = find_group(list(EC), gidx[g])
        GL = P.exact(sub)
        inp = rx.diff(ro.strip_both(GL, P.WS), P.EPS)        # s = v.strip(); if not s: continue
        N[g] = ni.apply(fname, inp)
        ok, w = P.subset(N[g], GL)
        rows.append({'group': g, 'normaliser': fname, 'in': P.wit(inp), 'out': P.wit(N[g])})
        if ok:
            ctx.ok('R1a', 'N_%s ⊆ L(group %s) via %s' % (g, g, fname))
        else:
            ctx.finding('R1a', '%s::%s::group %s' % (UTILS, fname, g), UTILS, fns[fname].lineno,
                        '%s can turn a capture of group %s into %r, which the group does not admit: the normalised '
                        'code is no longer the same event (or no event code at all)' % (fname, g, w), w)
    for fname, node, msg, wl in ni.problems:
        ctx.finding('R1a', '%s::%s::%s' % (UTILS, fname, stmt_key(node)), UTILS, node.lineno, msg)
    ctx.note('normalisers interpreted', rows)
    ctx.floor('normalisers interpreted', len(N), 8)

    # nesting of replaced groups
    def nested(nodes, inside):
        for op, av in nodes:
            if op is sc.SUBPATTERN:
                nm = names.get(av[0])
                if nm in N and inside:
                    ctx.finding('R3', '%s::_gnorms::%s nested in %s' % (UTILS, nm, inside), UTILS, None,
                                'replaced group %s lies inside replaced group %s: splicing by span is unsound' % (nm, inside))
                nested(av[3], nm if nm in N else inside)
            elif op is sc.BRANCH:
                for a in av[1]:
                    nested(a, inside)
            elif op in (sc.MAX_REPEAT, sc.MIN_REPEAT):
                nested(av[2], inside)
    nested(list(EC), None)

    # ---- top-level alternatives, shadowing (A8)
    alts = top_alternatives(EC)
    if alts is None:
        raise AnalysisError('PAT_EVENT_CODE is not of the form ^(?:a|b|...)$')
    D_REL = P.dfa('PAT_RELAYS')
    seen = P.EMPTY
    kept, dead, relay_alts = [], [], []
    for i, alt in enumerate(alts):
        La = P.exact(alt)
        if P.is_empty(rx.diff(La, seen)):
            dead.append(i)
        else:
            if P.is_empty(rx.diff(La, D_REL)):
                relay_alts.append(i)       # goes through the relay arm
            else:
                kept.append((i, alt, La))
        seen = rx.union(seen, La)
    ctx.note('top-level alternatives', {'total': len(alts), 'fully shadowed': len(dead), 'relay': len(relay_alts)})
    # A8 pre-check: partially shadowed alternatives must not carry listed groups on the overlap
    seen = P.EMPTY
    for i, alt in enumerate(alts):
        La = P.exact(alt)
        ov = rx.inter(La, seen)
        if i not in dead and not P.is_empty(ov):
            def has_listed(nodes):
                for op, av in nodes:
                    if op is sc.SUBPATTERN:
                        if names.get(av[0]) in N or has_listed(av[3]):
                            return True
                    elif op is sc.BRANCH:
                        if any(has_listed(a) for a in av[1]):
                            return True
                    elif op in (sc.MAX_REPEAT, sc.MIN_REPEAT):
                        if has_listed(av[2]):
                            return True
                return False
            if has_listed(alt):
                # exact only if the earlier alternatives transform the overlap identically; we cannot tell
                ctx.info('alternative %d overlaps earlier ones and carries a normalised group; Out is an '
                         'over-approximation there (witness %r)' % (i, P.wit(ov)))
        seen = rx.union(seen, La)

    # ---- relay arm (R4)
    out_relay = P.EMPTY
    if S.relay_if is not None:
        asg = [st for st in S.relay_if.body if isinstance(st, ast.Assign)]
        fmt = None
        for st in asg:
            v = st.value
            if isinstance(v, ast.BinOp) and isinstance(v.op, ast.Mod) and isinstance(v.left, ast.Constant) and isinstance(v.right, ast.Tuple):
                fmt = (v.left.value, [ast.unparse(x) for x in v.right.elts])
        if fmt is None or fmt[0].count('%s') != 2 or len(fmt[1]) != 2:
            raise AnalysisError('normalize_event_code: relay arm is not c = "<fmt>" % (group(1), group(2)...)')
        pre, sep, post = fmt[0].partition('%s')[0], fmt[0].split('%s')[1], fmt[0].split('%s')[2]
        rv = S.relay_var
        parts = []
        for txt in fmt[1]:
            up = txt.endswith('.upper()')
            core = txt[:-len('.upper()')] if up else txt
            if core == '%s.group(1)' % rv:
                g = 1
            elif core == '%s.group(2)' % rv:
                g = 2
            else:
                raise AnalysisError('relay arm component %s not understood' % txt)
            GL = P.exact(find_group(list(P.need('PAT_RELAYS')), g))
            parts.append(P.upper(GL) if up else GL)
        out_relay = ro.concat(ro.concat(ro.concat(ro.concat(P.const(pre), parts[0]), P.const(sep)), parts[1]), P.const(post))
        out_relay = ro.relabel(out_relay, None, delete=S.removed)
        ok, w = P.subset(out_relay, D_EC)
        if ok:
            ctx.ok('R4', 'relay arm output ⊆ L(PAT_EVENT_CODE); format %r' % fmt[0])
        else:
            ctx.finding('R4', '%s::normalize_event_code::relay arm closure' % UTILS, UTILS, S.relay_if.lineno,
                        'the relay arm can produce %r, which is not an event code' % w, w)
        # canonical: no case variation left in the leg, separator constant
        lower_letters = ro.contains_any(A, frozenset(b for b in range(A.n) if A.sizes[b] == 1 and A.reps[b].islower()
                                                     and A.reps[b] not in sep))
        w = P.wit(rx.inter(out_relay, lower_letters))
        if w is None:
            ctx.ok('R4', 'relay arm leaves no lower-case letter besides the separator')
        else:
            ctx.finding('R4', '%s::normalize_event_code::relay arm case' % UTILS, UTILS, S.relay_if.lineno,
                        'the relay arm keeps letter case (%r): spellings differing only in case do not meet' % w, w)
        generic_body = S.relay_if.orelse
    else:
        relay_alts_l = [alts[i] for i in relay_alts]
        kept += [(i, alts[i], P.exact(alts[i])) for i in relay_alts]
        generic_body = S.fn.body
    # generic arm must upper-case
    uppers = [n for st in generic_body for n in ast.walk(st)
              if isinstance(n, ast.Assign) and ast.unparse(n) == '%s = %s.upper()' % (S.var, S.var)]
    if not uppers:
        ctx.finding('R1b', '%s::normalize_event_code::upper-casing' % UTILS, UTILS, S.fn.lineno,
                    'the generic arm no longer upper-cases the code: case variants do not normalise to one spelling')
        return

    # ---- Out (R1b, R1c, R2)
    branch = [(sc.BRANCH, (None, [a for _, a, _ in kept]))]
    GLs = {g: P.exact(find_group(list(EC), gidx[g])) for g in N}
    OUT_skel = out_lang(P, branch, names, GLs, S.removed, verbatim=True)
    ok, w = P.subset(OUT_skel, D_EC)
    if ok:
        ctx.ok('R1b', 'skeleton (upper/deletion, groups kept) ⊆ L(PAT_EVENT_CODE)', {'dfa_states': OUT_skel.nstates})
    else:
        ctx.finding('R1b', '%s::PAT_EVENT_CODE::not closed under upper-casing / space removal' % CODES, CODES, None,
                    'upper-casing and removing %s from an accepted code can give %r, which is not accepted '
                    '(a character class admits a letter whose other case it does not)' % (S.removed_desc, w), w)
    OUT = rx.union(out_lang(P, branch, names, N, S.removed), out_relay)
    ctx.note('Out DFA states', OUT.nstates)
    ok, w = P.subset(OUT, D_EC)
    if ok:
        ctx.ok('R1c', 'Out ⊆ L(PAT_EVENT_CODE)', {'dfa_states': OUT.nstates})
    else:
        # attribute to a root cause if R1a/R1b already explain it
        already = any(f.rule in ('R1a', 'R1b', 'R4') for f in ctx.findings)
        if not already:
            ctx.finding('R1c', '%s::normalize_event_code::combined closure' % UTILS, UTILS, S.fn.lineno,
                        'normalisation can produce %r, which is not an accepted event code' % w, w)
        else:
            ctx.info('R1c: Out ⊄ L (e.g. %r), explained by the R1a/R1b/R4 findings' % w)
    # Out is built over stripped inputs (normalize_event_code strips before matching)
    inner = ro.contains_any(A, P.WS)
    w = P.wit(rx.inter(OUT, inner))
    if w is None:
        ctx.ok('R2', 'no normalised code contains whitespace (removed: %s)' % S.removed_desc)
    else:
        inside = sorted({'U+%04X' % ord(A.reps[b]) for b in P.WS - S.removed
                         if not P.is_empty(rx.inter(rx.inter(OUT, inner), ro.contains_any(A, frozenset([b]))))})
        ctx.finding('R2', '%s::normalize_event_code::whitespace survives' % UTILS, UTILS, S.ret[0].lineno,
                    'the pattern admits whitespace inside a code that the final expression (%s) does not remove; '
                    'e.g. normalised %r still contains it (classes: %s%s)' % (
                        S.removed_desc, w, ', '.join(inside[:6]), ', ...' if len(inside) > 6 else ''), w)

    # ---- R3 variant coverage over named groups
    n_groups = 0
    for g, gid in sorted(gidx.items()):
        sub = find_group(list(EC), gid)
        if sub is None:
            continue
        n_groups += 1
        if g in N:
            continue
        # group language with nested normalised groups already normalised, generic treatment applied
        Gp = out_lang(P, sub, names, N, S.removed)
        variants = variant_witness(P, Gp)
        if variants:
            ctx.finding('R3', '%s::_gnorms::no normaliser for group %s' % (UTILS, g), UTILS, None,
                        'group %s admits spelling variants that upper-casing and space removal do not unify (%s and %s) '
                        'but has no entry in _gnorms' % (g, variants[0], variants[1]), list(variants))
        else:
            ctx.ok('R3', 'group %s admits no unit-suffix / trailing-zero variants after generic treatment' % g)
    ctx.floor('named groups examined', n_groups, 15)

    # ---- R6 numeral preservation
    nd = frozenset(b for b in range(A.n) if b not in P.DIG and b != A.block_of('.'))
    ZERO = frozenset([A.block_of('0')])
    I = ro.sigma_star_set(A, P.DIG, at_least_one=True)
    SFX = ro.sigma_star_set(A, nd)
    for g, fname in gn.items():
        if g not in N:
            continue
        GL = P.exact(find_group(list(EC), gidx[g]))
        inp = rx.diff(ro.strip_both(GL, P.WS), P.EPS)
        dotted = rx.inter(inp, ro.concat(ro.concat(I, ro.concat(P.const('.'), ro.sigma_star_set(A, ZERO))), SFX))
        if P.is_empty(dotted):
            continue
        plain_r = insertable(P, inp, nd)       # i+s with i.0+s also in inp
        img_plain = ni.apply(fname, plain_r) if not P.is_empty(plain_r) else P.EMPTY
        img_dotted = ni.apply(fname, dotted)
        ok, w = P.subset(img_plain, img_dotted)
        if ok:
            ctx.ok('R6', '%s on group %s: every plain numeral is the image of its dotted-zero spellings' % (fname, g))
        else:
            ctx.finding('R6', '%s::%s::numeral preservation on group %s' % (UTILS, fname, g), UTILS, fns[fname].lineno,
                        'in group %s the spelling %r has dotted-zero variants (e.g. with ".0") none of which normalises '
                        'to it: trailing-zero variants do not meet, the integer part is altered' % (g, w), w)

    if ctx.tier == 'thorough':
        thorough(ctx, P, S, N, ni, gn, kept, names, out_relay, gidx, EC)


def insertable(P, inp, nd):
    """{i s : i in DIG+, s over non-digit-non-dot, and i '.0' s in inp}"""
    A = P.A
    d = inp
    e = ro.ENFA(A)
    N = len(d.trans)
    for _ in range(3 * N):
        e.new()
    # phase 0: before any digit, phase 1: after >=1 digit, phase 2: suffix
    dot, zero = A.block_of('.'), A.block_of('0')
    e.starts.add(d.start)
    for s, row in enumerate(d.trans):
        for b, t in row.items():
            if b in P.DIG:
                e.edge(s, b, N + t)
                e.edge(N + s, b, N + t)
            if b in nd:
                e.edge(2 * N + s, b, 2 * N + t)
        t2 = d.trans[d.trans[s][dot]][zero]
        e.edge(N + s, None, 2 * N + t2)
        if d.accept[s]:
            e.accepts.add(2 * N + s)
    return e.determinize()


def variant_witness(P, G):
    """a pair of distinct strings of G that differ only by an optional unit letter or a trailing zero after a point"""
    A = P.A
    for sfx in ('G', 'K', 'KG', 'M', 'CM'):
        withs = rx.inter(G, ro.concat(P.ANY, P.const(sfx)))
        if P.is_empty(withs):
            continue
        both = rx.inter(G, ro.drop_last(withs, len(sfx)))
        w = P.wit(rx.diff(both, P.EPS))
        if w is not None and rx.accepts(G, w + sfx):
            return (w, w + sfx)
    # x and x0 where the zero ends the fraction digits of a numeral; x and x'.' where the point ends a numeral
    nd = frozenset(b for b in range(A.n) if b not in P.DIG and b != A.block_of('.'))
    rest = rx.union(P.EPS, ro.concat(ro.sigma_star_set(A, nd, at_least_one=True) and rx.inter(ro.sigma_star_set(A, nd, at_least_one=True), ro.all_of_length(A, 1)), P.ANY))
    digs = ro.sigma_star_set(A, P.DIG)
    head = ro.concat(ro.concat(P.ANY, P.const('.')), digs)
    for tailc, in (('0',), ('.',)):
        if tailc == '0':
            lang = ro.concat(ro.concat(head, P.const('0')), rest)
        else:
            lang = ro.concat(ro.concat(ro.concat(P.ANY, rx.inter(ro.sigma_star_set(A, P.DIG, at_least_one=True), ro.all_of_length(A, 1))), P.const('.')), rest)
        # enumerate a few candidates: G-members of this shape whose variant (that character removed) is also in G
        cand = rx.inter(G, lang)
        from ..e4 import Interp
        it = Interp.__new__(Interp)
        it.A = A
        it.P = P
        for w in Interp.enumerate_some(it, cand, limit=30):
            # position of the removable character: last '0' (or '.') that is followed by a non-digit/non-dot or the end
            for i in range(len(w) - 1, -1, -1):
                if w[i] == tailc and (i + 1 == len(w) or not (w[i + 1].isdecimal() or w[i + 1] == '.')):
                    if tailc == '0' and '.' not in w[:i]:
                        continue
                    if tailc == '0':
                        j = i - 1
                        while j >= 0 and w[j].isdecimal():
                            j -= 1
                        if j < 0 or w[j] != '.':
                            continue
                    v = w[:i] + w[i + 1:]
                    if v != w and rx.accepts(G, v):
                        return (v, w)
    return None


def thorough(ctx, P, S, N, ni, gn, kept, names, out_relay, gidx, EC):
    fams = ['PAT_MULTI', 'PAT_TRACK', 'PAT_ROAD', 'PAT_RELAYS', 'PAT_THROWS', 'PAT_JUMPS', 'PAT_HURDLES',
            'PAT_RACES_FOR_DISTANCE', 'PAT_HIGHSCORING_EVENT', 'PAT_LOWSCORING_EVENT', 'PAT_FIELD', 'PAT_RUN',
            'PAT_TIMED_EVENT', 'PAT_LENGTH_EVENT']
    n = 0
    for i, alt, La in kept:
        Oa = out_lang(P, alt, names, N, S.removed)
        for f in fams:
            Lf = P.dfa(f)
            if not P.is_empty(rx.diff(La, Lf)):
                continue
            n += 1
            ok, w = P.subset(Oa, Lf)
            if ok:
                ctx.ok('R7', 'alternative %d: Out stays inside %s' % (i, f))
            else:
                ctx.finding('R7', '%s::normalize_event_code::alternative %s leaves %s' % (UTILS, P.wit(La), f), UTILS,
                            S.fn.lineno, 'codes of this alternative (e.g. %r) are in %s but can normalise to %r, which '
                            'is not' % (P.wit(La), f, w), w)
    ctx.note('R7 (alternative, family) pairs', n)
    for g, fname in gn.items():
        if g not in N:
            continue
        again = ni.apply(fname, rx.diff(ro.strip_both(N[g], P.WS), P.EPS))
        ok, w1, w2 = P.equal(again, N[g])
        if ok:
            ctx.ok('R8', 'f(N_%s) = N_%s' % (g, g))
        else:
            ctx.finding('R8', '%s::%s::set-level idempotence on group %s' % (UTILS, fname, g), UTILS, None,
                        'normalising a normalised capture of %s again changes the set (e.g. %r)' % (g, w1 or w2), w1 or w2)
