"""C17 — implement weights and weight-specific codes stay inside the vocabulary."""
import ast
import re

from .. import fold, rx, regops as ro
from ..core import AnalysisError
from ..normint import NormInterp
from ..pats import Pats, find_group
from ..src import call_name, unparse
from .c07 import read_gnorms

LEVEL = 'other'
IMPL = 'athlib/implements.py'
UKA = 'athlib/uka/agegroups.py'
UTILS = 'athlib/utils.py'
EVENTS = ['SP', 'DT', 'HT', 'JT', 'WT']
GENDERS = ['M', 'F']
MASTERS = ['V%02d' % a for a in range(35, 115, 5)]
GROUP_OF = {'SP': 'spnum', 'DT': 'dtnum', 'HT': 'htnum', 'JT': 'jtnum', 'WT': 'wtnum'}


def table_keys(repo):
    """[(table label, file, event code)] for every event-code key the library's own tables use"""
    keys = []
    for o in repo.const('athlib/athlon_score.py', '_scoring_table'):
        keys.append(('combined events', 'athlib/athlon_score.py', o['event_code']))
    for r in repo.const('athlib/hungarian_score.py', 'FACTORS'):
        keys.append(('hungarian', 'athlib/hungarian_score.py', r[2]))
    for g, t in repo.const('athlib/tyrving_score.py', '_tyrvingTables').items():
        for k in t:
            keys.append(('tyrving %s' % g, 'athlib/tyrving_score.py', k))
    for c, t in repo.const('athlib/qkids_score.py', '_qkidsTables').items():
        for k in t:
            keys.append(('qkids %s' % c, 'athlib/qkids_score.py', k))
    raw = repo.const('athlib/sportshall_score.py', 'RAWDATA')
    hdr = [row for row in raw if row and row[0] == 'code']
    if not hdr:
        raise AnalysisError('sportshall RAWDATA has no "code" row')
    for k in hdr[0][1:]:
        keys.append(('sportshall', 'athlib/sportshall_score.py', k))
    for k in repo.const('athlib/bulgarian_score.py', 'scores'):
        m = re.match(r'^(U\d\d)([MFX])(.+)$', k)
        if not m:
            raise AnalysisError('bulgarian table key %r is not <age group><gender><event>' % k)
        keys.append(('bulgarian %s%s' % m.group(1, 2), 'athlib/bulgarian_score.py', m.group(3)))
    for f in ('wma-data-2015.json', 'wma-data-2023.json', 'wma-athlons-data.json'):
        d = repo.json('athlib/wma/' + f)
        for g in 'mf':
            for row in d[g]:
                keys.append(('%s %s' % (f, g), 'athlib/wma/' + f, row[0]))
    return keys


def labels_of_library(repo):
    mod = repo.module(UKA)
    labs = set()
    for fn in mod.functions.values():
        for n in ast.walk(fn):
            if isinstance(n, ast.Return) and isinstance(n.value, ast.Constant) and isinstance(n.value.value, str):
                labs.add(n.value.value)
    impl = repo.module(IMPL)
    for n in ast.walk(impl.func('get_implement_weight')):
        if isinstance(n, ast.Constant) and isinstance(n.value, str) and re.match(r'^(U\d\d|SEN|V\d\d+)$', n.value):
            labs.add(n.value)
    return sorted(labs | set(MASTERS) | {'U23', 'SEN'})


def run(ctx, repo):
    P = Pats(repo)
    env, _ = repo.folded(IMPL)
    giw, gsec = env.get('get_implement_weight'), env.get('get_specific_event_code')
    if not isinstance(giw, fold.FuncConst) or not isinstance(gsec, fold.FuncConst):
        raise AnalysisError('anchor vanished: get_implement_weight / get_specific_event_code')
    labels = labels_of_library(repo)
    ctx.explanation = (
        'get_implement_weight and get_specific_event_code are pure decision chains over (event, gender, label); they are '
        'evaluated by the constant folder over the complete finite domain of the five throws x two genders x every '
        'age-group label the library itself produces (%d labels), and every built code is checked for membership in '
        'L(PAT_THROWS), normal form (fixpoint of the group\'s normaliser) and the table weight.  Every event-code key of every '
        'scoring / age-grading table is checked for membership in L(PAT_EVENT_CODE).' % len(labels))
    ctx.rule('R1', 'masters implements: a weight is known for every band V35..V110 and never increases with the band')
    ctx.rule('R2', 'get_specific_event_code: never raises; result is an accepted throws code, already normalised, carrying the '
                   'table weight; non-throw codes are returned unchanged')
    ctx.rule('R3', 'every event-code key of the library\'s tables is accepted by PAT_EVENT_CODE')
    ctx.note('labels', labels)
    F = fold.Folder()
    weights = {}
    n_cells = 0
    for ev in EVENTS:
        for g in GENDERS:
            for lab in labels:
                n_cells += 1
                try:
                    w = F.call(giw, [ev, g, lab], {})
                except Exception as e:
                    ctx.finding('R2', '%s::get_implement_weight::%s %s %s raises' % (IMPL, ev, g, lab), IMPL, giw.node.lineno,
                                'get_implement_weight(%r, %r, %r) raises %s' % (ev, g, lab, type(e).__name__))
                    continue
                if not isinstance(w, str):
                    ctx.finding('R2', '%s::get_implement_weight::%s %s %s returns %r' % (IMPL, ev, g, lab, w), IMPL, giw.node.lineno,
                                'get_implement_weight(%r, %r, %r) returns %r, not a weight string' % (ev, g, lab, w))
                    continue
                weights[(ev, g, lab)] = w
    ctx.count('(event, gender, label) cells evaluated', n_cells)
    ctx.floor('(event, gender, label) cells', n_cells, 200)
    ctx.extra['exhaustive'] = True
    # ---- R1 masters monotone
    for ev in EVENTS:
        for g in GENDERS:
            seq = [(lab, weights.get((ev, g, lab))) for lab in MASTERS]
            prev = None
            bad = None
            for lab, w in seq:
                try:
                    v = float(w)
                except (TypeError, ValueError):
                    bad = (lab, 'no weight (%r)' % w)
                    break
                if prev is not None and v > prev[1]:
                    bad = (lab, '%s kg/g after %s for %s' % (w, prev[2], prev[0]))
                    break
                prev = (lab, v, w)
            if bad:
                ctx.finding('R1', '%s::get_implement_weight::masters %s %s' % (IMPL, ev, g), IMPL, giw.node.lineno,
                            'masters %s %s: band %s gets %s; implements must be known and never get heavier as the band rises '
                            '(labels are compared as strings, so V100 sorts below V80)' % (ev, g, bad[0], bad[1]),
                            {'sequence': seq})
            else:
                ctx.ok('R1', '%s %s: V35..V110 known and non-increasing' % (ev, g), [w for _, w in seq])
    # ---- R2 specific codes
    utils = repo.module(UTILS)
    gn = read_gnorms(utils)
    fns = {q: f for q, f in utils.functions.items() if '.' not in q}
    ni = NormInterp(P, fns)
    TH = P.dfa('PAT_THROWS')
    EC = P.need('PAT_EVENT_CODE')
    codes = {}
    raised = {}
    for (ev, g, lab), w in sorted(weights.items()):
        try:
            code = F.call(gsec, [ev, g, lab], {})
        except Exception as e:
            raised.setdefault((type(e).__name__, str(e)), []).append((ev, g, lab))
            continue
        codes.setdefault(code, []).append((ev, g, lab, w))
    for (en, msg), cells in sorted(raised.items()):
        ctx.finding('R2', '%s::get_specific_event_code::raises %s' % (IMPL, en), IMPL, gsec.node.lineno,
                    'get_specific_event_code raises %s (%s) for %d (event, gender, group) cells, e.g. %s: the implement table '
                    'has no weight for the group and the code is built regardless' % (en, msg, len(cells), cells[0]), cells[:8])
    for code, cells in sorted(codes.items(), key=lambda kv: str(kv[0])):
        ev, g, lab, w = cells[0]
        if not isinstance(code, str):
            ctx.finding('R2', '%s::get_specific_event_code::returns %r' % (IMPL, code), IMPL, gsec.node.lineno,
                        'get_specific_event_code(%r, %r, %r) returns %r' % (ev, g, lab, code))
            continue
        if not rx.accepts(TH, code):
            ctx.finding('R2', '%s::get_specific_event_code::code %s not a throws code' % (IMPL, code), IMPL, gsec.node.lineno,
                        'get_specific_event_code(%r, %r, %r) builds %r, which PAT_THROWS does not accept' % (ev, g, lab, code), code)
            continue
        if code == ev:
            if w == '':
                ctx.ok('R2', '%s: no weight known, generic code kept' % code)
                continue
            ctx.finding('R2', '%s::get_specific_event_code::weight dropped %s %s' % (IMPL, ev, w), IMPL, gsec.node.lineno,
                        'the weight %r of %s %s %s is not carried by the built code %r' % (w, ev, g, lab, code))
            continue
        part = code[len(ev):]
        # normal form: fixpoint of the group's normaliser
        grp = GROUP_OF[ev]
        if grp in gn:
            img = ni.apply(gn[grp], P.const(part))
            if not rx.accepts(img, part) or P.wit(rx.diff(img, P.const(part))) is not None:
                ctx.finding('R2', '%s::get_specific_event_code::code %s not normalised' % (IMPL, code), IMPL, gsec.node.lineno,
                            'the built code %r is not in normal form: normalising its weight part gives %r' % (code, P.wit(img)), code)
                continue
        # weight carried
        num = re.match(r'^(\d+\.?\d*)', part)
        try:
            same = num is not None and float(num.group(1)) == float(w)
        except ValueError:
            same = False
        if not same:
            ctx.finding('R2', '%s::get_specific_event_code::code %s weight' % (IMPL, code), IMPL, gsec.node.lineno,
                        'the built code %r does not carry the table weight %r of %s %s %s' % (code, w, ev, g, lab), code)
            continue
        ctx.ok('R2', '%s accepted, normalised, weight %s (%d cells)' % (code, w, len(cells)))
    ctx.floor('distinct codes built', len(codes), 15)
    # identity arm
    fn = gsec.node
    first = [s for s in fn.body if not (isinstance(s, ast.Expr) and isinstance(s.value, ast.Constant))][0]
    argn = fn.args.args[0].arg
    ident = isinstance(first, ast.If) and isinstance(first.test, ast.Compare) and isinstance(first.test.ops[0], ast.NotIn) \
        and ast.unparse(first.test.left) == argn and isinstance(first.body[-1], ast.Return) and ast.unparse(first.body[-1].value) == argn
    if ident:
        listed = sorted(x.value for x in first.test.comparators[0].elts if isinstance(x, ast.Constant))
        if listed == sorted(EVENTS):
            ctx.ok('R2', 'non-throw codes are returned unchanged (identity arm first)')
        else:
            ctx.finding('R2', '%s::get_specific_event_code::identity arm list' % IMPL, IMPL, first.lineno,
                        'the codes that get a weight are %s, the implement table knows %s' % (listed, sorted(EVENTS)))
    # every other accepted code passes through unchanged: evaluated over the listed vocabularies of codes.py and the shortest
    # ~1500 members of L(PAT_EVENT_CODE) enumerated from the automaton
    from ..xval import enumerate_lang
    vocab = set()
    for nm in ('FIELD_EVENTS', 'MULTI_EVENTS', 'CUSTOM_EVENTS', 'STANDARD_MALE_TRACK_EVENTS', 'STANDARD_FEMALE_TRACK_EVENTS', 'JUMPS', 'THROWS'):
        v = P.env.get(nm)
        if isinstance(v, (list, tuple)):
            vocab |= {x for x in v if isinstance(x, str)}
    upper_blocks = frozenset(b for b in range(P.A.n) if P.A.sizes[b] == 1 and P.A.reps[b].isascii() and P.A.reps[b].isupper())
    letters_only = rx.inter(P.dfa('PAT_EVENT_CODE'), ro.sigma_star_set(P.A, upper_blocks))
    vocab |= set(enumerate_lang(P, letters_only, limit=4000, maxlen=8))          # every all-upper-case letter code (finite)
    vocab |= set(enumerate_lang(P, P.dfa('PAT_EVENT_CODE'), limit=600, maxlen=5))   # plus the shortest codes with digits
    changed = []
    n_pass = 0
    for c in sorted(vocab):
        if c in EVENTS:
            continue
        n_pass += 1
        try:
            r = F.call(gsec, [c, 'M', 'SEN'], {})
        except fold.Unfoldable as e:
            raise AnalysisError('get_specific_event_code not evaluable on %r: %s' % (c, e))
        except Exception as e:
            r = '<%s>' % type(e).__name__
        if r != c:
            changed.append((c, r))
    ctx.count('non-throw codes evaluated for pass-through', n_pass)
    if changed:
        ctx.finding('R2', '%s::get_specific_event_code::non-throw codes unchanged' % IMPL, IMPL, fn.lineno,
                    '%d accepted codes that are not one of the five generic throws are not passed through unchanged, e.g. %r becomes %r' % (
                        len(changed), changed[0][0], changed[0][1]), changed[:5])
    else:
        ctx.ok('R2', 'all %d other accepted codes evaluated are returned unchanged' % n_pass)
    # ---- R3 table keys
    D = P.dfa('PAT_EVENT_CODE')
    cec = utils.func('check_event_code')
    crets = [n for n in ast.walk(cec) if isinstance(n, ast.Return)]
    xform = None
    if len(crets) == 1 and isinstance(crets[0].value, ast.Call) and isinstance(crets[0].value.func, ast.Attribute) \
            and crets[0].value.func.attr in ('match', 'fullmatch') and ast.unparse(crets[0].value.func.value) == 'PAT_EVENT_CODE' and crets[0].value.args:
        xform = crets[0].value.args[0]
        cparam = cec.args.args[0].arg
    else:
        raise AnalysisError('check_event_code is not `return PAT_EVENT_CODE.match(<argument>)`')

    def checker_accepts(k):
        if isinstance(xform, ast.Name) and xform.id == cparam:
            return rx.accepts(D, k)
        try:
            k2 = fold.Folder().expr(xform, {cparam: k})
        except Exception as e:
            raise AnalysisError('check_event_code: argument transformation %s not evaluable: %s' % (unparse(xform), e))
        return isinstance(k2, str) and rx.accepts(D, k2)
    keys = table_keys(repo)
    seen = set()
    nbad = 0
    for lab, rel, k in keys:
        if not isinstance(k, str) or not checker_accepts(k):
            tkey = (lab.split()[0], k)
            if tkey in seen:
                continue
            seen.add(tkey)
            nbad += 1
            ctx.finding('R3', '%s::table key %s (%s)' % (rel, k, lab.split()[0]), rel, None,
                        'table key %r of the %s table is not an accepted event code: check_event_code refuses it, the entry '
                        'cannot be reached through the public function' % (k, lab), k)
    ctx.count('table keys checked', len(keys))
    ctx.floor('table keys checked', len(keys), 500)
    if not nbad:
        ctx.ok('R3', 'all %d table keys are accepted event codes' % len(keys))
