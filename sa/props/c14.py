"""C14 — WMA age grading is defined, consistent and spelling-independent on its domain."""
import ast
import math

from ..core import AnalysisError
from ..src import call_name, stmt_key, unparse
from .c01 import undefined_names
from .c03 import resolve_locals, subst

LEVEL = 'other'
AGE = 'athlib/wma/agegrader.py'
INIT = 'athlib/__init__.py'
TABLES = [('athlib/wma/wma-data-2015.json', 3), ('athlib/wma/wma-data-2023.json', 3), ('athlib/wma/wma-athlons-data.json', 0)]
PUBLIC = ['calculate_factor', 'world_best', 'calculate_age_grade']


def top_index(fn, node):
    """index of the top-level statement of fn that contains node"""
    for i, st in enumerate(fn.body):
        if any(n is node for n in ast.walk(st)):
            return i
    return None


def run(ctx, repo):
    mod = repo.module(AGE)
    ctx.explanation = (
        'Normalisation dominance is a dataflow rule on every public method of AgeGrader / AthlonsAgeGrader (sibling '
        'cross-check: what calculate_factor does, world_best must do): the gender parameter passes through normalize_gender '
        'and the event parameter through upper() before being used as a table key.  Undefined names are found with symtable. '
        'The grade formula is checked by roles (value numbering).  Every cell of the three JSON tables is checked for '
        'well-formedness.  Numeric identities (grade of the open best = 1.0 exactly) are not decided.')
    ctx.rule('R1', 'no undefined name in agegrader.py / athlib/__init__.py')
    ctx.rule('R2', 'gender -> normalize_gender and event -> upper() dominate every key use in the public grader methods')
    ctx.rule('R3', "find_age's clamping arm uses the last column index (len(ages) - 1)")
    ctx.rule('R4', 'grade roles: standard = best / factor; timed: standard / perf; field: perf / standard; timed kinds = {road, track}')
    ctx.rule('R6', 'memo transparency on the grader objects (they are shared between all callers)')
    ctx.rule('R5', 'JSON tables: ages strictly increasing, row lengths, one contiguous block of finite positive factors, '
                   'standards > 0, upper-case codes, both genders')
    # ---- R1
    und = undefined_names(repo, [AGE, INIT])
    for rel, qual, name, line in und:
        ctx.finding('R1', '%s::%s::undefined name %s' % (rel, qual, name), rel, line,
                    'name %r is used in %s but never defined (NameError when that path runs: ages past the last column)' % (name, qual))
    if not und:
        ctx.ok('R1', 'no undefined names')
    # ---- R2
    n_methods = 0
    for cname in ('AgeGrader', 'AthlonsAgeGrader'):
        cls = mod.cls(cname)
        for f in cls.body:
            if not isinstance(f, ast.FunctionDef) or f.name not in PUBLIC:
                continue
            params = [a.arg for a in f.args.args]
            n_methods += 1
            for pname, what in (('gender', 'normalize_gender'), ('event', 'upper')):
                if pname not in params:
                    continue
                norm_idx = None
                for i, st in enumerate(f.body):
                    if isinstance(st, ast.Assign) and len(st.targets) == 1 and ast.unparse(st.targets[0]) == pname:
                        v = st.value
                        if what == 'normalize_gender' and isinstance(v, ast.Call) and call_name(v) == 'normalize_gender' \
                                and v.args and ast.unparse(v.args[0]) == pname:
                            norm_idx = i if norm_idx is None else norm_idx
                        if what == 'upper' and isinstance(v, ast.Call) and isinstance(v.func, ast.Attribute) and v.func.attr == 'upper' \
                                and ast.unparse(v.func.value) == pname:
                            norm_idx = i if norm_idx is None else norm_idx
                uses = []
                for n in ast.walk(f):
                    if pname == 'gender':
                        if isinstance(n, ast.Subscript) and isinstance(n.ctx, ast.Load) and isinstance(n.slice, ast.Name) and n.slice.id == pname:
                            uses.append((n, 'table key %s' % unparse(n)))
                    else:
                        if isinstance(n, ast.Call) and call_name(n) in ('find_row_by_event', 'get_distance') and n.args \
                                and isinstance(n.args[0], ast.Name) and n.args[0].id == pname:
                            uses.append((n, 'argument of %s' % call_name(n)))
                        if isinstance(n, ast.Compare) and any(isinstance(x, ast.Name) and x.id == pname for x in [n.left] + n.comparators) \
                                and any(isinstance(x, (ast.Constant, ast.Tuple, ast.List)) for x in [n.left] + n.comparators):
                            uses.append((n, 'comparison %s' % unparse(n)))
                        if isinstance(n, ast.Subscript) and isinstance(n.value, ast.Name) and n.value.id == pname and isinstance(n.ctx, ast.Load) \
                                and not isinstance(getattr(n, '_parent', None), ast.Compare):
                            pass
                for n, desc in uses:
                    ui = top_index(f, n)
                    if norm_idx is None or ui is None or ui < norm_idx:
                        ctx.finding('R2', '%s::%s.%s::%s used as key without %s' % (AGE, cname, f.name, pname, what), AGE, n.lineno,
                                    '%s.%s uses its %s parameter as a %s without passing it through %s first (its sibling '
                                    'calculate_factor does): %s' % (cname, f.name, pname, desc, what,
                                    "'M' raises KeyError('M')" if pname == 'gender' else "'hj' is not found and falls into the distance arm (TypeError)"),
                                    "wma_world_best('M', '100')" if pname == 'gender' else "wma_world_best('m', 'hj')")
                        break
                else:
                    if uses:
                        ctx.ok('R2', '%s.%s: %s is normalised (%s) before its %d key uses' % (cname, f.name, pname, what, len(uses)))
    ctx.floor('public grader methods examined', n_methods, 4)
    # ---- R3
    fa = mod.func('AgeGrader.find_age')
    lens = {ast.unparse(n.targets[0]): ast.unparse(n.value.args[0]) for n in ast.walk(fa) if isinstance(n, ast.Assign) and isinstance(n.value, ast.Call)
            and call_name(n.value) == 'len' and len(n.targets) == 1}
    agesp = fa.args.args[2].arg if len(fa.args.args) > 2 else 'ages'
    last_if = [n for n in fa.body if isinstance(n, ast.If)]
    clamp = None
    for n in last_if:
        cur = n
        while cur is not None:
            if cur.orelse and not (len(cur.orelse) == 1 and isinstance(cur.orelse[0], ast.If)):
                clamp = cur.orelse
            cur = cur.orelse[0] if len(cur.orelse) == 1 and isinstance(cur.orelse[0], ast.If) else None
    ok = False
    if clamp:
        for st in clamp:
            if isinstance(st, ast.Assign) and isinstance(st.value, ast.BinOp) and isinstance(st.value.op, ast.Sub) \
                    and isinstance(st.value.right, ast.Constant) and st.value.right.value == 1:
                l = ast.unparse(st.value.left)
                if lens.get(l) == agesp or l == 'len(%s)' % agesp:
                    ok = True
    if ok:
        ctx.ok('R3', 'find_age clamps to len(ages) - 1')
    elif not any(f.rule == 'R1' for f in ctx.findings):
        ctx.finding('R3', '%s::AgeGrader.find_age::clamp index' % AGE, AGE, fa.lineno,
                    'the arm for ages past the last column does not select index len(%s) - 1' % agesp)
    # scan bounds: the column / row scans must be able to run off the end (that is what selects the clamping arm)
    for q, seq_idx in (('AgeGrader.find_age', 2), ('AgeGrader.find_row_by_distance', 2)):
        f = mod.func(q)
        seqp = f.args.args[seq_idx].arg
        lens2 = {ast.unparse(n.targets[0]): ast.unparse(n.value.args[0]) for n in ast.walk(f) if isinstance(n, ast.Assign) and isinstance(n.value, ast.Call)
                 and call_name(n.value) == 'len' and len(n.targets) == 1 and n.value.args}
        loops = [w for w in ast.walk(f) if isinstance(w, ast.While) and isinstance(w.test, ast.BoolOp)]
        okb = False
        bad = None
        for w in loops:
            for part in w.test.values:
                if isinstance(part, ast.Compare) and len(part.ops) == 1 and isinstance(part.ops[0], ast.Lt):
                    r = ast.unparse(part.comparators[0])
                    if lens2.get(r) == seqp or r == 'len(%s)' % seqp:
                        okb = True
                    elif any(nm in r for nm in lens2) or 'len(' in r:
                        bad = unparse(part)
        if bad:
            ctx.finding('R3', '%s::%s::scan bound' % (AGE, q), AGE, f.lineno,
                        'the scan in %s stops at `%s` instead of the end of %s: a value beyond the last entry never reaches the clamping '
                        'arm and is extrapolated from the last two entries (factors can become negative)' % (q.split('.')[1], bad, seqp), 'age 120')
        elif okb:
            ctx.ok('R3', '%s scans up to len(%s)' % (q, seqp))
    # memo transparency on the graders (shared instances keep whatever is cached)
    from ..memo import analyse as memo_analyse
    for cname in ('AgeGrader', 'AthlonsAgeGrader'):
        for f in mod.cls(cname).body:
            if isinstance(f, ast.FunctionDef) and f.name not in ('__init__', 'get_data'):
                res, memos = memo_analyse(f, set())
                for rule, msg, node in res:
                    ctx.finding('R6', '%s::%s.%s::memo %s' % (AGE, cname, f.name, rule), AGE, node.lineno, msg,
                                'the same event graded for one gender, then for the other, on the shared grader')
    # ---- R4
    cg = mod.func('AgeGrader.calculate_age_grade')
    env = resolve_locals(cg)
    kind_if = [n for n in ast.walk(cg) if isinstance(n, ast.If) and isinstance(n.test, ast.Compare) and isinstance(n.test.ops[0], ast.In)
               and ast.unparse(n.test.left) == 'kind']
    if len(kind_if) != 1:
        raise AnalysisError('calculate_age_grade: kind dispatch not found')
    ki = kind_if[0]
    kinds = sorted(x.value for x in ki.test.comparators[0].elts if isinstance(x, ast.Constant))
    if kinds == ['road', 'track']:
        ctx.ok('R4', 'timed kinds = road, track')
    else:
        ctx.finding('R4', '%s::AgeGrader.calculate_age_grade::timed kinds' % AGE, AGE, ki.lineno,
                    'timed kinds are %s, not road and track' % kinds)

    def ratio(stmts):
        for st in stmts:
            if isinstance(st, ast.Assign) and isinstance(st.value, ast.BinOp) and isinstance(st.value.op, ast.Div):
                return subst(st.value.left, env), subst(st.value.right, env), st
        return None, None, None

    def is_standard(e):
        t = ast.unparse(e)
        return 'world_best(' in t and 'calculate_factor(' in t and isinstance(e, ast.BinOp) and isinstance(e.op, ast.Div) \
            and 'calculate_factor(' in ast.unparse(e.right) and 'world_best(' in ast.unparse(e.left) and 'calculate_factor(' not in ast.unparse(e.left)

    def is_perf(e):
        return 'parse_hms(' in ast.unparse(e) and 'world_best' not in ast.unparse(e)
    num_t, den_t, st_t = ratio(ki.body)
    num_f, den_f, st_f = ratio(ki.orelse)
    if num_t is not None and is_standard(num_t) and is_perf(den_t):
        ctx.ok('R4', 'timed: (best / factor) / performance')
    else:
        ctx.finding('R4', '%s::AgeGrader.calculate_age_grade::timed grade' % AGE, AGE, ki.lineno,
                    'the timed grade is %s; it must be the age standard (open best / factor) divided by the time' % (unparse(st_t) if st_t else '?'))
    if num_f is not None and is_perf(num_f) and is_standard(den_f):
        ctx.ok('R4', 'field: performance / (best / factor)')
    else:
        ctx.finding('R4', '%s::AgeGrader.calculate_age_grade::field grade' % AGE, AGE, ki.lineno,
                    'the field grade is %s; it must be the mark divided by the age standard (open best / factor)' % (unparse(st_f) if st_f else '?'))
    # ---- R5 data
    n_cells = 0
    for rel, off in TABLES:
        d = repo.json(rel)
        ages = d.get('ages')
        if not isinstance(ages, list) or not all(isinstance(a, (int, float)) for a in ages):
            ctx.finding('R5', '%s::ages' % rel, rel, None, 'ages is not a list of numbers')
            continue
        if any(b <= a for a, b in zip(ages, ages[1:])):
            ctx.finding('R5', '%s::ages not increasing' % rel, rel, None, 'ages are not strictly increasing: the column search misplaces ages')
        for g in ('m', 'f'):
            if g not in d or not d[g]:
                ctx.finding('R5', '%s::gender %s missing' % (rel, g), rel, None, 'no table for gender %r' % g)
                continue
            seen_codes = set()
            for row in d[g]:
                code = row[0]
                key = '%s::%s %s' % (rel, g, code)
                want_len = off + len(ages) if off else len(ages)
                if len(row) != want_len:
                    ctx.finding('R5', key + '::row length', rel, None,
                                'row %s %s has %d cells, %d expected (offset %d + %d ages): ages map to the wrong factors' % (g, code, len(row), want_len, off, len(ages)))
                    continue
                if not isinstance(code, str) or code != code.upper():
                    ctx.finding('R5', key + '::code case', rel, None, 'event code %r is not an upper-case string: lookups upper-case the event' % (code,))
                if code in seen_codes:
                    ctx.finding('R5', key + '::duplicate row', rel, None, 'event %r appears twice for gender %s: the second row is dead' % (code, g))
                seen_codes.add(code)
                if off:
                    for j, nm in ((1, 'distance'), (2, 'standard')):
                        v = row[j]
                        # field rows carry distance 0; positivity of running distances is C15's data rule
                        if not isinstance(v, (int, float)) or isinstance(v, bool) or not math.isfinite(v) or v < 0 or (j == 2 and v <= 0):
                            ctx.finding('R5', key + '::%s' % nm, rel, None, '%s of %s %s is %r, not a %s number' % (
                                nm, g, code, v, 'positive' if j == 2 else 'non-negative'))
                facs = row[off:] if off else row[1:]
                n_cells += len(facs)
                nn = [i for i, v in enumerate(facs) if v is not None]
                bad = [v for v in facs if v is not None and (not isinstance(v, (int, float)) or isinstance(v, bool) or not math.isfinite(v) or v <= 0)]
                if bad:
                    ctx.finding('R5', key + '::factor value', rel, None, 'factors of %s %s contain %r: an age factor is a finite positive number' % (g, code, bad[0]), bad[0])
                elif not nn:
                    ctx.finding('R5', key + '::no factors', rel, None, 'row %s %s has no factors at all' % (g, code))
                elif nn != list(range(nn[0], nn[-1] + 1)):
                    hole = [i for i in range(nn[0], nn[-1] + 1) if i not in nn][0]
                    ctx.finding('R5', key + '::hole in factors', rel, None,
                                'the factors of %s %s have a null inside the tabulated block (age %s): interpolation there multiplies by None' % (
                                    g, code, ages[hole + (0 if off else 1)] if hole + (0 if off else 1) < len(ages) else '?'))
    ctx.count('factor cells checked', n_cells)
    ctx.floor('factor cells checked', n_cells, 30000)
    if not any(f.rule == 'R5' for f in ctx.findings):
        ctx.ok('R5', 'all JSON tables well-formed (%d factor cells)' % n_cells)
    ctx.extra['exhaustive'] = True
