"""C14 — WMA age grading is defined, consistent and spelling-independent on its domain."""
import ast
import math
import os

from ..core import AnalysisError
from ..src import call_name, stmt_key, unparse
from .c01 import undefined_names
from .c03 import resolve_locals, subst

LEVEL = 'other'
AGE = 'athlib/wma/agegrader.py'
INIT = 'athlib/__init__.py'
TABLES = [('athlib/wma/wma-data-2015.json', 3), ('athlib/wma/wma-data-2023.json', 3), ('athlib/wma/wma-athlons-data.json', 0)]
PUBLIC = ['calculate_factor', 'world_best', 'calculate_age_grade']


def top_index(fn, node):
    """index of the top-level statement of fn that contains node"""
    for i, st in enumerate(fn.body):
        if any(n is node for n in ast.walk(st)):
            return i
    return None


def run(ctx, repo):
    mod = repo.module(AGE)
    ctx.explanation = (
        'Normalisation dominance is a dataflow rule on every public method of AgeGrader / AthlonsAgeGrader (sibling '
        'cross-check: what calculate_factor does, world_best must do): the gender parameter passes through normalize_gender '
        'and the event parameter through upper() before being used as a table key.  Undefined names are found with symtable. '
        'The grade formula is checked by roles (value numbering).  Every cell of the three JSON tables is checked for '
        'well-formedness.  Numeric identities (grade of the open best = 1.0 exactly) are not decided.')
    ctx.rule('R1', 'no undefined name in agegrader.py / athlib/__init__.py')
    ctx.rule('R2', 'gender -> normalize_gender and event -> upper() dominate every key use in the public grader methods')
    ctx.rule('R3', "find_age's clamping arm uses the last column index (len(ages) - 1)")
    ctx.rule('R4', 'grade roles: standard = best / factor; timed: standard / perf; field: perf / standard; timed kinds = {road, track}')
    ctx.rule('R11', 'no AgeGrader method re-binds its age parameter through int/round/floor/ceil')
    ctx.rule('R10', 'the event classifier gives every tabulated code the same kind in lower case (it sees the code before upper())')
    ctx.rule('R9', 'at every covered (integer / half-integer) age the two columns selected by find_age (folded) hold numbers')
    ctx.rule('R7', 'the wrappers wma_age_grade / wma_age_factor / wma_world_best choose the same table for the same year and by default (folded)')
    ctx.rule('R8', 'normalize_gender maps m, M, male, Male, MALE / f, F, female, Female, FEMALE to m / f (folded)')
    ctx.rule('R6', 'memo transparency on the grader objects (they are shared between all callers)')
    ctx.rule('R5', 'JSON tables: ages strictly increasing, row lengths, one contiguous block of finite positive factors, '
                   'standards > 0, upper-case codes, both genders')
    # ---- R1
    und = undefined_names(repo, [AGE, INIT])
    for rel, qual, name, line in und:
        ctx.finding('R1', '%s::%s::undefined name %s' % (rel, qual, name), rel, line,
                    'name %r is used in %s but never defined (NameError when that path runs: ages past the last column)' % (name, qual))
    if not und:
        ctx.ok('R1', 'no undefined names')
    # ---- R2
    n_methods = 0
    for cname in ('AgeGrader', 'AthlonsAgeGrader'):
        cls = mod.cls(cname)
        for f in cls.body:
            if not isinstance(f, ast.FunctionDef) or f.name not in PUBLIC:
                continue
            params = [a.arg for a in f.args.args]
            n_methods += 1
            for pname, what in (('gender', 'normalize_gender'), ('event', 'upper')):
                if pname not in params:
                    continue
                norm_idx = None
                for i, st in enumerate(f.body):
                    if isinstance(st, ast.Assign) and len(st.targets) == 1 and ast.unparse(st.targets[0]) == pname:
                        v = st.value
                        if what == 'normalize_gender' and isinstance(v, ast.Call) and call_name(v) == 'normalize_gender' \
                                and v.args and ast.unparse(v.args[0]) == pname:
                            norm_idx = i if norm_idx is None else norm_idx
                        if what == 'upper' and isinstance(v, ast.Call) and isinstance(v.func, ast.Attribute) and v.func.attr == 'upper' \
                                and ast.unparse(v.func.value) == pname:
                            norm_idx = i if norm_idx is None else norm_idx
                uses = []
                for n in ast.walk(f):
                    if pname == 'gender':
                        if isinstance(n, ast.Subscript) and isinstance(n.ctx, ast.Load) and isinstance(n.slice, ast.Name) and n.slice.id == pname:
                            uses.append((n, 'table key %s' % unparse(n)))
                    else:
                        if isinstance(n, ast.Call) and call_name(n) in ('find_row_by_event', 'get_distance') and n.args \
                                and isinstance(n.args[0], ast.Name) and n.args[0].id == pname:
                            uses.append((n, 'argument of %s' % call_name(n)))
                        if isinstance(n, ast.Compare) and any(isinstance(x, ast.Name) and x.id == pname for x in [n.left] + n.comparators) \
                                and any(isinstance(x, (ast.Constant, ast.Tuple, ast.List)) for x in [n.left] + n.comparators):
                            uses.append((n, 'comparison %s' % unparse(n)))
                        if isinstance(n, ast.Subscript) and isinstance(n.value, ast.Name) and n.value.id == pname and isinstance(n.ctx, ast.Load) \
                                and not isinstance(getattr(n, '_parent', None), ast.Compare):
                            pass
                def _normalised_by_flow(use):
                    # every definition of the name that reaches the use is the normalised value: x.upper() / normalize_gender(x), or
                    # (for the event) an upper-case string constant; the bare parameter must not reach it
                    from ..cfg import reaching_defs
                    try:
                        defs_ = reaching_defs(f, pname, use)
                    except Exception:
                        return False
                    if not defs_ or None in defs_:
                        return False
                    for d_ in defs_:
                        v_ = getattr(d_, 'value', None)
                        if not isinstance(d_, ast.Assign) or v_ is None:
                            return False
                        if what == 'upper' and isinstance(v_, ast.Constant) and isinstance(v_.value, str) and v_.value == v_.value.upper():
                            continue
                        if what == 'upper' and isinstance(v_, ast.Call) and isinstance(v_.func, ast.Attribute) and v_.func.attr == 'upper':
                            continue
                        if what == 'normalize_gender' and isinstance(v_, ast.Call) and call_name(v_) == 'normalize_gender':
                            continue
                        return False
                    return True
                for n, desc in uses:
                    ui = top_index(f, n)
                    if (norm_idx is None or ui is None or ui < norm_idx) and not _normalised_by_flow(n):
                        ctx.finding('R2', '%s::%s.%s::%s used as key without %s' % (AGE, cname, f.name, pname, what), AGE, n.lineno,
                                    '%s.%s uses its %s parameter as a %s without passing it through %s first (its sibling '
                                    'calculate_factor does): %s' % (cname, f.name, pname, desc, what,
                                    "'M' raises KeyError('M')" if pname == 'gender' else "'hj' is not found and falls into the distance arm (TypeError)"),
                                    "wma_world_best('M', '100')" if pname == 'gender' else "wma_world_best('m', 'hj')")
                        break
                else:
                    if uses:
                        ctx.ok('R2', '%s.%s: %s is normalised (%s) before its %d key uses' % (cname, f.name, pname, what, len(uses)))
    ctx.floor('public grader methods examined', n_methods, 4)
    # ---- R3
    fa = mod.func('AgeGrader.find_age')
    lens = {ast.unparse(n.targets[0]): ast.unparse(n.value.args[0]) for n in ast.walk(fa) if isinstance(n, ast.Assign) and isinstance(n.value, ast.Call)
            and call_name(n.value) == 'len' and len(n.targets) == 1}
    agesp = fa.args.args[2].arg if len(fa.args.args) > 2 else 'ages'
    # decided by folding find_age (a pure function of its arguments) on every age list of the data, at ages past the last column: both
    # indices must be the last column.  No shape of the function is assumed.
    from .. import fold as _fold
    fc_ = _fold.FuncConst(fa, dict(repo.folded(AGE)[0]))
    ok, clamp_bad, n_cl = True, None, 0
    for rel_ in ('athlib/wma/wma-data-2015.json', 'athlib/wma/wma-data-2023.json', 'athlib/wma/wma-athlons-data.json'):
        if n_cl < 0:
            break
        try:
            ages_ = repo.json(rel_).get('ages')
        except Exception:
            ages_ = None
        if not ages_:
            continue
        for a_ in (ages_[-1] + 0.5, ages_[-1] + 1, ages_[-1] + 5, 150):
            if n_cl < 0:
                break
            for interp_ in (True, False):
                try:
                    r_ = _fold.Folder().call(fc_, [None, a_, ages_], {'interpolate': interp_} if any(x.arg == 'interpolate' for x in fa.args.args + fa.args.kwonlyargs) else {})
                except Exception as e:
                    # not a function of its arguments any more (rule R9 / HIST speak about that): the clamp is not decided here
                    ctx.info('R3: find_age is not foldable (%s: %s); clamp index not decided' % (type(e).__name__, e))
                    n_cl = -1
                    break
                n_cl += 1
                if not (isinstance(r_, tuple) and len(r_) >= 2 and r_[0] == r_[1] == len(ages_) - 1):
                    ok = False
                    clamp_bad = clamp_bad or (rel_.split('/')[-1], a_, r_)
    ctx.count('find_age folded past the last column', max(n_cl, 0))
    if n_cl == 0:
        raise AnalysisError('find_age: no age list found in the data files')
    if n_cl < 0:
        pass
    elif ok:
        ctx.ok('R3', 'find_age clamps to len(ages) - 1 (folded on %d ages past the last column of every table)' % n_cl)
    elif not any(f.rule == 'R1' for f in ctx.findings):
        ctx.finding('R3', '%s::AgeGrader.find_age::clamp index' % AGE, AGE, fa.lineno,
                    'the arm for ages past the last column does not select index len(%s) - 1: with the ages of %s, age %s gives %s' % (
                        (agesp,) + clamp_bad), clamp_bad[1])
    # scan bounds: the column / row scans must be able to run off the end (that is what selects the clamping arm)
    for q, seq_idx in (('AgeGrader.find_age', 2), ('AgeGrader.find_row_by_distance', 2)):
        f = mod.func(q)
        seqp = f.args.args[seq_idx].arg
        lens2 = {ast.unparse(n.targets[0]): ast.unparse(n.value.args[0]) for n in ast.walk(f) if isinstance(n, ast.Assign) and isinstance(n.value, ast.Call)
                 and call_name(n.value) == 'len' and len(n.targets) == 1 and n.value.args}
        loops = [w for w in ast.walk(f) if isinstance(w, ast.While) and isinstance(w.test, ast.BoolOp)]
        okb = False
        bad = None
        for w in loops:
            for part in w.test.values:
                if isinstance(part, ast.Compare) and len(part.ops) == 1 and isinstance(part.ops[0], ast.Lt):
                    r = ast.unparse(part.comparators[0])
                    if lens2.get(r) == seqp or r == 'len(%s)' % seqp:
                        okb = True
                    elif any(nm in r for nm in lens2) or 'len(' in r:
                        bad = unparse(part)
        if bad:
            ctx.finding('R3', '%s::%s::scan bound' % (AGE, q), AGE, f.lineno,
                        'the scan in %s stops at `%s` instead of the end of %s: a value beyond the last entry never reaches the clamping '
                        'arm and is extrapolated from the last two entries (factors can become negative)' % (q.split('.')[1], bad, seqp), 'age 120')
        elif okb:
            ctx.ok('R3', '%s scans up to len(%s)' % (q, seqp))
    # memo transparency on the graders (shared instances keep whatever is cached)
    from ..memo import analyse as memo_analyse
    for cname in ('AgeGrader', 'AthlonsAgeGrader'):
        for f in mod.cls(cname).body:
            if isinstance(f, ast.FunctionDef) and f.name not in ('__init__', 'get_data'):
                res, memos = memo_analyse(f, set())
                for rule, msg, node in res:
                    ctx.finding('R6', '%s::%s.%s::memo %s' % (AGE, cname, f.name, rule), AGE, node.lineno, msg,
                                'the same event graded for one gender, then for the other, on the shared grader')
    # ---- R4 grade roles, decided per tabulated event
    from ..pats import Pats
    from .. import rx as _rx
    P = Pats(repo)
    cg = mod.func('AgeGrader.calculate_age_grade')
    env = resolve_locals(cg)

    def is_standard(e):
        t = ast.unparse(e)
        return isinstance(e, ast.BinOp) and isinstance(e.op, ast.Div) and 'calculate_factor(' in ast.unparse(e.right) \
            and 'world_best(' in ast.unparse(e.left) and 'calculate_factor(' not in ast.unparse(e.left)

    def is_perf(e):
        return 'parse_hms(' in ast.unparse(e) and 'world_best' not in ast.unparse(e)

    def formula(stmts):
        for st in stmts:
            if isinstance(st, (ast.Assign, ast.Return)) and isinstance(st.value, ast.BinOp) and isinstance(st.value.op, ast.Div):
                num, den = subst(st.value.left, env), subst(st.value.right, env)
                if is_standard(num) and is_perf(den):
                    return 'timed', st
                if is_perf(num) and is_standard(den):
                    return 'field', st
                return 'other', st
        return None, None
    sel = None
    for n in ast.walk(cg):
        if isinstance(n, ast.If) and n.orelse:
            fb, _ = formula(n.body)
            fo, _ = formula(n.orelse)
            if fb and fo:
                sel = (n, fb, fo)
    if sel is None:
        raise AnalysisError('calculate_age_grade: no branch selecting between the two grade formulas found')
    node, fb, fo = sel
    if {fb, fo} != {'timed', 'field'}:
        ctx.finding('R4', '%s::AgeGrader.calculate_age_grade::grade formulas' % AGE, AGE, node.lineno,
                    'the two grade formulas are %s / %s; they must be (open best / factor) / time for timed events and mark / (open best / '
                    'factor) for field events' % (fb, fo))
    else:
        # classifier used by the test: ordered (name, pattern) pairs of event_code_to_kind
        kinds = []
        ek = mod.func('AgeGrader.event_code_to_kind')
        for n in ast.walk(ek):
            if isinstance(n, ast.For) and isinstance(n.iter, (ast.Tuple, ast.List)):
                for tup in n.iter.elts:
                    if isinstance(tup, ast.Tuple) and len(tup.elts) == 2 and isinstance(tup.elts[0], ast.Constant) and isinstance(tup.elts[1], ast.Name):
                        kinds.append((tup.elts[0].value, tup.elts[1].id))
        if not kinds:
            # the classifier is not a loop over a literal table: its decision list is reconstructed by probing the folded function
            from .. import fold as _fold2
            try:
                tab_, _none = _fold2.probe_first_match(ek, dict(repo.folded(AGE)[0]), None)
                kinds = [(o[1], nm) for nm, _rc, o in tab_ if o[0] == 'returns' and isinstance(o[1], str) and isinstance(nm, str) and nm in P.parsed]
            except Exception:
                kinds = []
        try:
            _menv = repo.folded(AGE)[0]
        except Exception:
            _menv = {}
        evp = cg.args.args[3].arg if len(cg.args.args) > 3 else 'event'

        def kind_of(ev):
            for nm, pat in kinds:
                if _rx.accepts(P.dfa(pat), ev):
                    return nm
            return None

        def truth(t, ev):
            if isinstance(t, ast.UnaryOp) and isinstance(t.op, ast.Not):
                v = truth(t.operand, ev)
                return None if v is None else not v
            if isinstance(t, ast.Compare) and len(t.ops) == 1 and isinstance(t.ops[0], (ast.In, ast.NotIn)) and (
                    isinstance(t.comparators[0], (ast.List, ast.Tuple, ast.Set)) or (
                        isinstance(t.comparators[0], ast.Name) and isinstance(_menv.get(t.comparators[0].id), (tuple, list, set, frozenset)))):
                lhs = subst(t.left, env)
                if 'event_code_to_kind(' in ast.unparse(lhs):
                    coll = [x.value for x in t.comparators[0].elts if isinstance(x, ast.Constant)] if not isinstance(t.comparators[0], ast.Name) \
                        else list(_menv[t.comparators[0].id])
                    v = kind_of(ev) in coll
                    return v if isinstance(t.ops[0], ast.In) else not v
            if isinstance(t, ast.Compare) and len(t.ops) == 1 and isinstance(t.ops[0], (ast.Eq, ast.NotEq)) and isinstance(t.comparators[0], ast.Constant):
                lhs = subst(t.left, env)
                if 'event_code_to_kind(' in ast.unparse(lhs):
                    v = kind_of(ev) == t.comparators[0].value
                    return v if isinstance(t.ops[0], ast.Eq) else not v
            if isinstance(t, ast.Call) and isinstance(t.func, ast.Attribute) and t.func.attr in ('match', 'search') and isinstance(t.func.value, ast.Name) \
                    and t.func.value.id in P.parsed and t.args and ast.unparse(t.args[0]) in (evp, evp + '.upper()'):
                return _rx.accepts(P.dfa(t.func.value.id), ev)
            if isinstance(t, ast.BoolOp):
                vs = [truth(x, ev) for x in t.values]
                if None in vs:
                    return None
                return all(vs) if isinstance(t.op, ast.And) else any(vs)
            return None
        events = sorted({row[0] for rel, off in TABLES for g in ('m', 'f') for row in repo.json(rel)[g]})
        FIELD = P.dfa('PAT_FIELD')
        wrong = []
        undecided = 0
        for ev in events:
            v = truth(node.test, ev)
            if v is None:
                undecided += 1
                continue
            got = fb if v else fo
            want = 'field' if _rx.accepts(FIELD, ev) else 'timed'
            if got != want:
                wrong.append((ev, got, want))
        if undecided == len(events):
            raise AnalysisError('calculate_age_grade: the test %s selecting the grade formula is not understood' % unparse(node.test))
        if wrong:
            ctx.finding('R4', '%s::AgeGrader.calculate_age_grade::formula selection' % AGE, AGE, node.lineno,
                        'the test %s grades %d tabulated events with the wrong formula, e.g. %s is graded as a %s event but is a %s event: a '
                        'better mark then grades lower' % (unparse(node.test), len(wrong), wrong[0][0], wrong[0][1], wrong[0][2]), [w[0] for w in wrong[:6]])
        else:
            ctx.ok('R4', 'every one of the %d tabulated events is graded with the formula of its kind' % len(events))
    age_clamps(ctx, repo, mod, 'R3')
    # ---- R5 data
    n_cells = 0
    for rel, off in TABLES:
        d = repo.json(rel)
        ages = d.get('ages')
        if not isinstance(ages, list) or not all(isinstance(a, (int, float)) for a in ages):
            ctx.finding('R5', '%s::ages' % rel, rel, None, 'ages is not a list of numbers')
            continue
        if any(b <= a for a, b in zip(ages, ages[1:])):
            ctx.finding('R5', '%s::ages not increasing' % rel, rel, None, 'ages are not strictly increasing: the column search misplaces ages')
        for g in ('m', 'f'):
            if g not in d or not d[g]:
                ctx.finding('R5', '%s::gender %s missing' % (rel, g), rel, None, 'no table for gender %r' % g)
                continue
            seen_codes = set()
            for row in d[g]:
                code = row[0]
                key = '%s::%s %s' % (rel, g, code)
                want_len = off + len(ages) if off else len(ages)
                if len(row) != want_len:
                    ctx.finding('R5', key + '::row length', rel, None,
                                'row %s %s has %d cells, %d expected (offset %d + %d ages): ages map to the wrong factors' % (g, code, len(row), want_len, off, len(ages)))
                    continue
                if not isinstance(code, str) or code != code.upper():
                    ctx.finding('R5', key + '::code case', rel, None, 'event code %r is not an upper-case string: lookups upper-case the event' % (code,))
                if code in seen_codes:
                    ctx.finding('R5', key + '::duplicate row', rel, None, 'event %r appears twice for gender %s: the second row is dead' % (code, g))
                seen_codes.add(code)
                if off:
                    for j, nm in ((1, 'distance'), (2, 'standard')):
                        v = row[j]
                        # field rows carry distance 0; positivity of running distances is C15's data rule
                        if not isinstance(v, (int, float)) or isinstance(v, bool) or not math.isfinite(v) or v < 0 or (j == 2 and v <= 0):
                            ctx.finding('R5', key + '::%s' % nm, rel, None, '%s of %s %s is %r, not a %s number' % (
                                nm, g, code, v, 'positive' if j == 2 else 'non-negative'))
                facs = row[off:] if off else row[1:]
                n_cells += len(facs)
                nn = [i for i, v in enumerate(facs) if v is not None]
                bad = [v for v in facs if v is not None and (not isinstance(v, (int, float)) or isinstance(v, bool) or not math.isfinite(v) or v <= 0)]
                if bad:
                    ctx.finding('R5', key + '::factor value', rel, None, 'factors of %s %s contain %r: an age factor is a finite positive number' % (g, code, bad[0]), bad[0])
                elif not nn:
                    ctx.finding('R5', key + '::no factors', rel, None, 'row %s %s has no factors at all' % (g, code))
                elif nn != list(range(nn[0], nn[-1] + 1)):
                    hole = [i for i in range(nn[0], nn[-1] + 1) if i not in nn][0]
                    ctx.finding('R5', key + '::hole in factors', rel, None,
                                'the factors of %s %s have a null inside the tabulated block (age %s): interpolation there multiplies by None' % (
                                    g, code, ages[hole + (0 if off else 1)] if hole + (0 if off else 1) < len(ages) else '?'))
    ctx.count('factor cells checked', n_cells)
    ctx.floor('factor cells checked', n_cells, 30000)
    if not any(f.rule == 'R5' for f in ctx.findings):
        ctx.ok('R5', 'all JSON tables well-formed (%d factor cells)' % n_cells)
    ctx.extra['exhaustive'] = True
    wrapper_rules(ctx, repo)
    covered_ages_rule(ctx, repo)
    classifier_case_rule(ctx, repo)
    age_coercion_rule(ctx, repo)


def covered_ages_rule(ctx, repo):
    """R9: at every age a row covers (integer and half-integer ages from its first non-null column on), the two columns that find_age
    selects both hold numbers: calculate_factor multiplies both cells whatever the weight, so a null neighbour with weight 0 still raises.
    find_age is a pure function and is folded on the ages of each table."""
    from .. import fold
    ag = repo.module(AGE)
    fa = ag.func('AgeGrader.find_age')
    fc = fold.FuncConst(fa, dict(repo.folded(AGE)[0]))
    n_cells = 0
    for rel in ('athlib/wma/wma-data-2015.json', 'athlib/wma/wma-data-2023.json'):
        d = repo.json(rel)
        ages = d['ages']
        cache = {}
        bad = []
        for g in ('m', 'f'):
            for row in d.get(g) or []:
                vals = row[3:]
                nn = [i for i, v in enumerate(vals) if isinstance(v, (int, float))]
                if not nn:
                    continue
                a = float(ages[nn[0]])
                end = nn[0]
                while end + 1 < len(vals) and isinstance(vals[end + 1], (int, float)):
                    end += 1                  # the first contiguous block (a hole further right is rule R5's finding)
                last = float(ages[end])
                while a <= last:
                    if a not in cache:
                        try:
                            cache[a] = fold.Folder().call(fc, [None, a if a != int(a) else int(a), ages], {})
                        except Exception as e:
                            raise AnalysisError('find_age is not foldable: %s: %s' % (type(e).__name__, e))
                    ax, ax1 = cache[a][0], cache[a][1]
                    n_cells += 1
                    if not (isinstance(vals[ax], (int, float)) and isinstance(vals[ax1], (int, float))):
                        bad.append((g, row[0], a if a != int(a) else int(a), ages[ax], ages[ax1]))
                        break
                    a += 0.5
        if bad:
            g, ev, a, c0, c1 = bad[0]
            ctx.finding('R9', '%s::null neighbour column read inside the covered ages' % rel, rel, None,
                        '%d rows of %s: at an age the row covers, find_age selects a column without a number; e.g. %s %s at age %s reads the columns of '
                        'ages %s and %s, and calculate_factor multiplies both cells (the null one with weight 0): TypeError' % (
                            len(bad), rel.split('/')[-1], g, ev, a, c0, c1), {'gender': g, 'event': ev, 'age': a})
        else:
            ctx.ok('R9', '%s: every covered age reads two numeric columns' % rel.split('/')[-1])
    ctx.count('(row, age) cells whose two columns were checked', n_cells)
    ctx.floor('covered-age cells', n_cells, 5000)


def classifier_case_rule(ctx, repo):
    """R10: calculate_factor / world_best classify the event code as given, before it is upper-cased for the table lookup.  For every
    tabulated code the classifier (folded: a loop of pattern matches on constants) must give its lower-case spelling the same kind."""
    from .. import fold
    ag = repo.module(AGE)
    cf_ = ag.func('AgeGrader.calculate_factor')
    # is the classifier applied to the raw parameter?
    evp = cf_.args.args[3].arg
    raw_call = None
    for st in cf_.body:
        for c in ast.walk(st):
            if isinstance(c, ast.Call) and call_name(c) == 'event_code_to_kind' and c.args and isinstance(c.args[0], ast.Name) and c.args[0].id == evp:
                raw_call = c
        if isinstance(st, ast.Assign) and isinstance(st.targets[0], ast.Name) and st.targets[0].id == evp and isinstance(st.value, ast.Call) \
                and call_name(st.value) in ('upper', 'lower'):
            break
    env_ = dict(repo.folded(AGE)[0])
    attrs = {}
    for st in ag.cls('AgeGrader').body:
        if isinstance(st, ast.FunctionDef) and any(isinstance(d, ast.Name) and d.id == 'staticmethod' for d in st.decorator_list):
            attrs[st.name] = fold.FuncConst(st, env_)
        elif isinstance(st, ast.Assign) and len(st.targets) == 1 and isinstance(st.targets[0], ast.Name):
            try:
                attrs[st.targets[0].id] = fold.Folder().expr(st.value, {})
            except Exception:
                pass
    # the statements of calculate_factor up to and including the upper-casing of the event
    prelude = []
    for st in cf_.body:
        if isinstance(st, ast.Expr) and isinstance(st.value, ast.Constant):
            continue
        prelude.append(st)
        if isinstance(st, ast.Assign) and isinstance(st.targets[0], ast.Name) and st.targets[0].id == evp and isinstance(st.value, ast.Call) \
                and call_name(st.value) in ('upper', 'lower'):
            break
    kvar = [st.targets[0].id for st in prelude if isinstance(st, ast.Assign) and isinstance(st.targets[0], ast.Name)
            and any(isinstance(c, ast.Call) and call_name(c) == 'event_code_to_kind' for c in ast.walk(st.value))]

    def outcome(code):
        env = dict(env_)
        env.update({'self': fold.ObjConst(attrs), evp: code, cf_.args.args[1].arg: 'm', cf_.args.args[2].arg: 40})
        F = fold.Folder(importer=repo.folded(AGE)[1].importer)
        try:
            for st in prelude:
                F.stmt(st, env)
        except fold._Raise:
            return '<refused>'
        except fold.Unfoldable as e:
            raise AnalysisError('prelude of calculate_factor is not foldable: %s' % e)
        kd = env.get(kvar[0]) if kvar else None
        return ('run' if kd in ('track', 'road') else kd, env.get(evp))      # track and road are both timed: the same formula
    refused, other = [], []
    n = 0
    for rel in ('athlib/wma/wma-data-2015.json', 'athlib/wma/wma-data-2023.json'):
        d = repo.json(rel)
        for g in ('m', 'f'):
            for row in d.get(g) or []:
                k = row[0]
                if not isinstance(k, str) or k.lower() == k:
                    continue
                n += 1
                a, b = outcome(k), outcome(k.lower())
                if a == b:
                    continue
                (refused if b == '<refused>' else other).append((k, a, b))
    ctx.count('tabulated codes whose lower-case spelling was classified', n)
    ctx.floor('tabulated codes classified in both cases', n, 100)
    rk = sorted({x[0] for x in refused})
    if rk:
        ctx.finding('R10', '%s::AgeGrader.calculate_factor::lower-case spellings refused by the classifier: %s' % (AGE, ' '.join(x.lower() for x in rk)),
                    AGE, raw_call.lineno if raw_call else cf_.lineno,
                    'the event code is classified (event_code_to_kind) before it is upper-cased; %d tabulated codes are refused with ValueError in '
                    'lower case, e.g. %s: codes differing only in letter case do not give the same factor'
                    % (len(rk), ', '.join(repr(b.lower()) for b in rk[:6])), rk[0].lower())
    ok_ = sorted({x[0] for x in other})
    if ok_:
        k, a, b = [x for x in other if x[0] == ok_[0]][0]
        ctx.finding('R10', '%s::AgeGrader.calculate_factor::lower-case spellings graded as another event' % AGE, AGE, cf_.lineno,
                    '%d tabulated codes are graded as another event in lower case: %r is looked up as %r (kind %s) while %r is looked up as %r (kind %s): '
                    'codes differing only in letter case silently get another factor and best' % (len(ok_), k, a[1], a[0], k.lower(), b[1], b[0]), k.lower())
    if not rk and not ok_:
        ctx.ok('R10', 'every tabulated code is classified and looked up alike in both cases (%d codes)' % n)


def age_coercion_rule(ctx, repo):
    """R11: half-integer ages are part of the domain and calculate_factor interpolates them; no method of AgeGrader re-binds its age
    parameter through int() / round() / floor() / ceil() (a truncation in one method only makes grade != standard / performance)"""
    ag = repo.module(AGE)
    n = 0
    for q, fn in ag.functions.items():
        if not q.startswith('AgeGrader.'):
            continue
        params = {a.arg for a in fn.args.args}
        if 'age' not in params:
            continue
        n += 1
        for a in ast.walk(fn):
            if isinstance(a, ast.Assign) and any(isinstance(t, ast.Name) and t.id == 'age' for t in a.targets) and any(
                    isinstance(c, ast.Call) and call_name(c) in ('int', 'round', 'floor', 'ceil', 'trunc') and any(
                        isinstance(x, ast.Name) and x.id == 'age' for x in ast.walk(c)) for c in ast.walk(a.value)):
                ctx.finding('R11', '%s::%s::age truncated' % (AGE, q), AGE, a.lineno,
                            '%s re-binds its age through `%s`: a fractional age (47.5) is truncated in this method while calculate_factor '
                            'interpolates it, so the grade no longer equals (best / factor) / performance' % (q, unparse(a)), 'age 47.5')
    ctx.count('AgeGrader methods with an age parameter', n)
    if not any(f.rule == 'R11' for f in ctx.findings):
        ctx.ok('R11', 'no AgeGrader method truncates its age parameter (%d methods)' % n)


def wrapper_rules(ctx, repo):
    """R7: the public wrappers choose the same table for the same `year`, and their defaults choose the same table (grade = best / factor
    / performance only holds inside one table).  R8: the gender normaliser maps the spellings of the statement to the right letter.
    Both by constant folding of the small pure expressions involved (never by importing athlib)."""
    from .. import fold
    init = repo.module('athlib/__init__.py')
    F = fold.Folder()
    picks = {}
    for q in ('wma_age_grade', 'wma_age_factor', 'wma_world_best'):
        if not init.has_func(q):
            raise AnalysisError('anchor vanished: athlib.%s' % q)
        fn = init.func(q)
        sel = [a for a in fn.body if isinstance(a, ast.Assign) and len(a.targets) == 1 and isinstance(a.targets[0], ast.Name)
               and any(isinstance(x, ast.Name) and x.id in ('ag2015', 'ag2023') for x in ast.walk(a.value))]
        ypar = [a.arg for a in fn.args.args if a.arg == 'year']
        if not sel or not ypar:
            raise AnalysisError('%s: table selection by year not found' % q)
        a_ = fn.args
        defaults = dict(zip([x.arg for x in a_.args[len(a_.args) - len(a_.defaults):]], a_.defaults))
        dflt = defaults.get('year')
        dv = dflt.value if isinstance(dflt, ast.Constant) else None
        row = {}
        for label, y in (('default', dv), ('2015', 2015), ("'2015'", '2015'), ('2023', 2023), ("'2023'", '2023')):
            try:
                row[label] = F.expr(sel[0].value, {'year': y, 'ag2015': 'table 2015', 'ag2023': 'table 2023', 'ag': 'table 2023'})
            except Exception as e:
                raise AnalysisError('%s: table selection not foldable: %s' % (q, e))
        picks[q] = row
    for label in ('default', '2015', "'2015'", '2023', "'2023'"):
        vals = {q: picks[q][label] for q in picks}
        if len(set(vals.values())) == 1:
            ctx.ok('R7', 'year %s: all three wrappers use %s' % (label, list(vals.values())[0]))
        else:
            ctx.finding('R7', 'athlib/__init__.py::wrappers::table chosen for year %s' % label, 'athlib/__init__.py', init.func('wma_age_factor').lineno,
                        'for year = %s the wrappers choose different tables (%s): the grade, the best and the factor of one call sequence come '
                        'from different tables, so grade != (best / factor) / performance' % (label, vals), vals)
    # R12 the shared graders built at import load the table their name and argument say (constructor folded on the actual arguments)
    ag = repo.module(AGE)
    ctx.rule('R12', 'every module-level AgeGrader(year=Y) of athlib/__init__.py loads wma-data-Y.json, an existing file (constructor folded)')
    ctor = ag.func('AgeGrader.__init__') if ag.has_func('AgeGrader.__init__') else None
    n_inst = 0
    if ctor is not None:
        cls_consts = {}
        for st in ag.cls('AgeGrader').body:
            if isinstance(st, ast.Assign) and len(st.targets) == 1 and isinstance(st.targets[0], ast.Name) and isinstance(st.value, ast.Constant):
                cls_consts[st.targets[0].id] = st.value.value
        env_mod0 = {k: v for k, v in repo.folded(AGE)[0].items()}
        for st in init.tree.body:
            if not (isinstance(st, ast.Assign) and isinstance(st.value, ast.Call) and call_name(st.value) == 'AgeGrader'):
                continue
            call = st.value
            try:
                args = [F.expr(a, {}) for a in call.args]
                kw = {k.arg: F.expr(k.value, {}) for k in call.keywords}
            except Exception:
                continue
            n_inst += 1
            year = kw.get('year', args[0] if args else None)
            me = fold.ObjConst(dict(cls_consts))
            try:
                fold.Folder().call(fold.FuncConst(ctor, env_mod0), [me] + args, kw)
            except fold._Raise as ex_:
                ctx.finding('R12', 'athlib/__init__.py::%s::constructor refuses' % unparse(call), 'athlib/__init__.py', st.lineno,
                            'AgeGrader.__init__ raises %s for the arguments athlib/__init__.py passes: the package does not import' % ex_.name)
                continue
            except Exception as e:
                raise AnalysisError('AgeGrader.__init__ not foldable: %s' % e)
            fname = me.attrs.get('data_file_name')
            names = [t.id for t in st.targets if isinstance(t, ast.Name)]
            path = os.path.join(repo.root, 'athlib', 'wma', str(fname))
            if year is not None and (str(year) not in str(fname) or not os.path.isfile(path)):
                ctx.finding('R12', 'athlib/__init__.py::%s::table loaded' % '/'.join(names), 'athlib/__init__.py', st.lineno,
                            '%s = %s loads %r%s: the shared grader that the wrappers use for year %s grades with another table'
                            % (' = '.join(names), unparse(call), fname, '' if os.path.isfile(path) else ' (no such file)', year), str(year))
            else:
                ctx.ok('R12', '%s loads %s' % ('/'.join(names), fname))
    ctx.floor('module-level graders whose constructor was folded', n_inst, 2)
    # R8 gender spellings
    ng = ag.func('AgeGrader.normalize_gender')
    env_mod = {k: v for k, v in repo.folded(AGE)[0].items()}
    fc = fold.FuncConst(ng, env_mod)
    want = {'m': 'm', 'M': 'm', 'male': 'm', 'Male': 'm', 'MALE': 'm', 'f': 'f', 'F': 'f', 'female': 'f', 'Female': 'f', 'FEMALE': 'f'}
    n_ok = 0
    for sp, w in sorted(want.items()):
        try:
            got = fold.Folder().call(fc, [sp], {})
        except fold._Raise:
            got = '<raises>'
        except fold.Unfoldable as e:
            raise AnalysisError('normalize_gender is not foldable: %s' % e)
        except Exception as e:
            got = '<raises %s>' % type(e).__name__
        if got == w:
            n_ok += 1
        else:
            ctx.finding('R8', '%s::AgeGrader.normalize_gender::spelling %s' % (AGE, sp), AGE, ng.lineno,
                        'normalize_gender(%r) gives %r, not %r: the spelling is graded with the other gender\'s table (or refused)' % (sp, got, w), sp)
    if n_ok == len(want):
        ctx.ok('R8', 'normalize_gender maps the %d spellings of the statement to the right letter' % n_ok)
    ctx.count('gender spellings folded through normalize_gender', len(want))


def age_clamps(ctx, repo, mod, rule):
    """an upper clamp of the age against a class constant must not cut off columns the tables have"""
    # ---- age clamps against a class constant: the constant must not cut off columns the tables have
    clamps = []
    for cname in ('AgeGrader', 'AthlonsAgeGrader'):
        cls = mod.cls(cname)
        consts = {}
        for base in (mod.cls('AgeGrader'), cls):
            for st in base.body:
                if isinstance(st, ast.Assign) and isinstance(st.value, ast.Constant) and isinstance(st.value.value, (int, float)):
                    for t in st.targets:
                        if isinstance(t, ast.Name):
                            consts[t.id] = st.value.value
        for f in cls.body:
            if not isinstance(f, ast.FunctionDef):
                continue
            for n in ast.walk(f):
                for a in ast.walk(n) if isinstance(n, (ast.Compare, ast.Call)) else []:
                    if isinstance(a, ast.Attribute) and isinstance(a.value, ast.Name) and a.value.id == 'self' and a.attr in consts \
                            and 'age' in {x.id for x in ast.walk(n) if isinstance(x, ast.Name)}:
                        upper = (isinstance(n, ast.Call) and call_name(n) == 'min') or (isinstance(n, ast.Compare) and isinstance(n.ops[0], (ast.Gt, ast.GtE)))
                        clamps.append((cname, f.name, a.attr, consts[a.attr], n, upper))
    lastages = {rel: repo.json(rel)['ages'][-1] for rel, off in TABLES}
    seenc = set()
    for cname, fname, attr, val, n, upper in clamps:
        if (cname, fname, attr) in seenc or not upper:
            continue
        seenc.add((cname, fname, attr))
        tabs = [rel for rel in lastages if ('athlons' in rel) == (cname == 'AthlonsAgeGrader') or (fname == 'find_age')]
        short = [(rel, lastages[rel]) for rel in tabs if val < lastages[rel]]
        if short:
            ctx.finding(rule, '%s::%s.%s::age clamped to %s' % (AGE, cname, fname, attr), AGE, n.lineno,
                        '%s.%s clamps the age to self.%s = %s, but %s runs to age %s: the columns beyond %s are never used and those ages get '
                        'the factor of age %s' % (cname, fname, attr, val, short[0][0], short[0][1], val, val), 'age %s' % short[0][1])
        else:
            ctx.ok(rule, '%s.%s: clamp self.%s = %s is not below the last tabulated age' % (cname, fname, attr, val))
