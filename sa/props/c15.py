"""C15 — WMA interpolation between distances is order-preserving (thin: clamp does not fail, convex form, data)."""
import ast
import copy
import math
from fractions import Fraction

from ..core import AnalysisError
from ..src import call_name, stmt_key, unparse
from .c03 import resolve_locals, subst

LEVEL = 'other'
AGE = 'athlib/wma/agegrader.py'
TABLES = ['athlib/wma/wma-data-2015.json', 'athlib/wma/wma-data-2023.json']


def index_tokens(fn):
    """the two expressions through which the two row indices of find_row_by_distance reach the function: either
    attributes self._fx / self._fx1 or the first two names of a tuple unpacked from the call"""
    for n in ast.walk(fn):
        if isinstance(n, ast.Assign) and isinstance(n.value, ast.Call) and call_name(n.value) == 'find_row_by_distance' \
                and isinstance(n.targets[0], ast.Tuple) and len(n.targets[0].elts) >= 2:
            return ast.unparse(n.targets[0].elts[0]), ast.unparse(n.targets[0].elts[1])
    return 'self._fx', 'self._fx1'


def index_roles(fn):
    """{name: 'lo' | 'hi'} for locals of fn that derive (through local definitions) from exactly one of the two row indices"""
    i0, i1 = index_tokens(fn)
    defs = {}
    for n in ast.walk(fn):
        if isinstance(n, ast.Assign) and len(n.targets) == 1 and isinstance(n.targets[0], ast.Name):
            defs.setdefault(n.targets[0].id, []).append(n.value)
    roles = {}
    pf = None
    for n in ast.walk(fn):
        if isinstance(n, ast.Assign) and isinstance(n.value, ast.Call) and call_name(n.value) == 'find_row_by_distance' \
                and isinstance(n.targets[0], ast.Tuple) and len(n.targets[0].elts) >= 3:
            pf = ast.unparse(n.targets[0].elts[2])
    changed = True
    while changed:
        changed = False
        for nm, vals in defs.items():
            if nm in roles or nm in (i0, i1):
                continue
            for v in vals:
                txt = ast.unparse(v)
                toks = {x.id for x in ast.walk(v) if isinstance(x, ast.Name)} | ({i0} if i0 in txt else set()) | ({i1} if i1 in txt else set())
                lo = (i0 in toks and not (i1 in toks)) if not i1.startswith(i0) else (i0 in toks and i1 not in txt)
                # careful with textual prefixes (fx / fx1): test the longer token first
                has_hi = i1 in txt or any(roles.get(t) == 'hi' for t in toks)
                has_lo = (txt.replace(i1, '') .find(i0) >= 0) or any(roles.get(t) == 'lo' for t in toks)
                if has_hi and not has_lo:
                    roles[nm] = 'hi'
                    changed = True
                elif has_lo and not has_hi:
                    roles[nm] = 'lo'
                    changed = True
    return roles, pf or 'self._pfac'


def poly(e, env=None):
    """polynomial normal form {monomial(tuple of sorted names): Fraction} of an arithmetic expression"""
    if isinstance(e, ast.Constant) and isinstance(e.value, (int, float)):
        return {(): Fraction(e.value).limit_denominator(10 ** 9)}
    if isinstance(e, (ast.Name, ast.Attribute, ast.Call, ast.Subscript)):
        return {(ast.unparse(e),): Fraction(1)}
    if isinstance(e, ast.UnaryOp) and isinstance(e.op, ast.USub):
        return {k: -v for k, v in poly(e.operand).items()}
    if isinstance(e, ast.BinOp) and isinstance(e.op, (ast.Add, ast.Sub)):
        a, b = poly(e.left), poly(e.right)
        out = dict(a)
        for k, v in b.items():
            out[k] = out.get(k, 0) + (v if isinstance(e.op, ast.Add) else -v)
        return {k: v for k, v in out.items() if v != 0}
    if isinstance(e, ast.BinOp) and isinstance(e.op, ast.Mult):
        a, b = poly(e.left), poly(e.right)
        out = {}
        for k1, v1 in a.items():
            for k2, v2 in b.items():
                k = tuple(sorted(k1 + k2))
                out[k] = out.get(k, 0) + v1 * v2
        return {k: v for k, v in out.items() if v != 0}
    raise AnalysisError('not a polynomial: %s' % ast.unparse(e))


def convex(t, a, b):
    """polynomial of (1 - t) * a + t * b over symbol names"""
    out = {(a,): Fraction(1), tuple(sorted((t, a))): Fraction(-1), tuple(sorted((t, b))): Fraction(1)}
    return out


def run(ctx, repo):
    mod = repo.module(AGE)
    ctx.explanation = (
        'Thin, structural: (R1) find_row_by_distance can return two equal row indices at either end of the table, so every '
        'division by a difference of two quantities that are the same function of the two indices must be guarded by a test '
        'that they differ - found by value numbering whether the indices travel as attributes or as a returned tuple; '
        '(R2) both interpolations are convex combinations (1-t)*a + t*b in polynomial normal form with the shorter event at '
        't=0; (R3) data: the row "50" that starts the running block exists, running distances and standards are positive (the '
        'rows are two blocks, track then road, so no global ordering is required: the scan stops at the first row not '
        'shorter than the distance, which makes the bracketing rows differ).  Betweenness and monotonicity along the distance axis are numeric and not decided.')
    ctx.rule('R1', 'no unguarded division by a difference of index-symmetric quantities after find_row_by_distance')
    ctx.rule('R2', 'factor and speed interpolations are convex combinations with the shorter event at t = 0')
    ctx.rule('R4', 'get_distance scales the quantity by the unit before truncating')
    ctx.rule('R5', 'a neighbour row without a distance counts as an end of the table (nearest end is used)')
    ctx.rule('R6', 'below the first running row: either the lower-end arm of find_row_by_distance compares the scan index with the first '
                   'running row, or calculate_factor tests the neighbour\'s distance before it evaluates the neighbour\'s factor')
    ctx.rule('R7', 'every bare whole-metre distance is classified as a running event by event_code_to_kind (automata inclusion)')
    ctx.rule('R9', 'the scan of find_row_by_distance runs to len(table) with no other exit')
    ctx.rule('R11', 'world_best returns, for a tabulated event, the cell of its table row (one source for the open best)')
    ctx.rule('R10', 'every return of the untabulated-distance fallback of calculate_factor is computed from neighbour factors')
    ctx.rule('R8', 'data: the km column of every running row equals the distance its code denotes (get_distance folded on the code)')
    ctx.rule('R3', 'data: row "50" present per gender; running distances and standards positive')
    frd = mod.func('AgeGrader.find_row_by_distance')
    # can the two indices be equal?  (chained assignment of both from one value)
    equal_arms = 0
    for n in ast.walk(frd):
        if isinstance(n, ast.Assign) and len(n.targets) >= 2:
            names = [ast.unparse(t) for t in n.targets]
            if any(x.endswith('fx') for x in names) and any(x.endswith('fx1') for x in names):
                equal_arms += 1
    ctx.note('arms of find_row_by_distance that return equal indices', equal_arms)
    n_div = 0
    for q in ('AgeGrader.calculate_factor', 'AgeGrader.world_best'):
        fn = mod.func(q)
        if not any(isinstance(c, ast.Call) and call_name(c) == 'find_row_by_distance' for c in ast.walk(fn)):
            continue
        i0, i1 = index_tokens(fn)
        env = resolve_locals(fn)
        # locals defined inside the except handler / nested blocks too
        for n in ast.walk(fn):
            if isinstance(n, ast.Assign) and len(n.targets) == 1 and isinstance(n.targets[0], ast.Name) and n.targets[0].id not in env:
                env[n.targets[0].id] = n.value
            elif isinstance(n, ast.Assign) and len(n.targets) == 1 and isinstance(n.targets[0], ast.Name):
                # prefer non-trivial definitions; keep first
                pass
        for d in ast.walk(fn):
            if isinstance(d, ast.BinOp) and isinstance(d.op, ast.Div) and isinstance(d.right, ast.BinOp) and isinstance(d.right.op, ast.Sub):
                a, b = d.right.left, d.right.right
                ta = ast.unparse(subst(a, env))
                tb = ast.unparse(subst(b, env))
                if i1 not in ta and i1 not in tb and i0 not in ta and i0 not in tb:
                    continue
                n_div += 1
                # same function of the two indices?
                sym = ta.replace(i1, '@').replace(i0, '@') == tb.replace(i1, '@').replace(i0, '@') and ta != tb
                if not sym or not equal_arms:
                    ctx.ok('R1', '%s: denominator %s is not index-symmetric' % (q, unparse(d.right)))
                    continue
                # guard: an earlier test that the indices / quantities differ
                guarded = False
                an, bn = ast.unparse(a), ast.unparse(b)
                for g in ast.walk(fn):
                    if isinstance(g, ast.If) and g.lineno < d.lineno and isinstance(g.test, ast.Compare) and len(g.test.ops) == 1:
                        l, r = ast.unparse(g.test.left), ast.unparse(g.test.comparators[0])
                        pair = {l, r}
                        if pair in ({i0, i1}, {an, bn}, {i0.replace('self.', ''), i1.replace('self.', '')}):
                            if isinstance(g.test.ops[0], ast.Eq) and isinstance(g.body[-1], (ast.Return, ast.Raise)):
                                guarded = True
                            if isinstance(g.test.ops[0], ast.NotEq) and any(x is d for s in g.body for x in ast.walk(s)):
                                guarded = True
                if guarded:
                    ctx.ok('R1', '%s: division by %s guarded by an index/quantity inequality test' % (q, unparse(d.right)))
                else:
                    ctx.finding('R1', '%s::%s::division by %s' % (AGE, q, unparse(d.right)), AGE, d.lineno,
                                '%s divides by %s; both are the same function of the two row indices returned by find_row_by_distance, '
                                'which are equal for a distance beyond either end of the table: ZeroDivisionError instead of using '
                                'the nearest end' % (q, unparse(d.right)), "wma_age_factor('m', 50, '300000')")
    ctx.floor('divisions by index-derived differences examined', n_div, 1)
    # ---- R2 convex combinations
    cf = mod.func('AgeGrader.calculate_factor')
    rets = [n for n in ast.walk(cf) if isinstance(n, ast.Return) and isinstance(n.value, ast.Name) and 'interpol' in n.value.id]
    envc = {}
    for n in ast.walk(cf):
        if isinstance(n, ast.Assign) and len(n.targets) == 1 and isinstance(n.targets[0], ast.Name):
            envc.setdefault(n.targets[0].id, []).append(n.value)
    done = False
    roles_cf, _ = index_roles(cf)

    def sides(syms):
        lo = [x for x in syms if roles_cf.get(x) == 'lo']
        hi = [x for x in syms if roles_cf.get(x) == 'hi']
        return lo, hi
    fracn = None
    for name, vals in envc.items():
        for v in vals:
            if isinstance(v, ast.BinOp) and isinstance(v.op, ast.Div) and isinstance(v.right, ast.BinOp) and isinstance(v.right.op, ast.Sub):
                rs = {x.id for x in ast.walk(v.right) if isinstance(x, ast.Name)}
                lo, hi = sides(rs)
                if lo and hi:
                    fracn = name
    for name, vals in envc.items():
        for v in vals:
            try:
                p = poly(v)
            except AnalysisError:
                continue
            syms = sorted({x for k in p for x in k})
            if len(syms) == 3 and fracn in syms:
                t = fracn
                lo, hi = sides([x for x in syms if x != t])
                if lo and hi:
                    done = True
                    if p == convex(t, lo[0], hi[0]):
                        ctx.ok('R2', 'calculate_factor: %s = (1 - %s) * %s + %s * %s' % (name, t, lo[0], t, hi[0]))
                    else:
                        ctx.finding('R2', '%s::AgeGrader.calculate_factor::convex interpolation of factors' % AGE, AGE, v.lineno,
                                    '%s = %s is not the convex combination (1 - %s) * <shorter> + %s * <longer>: the interpolated factor can '
                                    'leave the interval between its neighbours, or the ends are swapped' % (name, unparse(v), t, t))
    if not done:
        ctx.finding('R2', '%s::AgeGrader.calculate_factor::convex interpolation of factors' % AGE, AGE, cf.lineno,
                    'no interpolation of the form (1 - t) * factor_shorter + t * factor_longer found')
    # t = (distance - d_shorter) / (d_longer - d_shorter)
    fr = [v for v in envc.get(fracn, []) if isinstance(v, ast.BinOp)] if fracn else []
    ok = False

    def role_of(e):
        rs = [roles_cf.get(x.id) for x in ast.walk(e) if isinstance(x, ast.Name) and roles_cf.get(x.id)]
        return rs[0] if len(set(rs)) == 1 else None
    if len(fr) >= 2:
        first, second = fr[0], fr[1]
        if isinstance(first.op, ast.Sub) and role_of(first.right) == 'lo' and isinstance(second.op, ast.Div) \
                and isinstance(second.right, ast.BinOp) and isinstance(second.right.op, ast.Sub) \
                and role_of(second.right.left) == 'hi' and role_of(second.right.right) == 'lo':
            ok = True
    elif len(fr) == 1 and isinstance(fr[0].op, ast.Div):
        l, r = fr[0].left, fr[0].right
        if isinstance(l, ast.BinOp) and isinstance(l.op, ast.Sub) and role_of(l.right) == 'lo' and isinstance(r, ast.BinOp) \
                and isinstance(r.op, ast.Sub) and role_of(r.left) == 'hi' and role_of(r.right) == 'lo':
            ok = True
    if ok:
        ctx.ok('R2', 't = (d - d_shorter) / (d_longer - d_shorter)')
    else:
        ctx.finding('R2', '%s::AgeGrader.calculate_factor::interpolation fraction' % AGE, AGE, cf.lineno,
                    'the interpolation fraction is not (distance - distance_shorter) / (distance_longer - distance_shorter): %s' % [unparse(v) for v in fr])
    wb = mod.func('AgeGrader.world_best')
    done = False
    roles_wb, pftok = index_roles(wb)
    for n in ast.walk(wb):
        if isinstance(n, ast.Assign) and len(n.targets) == 1 and isinstance(n.targets[0], ast.Name):
            try:
                p = poly(n.value)
            except AnalysisError:
                continue
            syms = sorted({x for k in p for x in k})
            t = [x for x in syms if x == pftok]
            lo = [x for x in syms if roles_wb.get(x) == 'lo']
            hi = [x for x in syms if roles_wb.get(x) == 'hi']
            if t and lo and hi and len(syms) == 3:
                done = True
                if p == convex(t[0], lo[0], hi[0]):
                    ctx.ok('R2', 'world_best: speed = (1 - pfac) * v_shorter + pfac * v_longer')
                else:
                    ctx.finding('R2', '%s::AgeGrader.world_best::convex interpolation of speeds' % AGE, AGE, n.lineno,
                                '%s is not the convex combination (1 - pfac) * v_shorter + pfac * v_longer: the interpolated best '
                                'can leave the interval between its neighbours' % unparse(n))
    if not done:
        ctx.finding('R2', '%s::AgeGrader.world_best::convex interpolation of speeds' % AGE, AGE, wb.lineno, 'no speed interpolation found')
    # pfac in find_row_by_distance = (d - d[fx]) / (d[fx1] - d[fx])
    # the three names by their role: the function returns (index of the shorter row, index of the longer row, fraction)
    rets = [r.value for r in ast.walk(frd) if isinstance(r, ast.Return) and isinstance(r.value, ast.Tuple) and len(r.value.elts) == 3
            and all(isinstance(x, ast.Name) for x in r.value.elts)]
    lo_n, hi_n, fr_n = (rets[0].elts[0].id, rets[0].elts[1].id, rets[0].elts[2].id) if rets else ('fx', 'fx1', 'pfac')
    pf = [n.value for n in ast.walk(frd) if isinstance(n, ast.Assign) and any(ast.unparse(t) == fr_n for t in n.targets)
          and any(isinstance(b, ast.BinOp) and isinstance(b.op, ast.Div) for b in ast.walk(n.value))]
    ok = False

    def _strip_float(e):
        while isinstance(e, ast.Call) and call_name(e) == 'float' and len(e.args) == 1:
            e = e.args[0]
        return e

    _once = {}
    for a_ in ast.walk(frd):
        if isinstance(a_, ast.Assign) and len(a_.targets) == 1 and isinstance(a_.targets[0], ast.Name):
            _once.setdefault(a_.targets[0].id, []).append(a_.value)
    _once = {k: v[0] for k, v in _once.items() if len(v) == 1}

    def _deref(e):
        # a temporary assigned once (km = table[fx][x]) stands for its value
        k = 0
        while isinstance(e, ast.Name) and e.id in _once and k < 4:
            e = _once[e.id]
            k += 1
        return e

    def _cell(e, idx):
        # T[idx][c]
        e = _deref(e)
        return isinstance(e, ast.Subscript) and isinstance(e.value, ast.Subscript) and isinstance(e.value.slice, ast.Name) and e.value.slice.id == idx
    for v in pf:
        divs = [b for b in ast.walk(v) if isinstance(b, ast.BinOp) and isinstance(b.op, ast.Div)]
        for dv in divs:
            num, den = _strip_float(dv.left), _strip_float(dv.right)
            if isinstance(den, ast.BinOp) and isinstance(den.op, ast.Sub) and _cell(den.left, hi_n) and _cell(den.right, lo_n) \
                    and isinstance(num, ast.BinOp) and isinstance(num.op, ast.Sub) and _cell(num.right, lo_n) and isinstance(_strip_float(num.left), ast.Name) \
                    and ast.dump(_deref(num.right)) == ast.dump(_deref(den.right)) \
                    and ast.dump(_deref(den.left).slice) == ast.dump(_deref(den.right).slice) \
                    and ast.dump(_deref(den.left).value.value) == ast.dump(_deref(den.right).value.value):
                ok = True
    if ok:
        ctx.ok('R2', 'pfac = (d - d[fx]) / (d[fx1] - d[fx])')
    else:
        ctx.finding('R2', '%s::AgeGrader.find_row_by_distance::pfac' % AGE, AGE, frd.lineno,
                    'pfac is not (d - table[fx][x]) / (table[fx1][x] - table[fx][x]): %s' % [unparse(v) for v in pf])
    # ---- R4 get_distance: the quantity is scaled before it is truncated (N.dK spellings keep their fraction)
    umod = repo.module('athlib/utils.py')
    gd = umod.func('get_distance')
    n_unit = 0
    for r in ast.walk(gd):
        if isinstance(r, ast.Return) and r.value is not None and 'qty' in ast.unparse(r.value):
            n_unit += 1
            v = r.value
            if isinstance(v, ast.BinOp) and isinstance(v.op, ast.Mult):
                sides = [v.left, v.right]
                trunc = [x for x in sides if isinstance(x, ast.Call) and call_name(x) in ('int', 'floor', 'trunc', 'round') and 'qty' in ast.unparse(x)]
                if trunc:
                    ctx.finding('R4', 'athlib/utils.py::get_distance::%s' % unparse(v), 'athlib/utils.py', r.lineno,
                                'get_distance truncates the quantity before scaling it (%s): the fraction of a spelling such as 10.5K is dropped, '
                                'so 10.5K is graded as 10000 m and the open best no longer increases with the distance' % unparse(v), '10.5K')
                    continue
            if isinstance(v, ast.Call) and call_name(v) == 'int':
                ctx.ok('R4', 'get_distance: %s scales before truncating' % unparse(v))
    if n_unit < 5:
        # the units are not written as returns of a chain (lookup tables ...): decided on the folded function over the unit suffixes it
        # knows - one unit and two and a half units of each: the fraction must survive the scaling
        from .. import fold as _foldu
        try:
            uenv_, ufolder_ = repo.folded('athlib/utils.py')
            gd_fc_ = uenv_.get('get_distance')
            def _gd(code):
                try:
                    return _foldu.Folder(importer=ufolder_.importer).call(gd_fc_, [code], {})
                except Exception:
                    return None
            n_unit = 0
            for sfx in ('m', 'k', 'K', 'km', 'M', 'Mi', 'MI', 'MT', 'Y', 'y', 'YD', 'yd'):
                one = _gd('1' + sfx)
                if not isinstance(one, (int, float)) or one < 1:
                    continue
                n_unit += 1
                two_half = _gd('2.5' + sfx)
                unit = _gd('1000' + sfx)
                if isinstance(unit, (int, float)) and two_half != int(2.5 * unit / 1000.0) and two_half != int(round(2.5 * unit / 1000.0, 6)):
                    ctx.finding('R4', 'athlib/utils.py::get_distance::unit %s truncates the quantity' % sfx, 'athlib/utils.py', gd.lineno,
                                'get_distance(%r) is %r but 1000 units are %r m: the fraction of the quantity is dropped before the scaling, so N.d%s '
                                'spellings are graded as a shorter distance' % ('2.5' + sfx, two_half, unit, sfx), '2.5' + sfx)
                else:
                    ctx.ok('R4', 'get_distance: the unit %s keeps the fraction of the quantity (folded)' % sfx)
        except Exception as e_:
            ctx.info('get_distance is not foldable (%s); unit scaling not decided by folding' % e_)
    ctx.floor('unit arms of get_distance', n_unit, 5)
    # ---- R5 a neighbour without a distance (the field row before "50", or a code get_distance cannot read) is an end of the table
    want = {'lo': 'hi', 'hi': 'lo'}
    label = {'lo': 'shorter', 'hi': 'longer'}
    found = {}
    ev_side = {}        # event-code variable -> side, through get_distance(event_var) defining that side's distance
    for nm, vs in envc.items():
        for a in vs:
            if isinstance(a, ast.Call) and call_name(a) == 'get_distance' and a.args and isinstance(a.args[0], ast.Name) and roles_cf.get(nm):
                ev_side[a.args[0].id] = roles_cf[nm]
    for n in ast.walk(cf):
        if isinstance(n, ast.If) and isinstance(n.test, ast.Compare) and isinstance(n.test.ops[0], ast.Is) \
                and isinstance(n.test.comparators[0], ast.Constant) and n.test.comparators[0].value is None and isinstance(n.body[-1], ast.Return) \
                and isinstance(n.test.left, ast.Name) and isinstance(n.body[-1].value, (ast.Name, ast.Call)):
            side = roles_cf.get(n.test.left.id)
            rv = n.body[-1].value
            isdist = any(isinstance(v, ast.Call) and call_name(v) == 'get_distance' for v in envc.get(n.test.left.id, []))
            if isinstance(rv, ast.Name):
                other = roles_cf.get(rv.id)
                isfac = any(isinstance(v, ast.Call) and call_name(v) == 'calculate_factor' for v in envc.get(rv.id, []))
            else:
                # return self.calculate_factor(gender, age, event_of_the_other_side)
                isfac = call_name(rv) == 'calculate_factor' and bool(rv.args) and isinstance(rv.args[-1], ast.Name)
                other = ev_side.get(rv.args[-1].id) if isfac else None
            if side and other and want[side] == other and isdist and isfac:
                found[side] = True
    for side, other in want.items():
        if found.get(side):
            ctx.ok('R5', 'a %s neighbour without a distance returns the %s neighbour\'s factor' % (label[side], label[other]))
        else:
            ctx.finding('R5', '%s::AgeGrader.calculate_factor::%s neighbour without a distance' % (AGE, label[side]), AGE, cf.lineno,
                        'when the %s neighbour has no distance (below 50 m it is the field row that precedes "50" in the table) the %s '
                        'neighbour\'s factor must be returned; that guard is gone, so the factor is blended with a throwing event\'s' % (
                            label[side], label[other]), "wma_age_factor('m', 60, '20')")
    # ---- R6 the lower end of the scan is the first running row, not row 0: find_row_by_distance skips to the row "50" and scans on; the
    # "shorter than everything" arm must test the index against where the scan started
    skip = scan = None
    for n in ast.walk(frd):
        if isinstance(n, ast.While):
            cs = [c for c in ast.walk(n.test) if isinstance(c, ast.Compare)]
            if any(isinstance(c.ops[0], ast.NotEq) and isinstance(c.comparators[0], ast.Constant) and isinstance(c.comparators[0].value, str)
                   for c in cs):
                skip = n
            elif any(isinstance(c.ops[0], (ast.Lt, ast.LtE)) and isinstance(c.left, ast.Subscript) for c in cs):
                scan = n
    if scan is None:
        # the scan is not a while loop (for / else, next(...)): decided by folding find_row_by_distance on the bundled tables over the
        # complete set of orderings of the target against the tabulated distances - every tabulated distance, one metre past each,
        # and past the last - the result must bracket the target, and be the last row twice beyond the table
        from .. import fold as _foldr
        fc_ = _foldr.FuncConst(frd, dict(repo.folded(AGE)[0]))
        bad_r, n_r = None, 0
        try:
            for rel in TABLES:
                d_ = repo.json(rel)
                for g_ in ('m', 'f'):
                    rows_ = d_.get(g_) or []
                    codes_ = [r[0] for r in rows_]
                    if '50' not in codes_:
                        continue
                    run_ = [r[1] for r in rows_[codes_.index('50'):] if isinstance(r[1], (int, float))]
                    probes = sorted({round(x * 1000) for x in run_} | {round(x * 1000) + 1 for x in run_} | {round(max(run_) * 1000) + 5000})
                    for dm in probes:
                        if dm < round(min(run_) * 1000):
                            continue
                        n_r += 1
                        r_ = _foldr.Folder().call(fc_, [None, dm, rows_], {})
                        fx_, fx1_ = r_[0], r_[1]
                        km = dm / 1000.0
                        if km > max(run_):
                            ok_ = fx_ == fx1_ == len(rows_) - 1
                        else:
                            ok_ = rows_[fx_][1] <= km <= rows_[fx1_][1] and 0 <= fx1_ - fx_ <= 1
                        if not ok_ and bad_r is None:
                            bad_r = (rel, g_, dm, (fx_, fx1_))
        except Exception as e_:
            raise AnalysisError('find_row_by_distance: scan loop not found and the function does not fold (%s: %s)' % (type(e_).__name__, e_))
        ctx.count('find_row_by_distance folded on (table, distance) probes', n_r)
        if bad_r:
            ctx.finding('R9', '%s::AgeGrader.find_row_by_distance::scan does not cover the whole table' % AGE, AGE, frd.lineno,
                        'for %s %s and %d m find_row_by_distance returns the rows %s, which do not bracket the distance (or are not the last row '
                        'beyond the table)' % (bad_r[0].split('/')[-1], bad_r[1], bad_r[2], bad_r[3]), bad_r[2])
        else:
            ctx.ok('R9', 'find_row_by_distance brackets every probe distance and clamps to the last row beyond the table (%d folded calls)' % n_r)
        ctx.info('R6: the scan of find_row_by_distance is not a while loop; the lower-end arm is not decided syntactically (R5 and R9 cover the ends)')
        ctx.ok('R6', 'lower end: decided through R5 (neighbour without a distance) on this form')
        return _after_scan_rules(ctx, repo, mod, cf, frd, envc, roles_cf)
    ivars = [st.target.id for st in scan.body if isinstance(st, ast.AugAssign) and isinstance(st.target, ast.Name)]
    if not ivars:
        raise AnalysisError('find_row_by_distance: scan index not found')
    iv = ivars[0]
    starts = set()
    for rel in TABLES:
        d_ = repo.json(rel)
        for g_ in ('m', 'f'):
            codes_ = [r[0] for r in (d_.get(g_) or [])]
            if '50' in codes_:
                starts.add(codes_.index('50'))
    low_tests = []
    for n in ast.walk(frd):
        if isinstance(n, ast.If) and n.lineno > scan.lineno and isinstance(n.test, ast.Compare) and len(n.test.ops) == 1 \
                and isinstance(n.test.left, ast.Name) and n.test.left.id == iv and isinstance(n.test.ops[0], (ast.Eq, ast.LtE)):
            low_tests.append(n)
    if not low_tests:
        ctx.finding('R6', '%s::AgeGrader.find_row_by_distance::no lower end' % AGE, AGE, frd.lineno,
                    'find_row_by_distance has no arm for a distance shorter than every tabulated run')
    for n in low_tests[:1]:
        cmpv = n.test.comparators[0]
        okc = False
        if isinstance(cmpv, ast.Constant) and isinstance(cmpv.value, int):
            okc = skip is None and cmpv.value == 0 or starts == {cmpv.value}
        elif isinstance(cmpv, ast.Name):
            # a snapshot of the index taken between the skip loop and the scan loop
            snaps = [a for a in ast.walk(frd) if isinstance(a, ast.Assign) and any(isinstance(t, ast.Name) and t.id == cmpv.id for t in a.targets)]
            okc = bool(snaps) and all(isinstance(a.value, ast.Name) and a.value.id == iv and (skip is None or a.lineno > skip.lineno)
                                      and a.lineno < scan.lineno for a in snaps)
        if okc:
            ctx.ok('R6', 'lower end of the scan: `%s` compares the index with the first running row' % unparse(n.test))
            continue
        # the arm is dead, so the shorter neighbour of a distance below the first run is the row before it.  That is tolerable only if
        # calculate_factor looks at the neighbour's distance BEFORE it evaluates the neighbour's factor (the row has no factors for
        # some ages): every recursive factor call on a neighbour comes after the `distance is None` return of that neighbour
        holes = []
        for rel in TABLES:
            d_ = repo.json(rel)
            for g_ in ('m', 'f'):
                rows_ = d_.get(g_) or []
                codes_ = [r[0] for r in rows_]
                if '50' in codes_ and codes_.index('50') > 0 and any(c is None for c in rows_[codes_.index('50') - 1][3:]):
                    holes.append('%s %s row %s' % (rel.split('/')[-1], g_, rows_[codes_.index('50') - 1][0]))
        guarded_first = True
        detail = ''
        for side in ('lo', 'hi'):
            ev_names = {a.args[0].id for nm, vs in envc.items() if roles_cf.get(nm) == side for a in vs
                        if isinstance(a, ast.Call) and call_name(a) == 'get_distance' and a.args and isinstance(a.args[0], ast.Name)}
            guards = [g for g in ast.walk(cf) if isinstance(g, ast.If) and isinstance(g.test, ast.Compare) and isinstance(g.test.ops[0], ast.Is)
                      and isinstance(g.test.left, ast.Name) and roles_cf.get(g.test.left.id) == side
                      and isinstance(g.test.comparators[0], ast.Constant) and g.test.comparators[0].value is None]
            calls = [c for c in ast.walk(cf) if isinstance(c, ast.Call) and call_name(c) == 'calculate_factor' and c.args
                     and isinstance(c.args[-1], ast.Name) and c.args[-1].id in ev_names]
            if not guards:
                continue      # reported by R5
            gl = min(g.lineno for g in guards)
            early = [c for c in calls if c.lineno < gl]
            if early and side == 'lo':
                guarded_first = False
                detail = 'line %d evaluates the factor of the shorter neighbour before line %d tests its distance' % (early[0].lineno, gl)
        if guarded_first or not holes:
            ctx.ok('R6', 'lower-end arm `%s` is never taken (scan starts at row %s), but the neighbour without a distance is recognised before '
                         'its factor is evaluated' % (unparse(n.test), sorted(starts)))
        else:
            ctx.finding('R6', '%s::AgeGrader.find_row_by_distance::lower end tested against %s' % (AGE, unparse(cmpv)), AGE, n.lineno,
                        'the scan starts at the row "50" (row %s of the tables), but the arm for a distance shorter than every tabulated run tests '
                        '`%s`: it is never taken, so below 50 m the "shorter neighbour" is the row before "50" - a throwing event without a '
                        'distance and, for some ages, without factors (%s); %s' % (sorted(starts), unparse(n.test), ', '.join(holes[:2]), detail),
                        "AgeGrader().calculate_factor('m', 10, '40') raises TypeError")
    # ---- R9 the scan of find_row_by_distance covers all running rows: its upper bound is the length of the table - every assignment
    # to the bound is len(table) - and the loop condition only compares the index with it and the row's distance with the target
    bounds = []
    for c in ast.walk(scan.test):
        if isinstance(c, ast.Compare) and len(c.ops) == 1 and isinstance(c.left, ast.Name) and c.left.id == iv and isinstance(c.comparators[0], ast.Name):
            bounds.append(c.comparators[0].id)
    if not bounds:
        raise AnalysisError('find_row_by_distance: the scan has no index bound')
    bname = bounds[0]
    bdefs = [a for a in ast.walk(frd) if isinstance(a, ast.Assign) and any(isinstance(t, ast.Name) and t.id == bname for t in a.targets)]
    tparam = frd.args.args[2].arg if len(frd.args.args) > 2 else 'table'
    bad_b = [a for a in bdefs if not (isinstance(a.value, ast.Call) and call_name(a.value) == 'len' and ast.unparse(a.value.args[0]) == tparam)]
    extra_exits = [x for x in ast.walk(scan) if isinstance(x, (ast.Break, ast.Return))]
    if bad_b or extra_exits or not bdefs:
        node_ = (bad_b + extra_exits + [scan])[0]
        ctx.finding('R9', '%s::AgeGrader.find_row_by_distance::scan does not cover the whole table' % AGE, AGE, node_.lineno,
                    'the scan for the bracketing rows stops before the end of the table (`%s`): distances beyond that row are graded from the '
                    'last row it reaches instead of their nearest tabulated neighbours, and the end-of-table rule uses the wrong end' % unparse(node_)[:70],
                    "a bare distance such as '10500' or '250000'")
    else:
        ctx.ok('R9', 'the scan runs to len(%s) with no other exit' % tparam)
    return _after_scan_rules(ctx, repo, mod, cf, frd, envc, roles_cf)


def _after_scan_rules(ctx, repo, mod, cf, frd, envc, roles_cf):
    # ---- R10 in the fallback for untabulated distances every answer is computed from the neighbours' factors: each return of the
    # handler is the interpolated value or a recursive calculate_factor (no constant, no answer that ignores the neighbours)
    hnd = [h for t_ in ast.walk(cf) if isinstance(t_, ast.Try) for h in t_.handlers]
    n_ret = 0
    for h in hnd:
        for r in [x for x in ast.walk(h) if isinstance(x, ast.Return)]:
            n_ret += 1
            v = r.value
            names_ = {x.id for x in ast.walk(v) if isinstance(x, ast.Name)} if v is not None else set()
            from_nb = v is not None and (any(isinstance(c, ast.Call) and call_name(c) == 'calculate_factor' for c in ast.walk(v)) or any(
                any(isinstance(c, ast.Call) and call_name(c) == 'calculate_factor' for d_ in envc.get(nm, []) for c in ast.walk(d_))
                or any(any(isinstance(c, ast.Call) and call_name(c) == 'calculate_factor' for d2 in envc.get(n2, []) for c in ast.walk(d2))
                       for d_ in envc.get(nm, []) for n2 in {x.id for x in ast.walk(d_) if isinstance(x, ast.Name)})
                for nm in names_))
            if not from_nb and isinstance(v, ast.Subscript) and isinstance(v.value, ast.Attribute):
                # a memo hit: the container is filled in this function with a neighbour-derived value (transparency is rule HIST)
                cont = ast.unparse(v.value)
                for a_ in ast.walk(cf):
                    if isinstance(a_, ast.Assign) and any(isinstance(t_, ast.Subscript) and ast.unparse(t_.value) == cont for t_ in a_.targets):
                        from_nb = True
            if not from_nb:
                ctx.finding('R10', '%s::AgeGrader.calculate_factor::fallback returns %s' % (AGE, unparse(v) if v is not None else 'None'), AGE, r.lineno,
                            'for an untabulated distance calculate_factor returns `%s`, which is not computed from the factors of the neighbouring '
                            'events: for ages whose tabulated factors differ from it the answer is not between its neighbours' % (
                                unparse(v) if v is not None else 'None'), "age 8, '150'")
    ctx.count('returns of the untabulated-distance fallback examined', n_ret)
    if n_ret and not any(f.rule == 'R10' for f in ctx.findings):
        ctx.ok('R10', 'all %d returns of the fallback are computed from neighbour factors' % n_ret)
    # ---- R11 one source for the open best: the tabulated arm of world_best returns the cell of the table row (the column the estimate for
    # untabulated distances reads from the neighbour rows); a best taken from anywhere else makes the estimates inconsistent with it
    wb = mod.func('AgeGrader.world_best')
    trys = [t for t in ast.walk(wb) if isinstance(t, ast.Try)]
    if not trys:
        raise AnalysisError('world_best: no try / fallback structure')
    envw = {}
    for st_ in trys[0].body:
        for a in ast.walk(st_):
            if isinstance(a, ast.Assign) and len(a.targets) == 1 and isinstance(a.targets[0], ast.Name):
                envw.setdefault(a.targets[0].id, []).append(a.value)
    cols = {ast.unparse(x.slice) for h in trys[0].handlers for x in ast.walk(h) if isinstance(x, ast.Subscript) and isinstance(x.slice, ast.Constant)
            and isinstance(x.slice.value, int) and x.slice.value >= 2}
    for r in [x for st_ in trys[0].body for x in ast.walk(st_) if isinstance(x, ast.Return)]:
        v = r.value
        vals = envw.get(v.id, [v]) if isinstance(v, ast.Name) else [v]
        for val in vals:
            base = val
            while isinstance(base, ast.Subscript):
                base = base.value
            cell = isinstance(val, ast.Subscript) and isinstance(val.slice, ast.Constant) and ast.unparse(val.slice) in (cols or {'2'}) \
                and isinstance(base, ast.Name) and base.id in ('table',) + tuple(a.arg for a in wb.args.args)
            if not cell and isinstance(val, ast.Subscript) and isinstance(base, ast.Name):
                cell = any(isinstance(d_, ast.Subscript) for d_ in envw.get(base.id, [])) and isinstance(val.slice, ast.Constant)
            if cell:
                ctx.ok('R11', 'world_best: the tabulated arm returns the table cell %s' % unparse(val))
            else:
                ctx.finding('R11', '%s::AgeGrader.world_best::best of a tabulated event not read from its row' % AGE, AGE, r.lineno,
                            'for a tabulated event world_best returns `%s`, not the cell of its table row, while the estimate for an untabulated '
                            'distance is computed from the neighbour rows of the table: a distance just below the event gets a best above the '
                            'event\'s own, neither between its neighbours nor increasing' % unparse(val), "world_best('f', '26M') vs world_best('f', 'MAR')")
    # ---- R7 every bare whole-metre distance is classified as a running event by the grader's classifier (else the interpolation is
    # never reached: "instead of failing"); the classifier's dispatch is read from the code, the inclusion is decided on automata
    from .. import rx
    from ..pats import Pats
    P = Pats(repo)
    ek = mod.func('AgeGrader.event_code_to_kind')
    disp = []
    for n in ast.walk(ek):
        if isinstance(n, ast.Tuple) and len(n.elts) == 2 and isinstance(n.elts[0], ast.Constant) and isinstance(n.elts[0].value, str) \
                and isinstance(n.elts[1], ast.Name) and n.elts[1].id.startswith('PAT_'):
            disp.append((n.elts[0].value, n.elts[1].id))
    if len(disp) < 2:
        # not written as a literal table in the function: reconstruct the decision list by probing the folded classifier
        from .. import fold as _fold2
        try:
            tab_, _none = _fold2.probe_first_match(ek, dict(repo.folded(AGE)[0]), None)
            disp = [(o[1], nm) for nm, _rc, o in tab_ if o[0] == 'returns' and isinstance(o[1], str) and isinstance(nm, str) and nm.startswith('PAT_')]
        except Exception as e_:
            raise AnalysisError('event_code_to_kind: (kind, pattern) dispatch table not found (%s)' % e_)
    if len(disp) < 2:
        raise AnalysisError('event_code_to_kind: (kind, pattern) dispatch table not found')
    import re._parser as _sp
    bare = P.exact(list(_sp.parse(r'[1-9][0-9]*')))
    # ... and every road spelling of a positive distance, N[.d[d]]K / N[.d[d]]M with up to three integer digits (0.45K is 450 m)
    road_sp = rx.inter(P.exact(list(_sp.parse(r'(?:0|[1-9][0-9]{0,2})(?:\.[0-9]{1,2})?[KM]'))), P.exact(list(_sp.parse(r'[0-9.]*[1-9][0-9.]*[KM]'))))
    bare = rx.union(bare, road_sp)
    rest = bare
    running = None
    for kind, pat in disp:
        d = P.dfa(pat)
        if kind in ('track', 'road'):
            hit = rx.inter(rest, d)
            running = hit if running is None else rx.union(running, hit)
        rest = rx.diff(rest, d)
    lost = rx.diff(bare, running) if running is not None else bare
    w = P.wit(lost)
    if w is None:
        ctx.ok('R7', 'every bare whole-metre distance [1-9][0-9]* and every road spelling N[.dd]K / N[.dd]M of a positive distance is classified as track or road by event_code_to_kind (%s)' % (
            ', '.join('%s:%s' % kp for kp in disp)))
    else:
        ctx.finding('R7', '%s::AgeGrader.event_code_to_kind::bare distances not classified as runs' % AGE, AGE, ek.lineno,
                    'the distance spelling %r is not classified as a running event by event_code_to_kind (dispatch %s): calculate_factor and '
                    'world_best raise before any interpolation or end-of-table rule applies' % (w, [p_ for _k, p_ in disp]), w)
    # ---- R3 data
    n_rows = 0
    for rel in TABLES:
        d = repo.json(rel)
        for g in ('m', 'f'):
            rows = d.get(g) or []
            codes = [r[0] for r in rows]
            if '50' not in codes:
                ctx.finding('R3', '%s::%s::row 50 missing' % (rel, g), rel, None,
                            'no row "50" for gender %s: find_row_by_distance scans for it and runs off the table (IndexError)' % g)
                continue
            start = codes.index('50')
            prev = None
            for r in rows[start:]:
                n_rows += 1
                dist, std = r[1], r[2]
                if not isinstance(dist, (int, float)) or not math.isfinite(dist) or dist <= 0:
                    ctx.finding('R3', '%s::%s %s::distance' % (rel, g, r[0]), rel, None, 'running row %s %s has distance %r' % (g, r[0], dist))
                if not isinstance(std, (int, float)) or std <= 0:
                    ctx.finding('R3', '%s::%s %s::standard' % (rel, g, r[0]), rel, None, 'running row %s %s has standard %r' % (g, r[0], std))
                prev = (r[0], dist)
            # the end-of-table rule grades every longer distance with the LAST row: it must be the longest run of the table
            dists = [r[1] for r in rows[start:] if isinstance(r[1], (int, float))]
            if dists and rows[-1][1] != max(dists):
                ctx.finding('R3', '%s::%s::last row is not the longest run' % (rel, g), rel, None,
                            'the last row of the %s table is %s (%s km) but the longest tabulated run is %s km: distances beyond the table are graded '
                            'with the last row (find_row_by_distance clamps to len(table) - 1), i.e. with the factors of a %s km event'
                            % (g, rows[-1][0], rows[-1][1], max(dists), rows[-1][1]), rows[-1][0])
    # ---- R8 the km column of every running row is the distance its code denotes (get_distance of the code, by constant folding of the
    # pure function; it is an approximation by docstring, so 0.5 % is allowed): the scan of find_row_by_distance brackets by this column
    from .. import fold as _fold
    uenv, ufolder = repo.folded('athlib/utils.py')
    gd_fc = uenv.get('get_distance')
    if not isinstance(gd_fc, _fold.FuncConst):
        raise AnalysisError('get_distance is not foldable')
    n_km = 0
    for rel in TABLES:
        d = repo.json(rel)
        for g in ('m', 'f'):
            rows = d.get(g) or []
            codes = [r[0] for r in rows]
            if '50' not in codes:
                continue
            for r in rows[codes.index('50'):]:
                try:
                    want = _fold.Folder(importer=ufolder.importer).call(gd_fc, [r[0]], {})
                except Exception:
                    want = None
                if not isinstance(want, (int, float)) or not isinstance(r[1], (int, float)) or want <= 0:
                    continue
                n_km += 1
                if abs(1000.0 * r[1] - want) > 0.005 * want:
                    ctx.finding('R8', '%s::%s %s::distance column' % (rel, g, r[0]), rel, None,
                                'row %s %s has %s km in its distance column, but the code denotes %s m: distances near it are bracketed by the wrong '
                                'neighbours, so the interpolated factor and best are not between those of the nearest events' % (g, r[0], r[1], want),
                                {'row': r[0], 'km': r[1], 'metres_of_the_code': want})
    ctx.count('running rows whose distance column was compared with the code', n_km)
    ctx.floor('distance columns compared', n_km, 120)
    if not any(f.rule == 'R8' for f in ctx.findings):
        ctx.ok('R8', '%d running rows: the distance column equals the distance of the code (0.5 %%)' % n_km)
    ctx.count('running rows checked', n_rows)
    ctx.floor('running rows checked', n_rows, 150)
    if not any(f.rule == 'R3' for f in ctx.findings):
        ctx.ok('R3', 'row "50" present, %d running rows with positive distances and standards' % n_rows)
