"""C06 — times are never rounded down (notation taint, exception effect, sexagesimal intervals)."""
import ast
import re

from .. import fold
from ..core import AnalysisError
from ..src import call_name, stmt_key, unparse

LEVEL = 'other'
UTILS = 'athlib/utils.py'
INF = float('inf')


def classify_notation(e, fn, depth=0):
    """'fixed:N' | 'float-repr' | 'unknown' for an expression passed to the digit-string rounder"""
    if isinstance(e, ast.Call) and call_name(e) in ('repr', 'str') and len(e.args) == 1:
        return 'float-repr'
    if isinstance(e, ast.BinOp) and isinstance(e.op, ast.Mod) and isinstance(e.left, ast.Constant) and isinstance(e.left.value, str):
        m = re.fullmatch(r'%0?\d*\.(\d+)f', e.left.value)
        if m:
            return 'fixed:%s' % m.group(1)
        if re.search(r'%[sr]|%g|%e|%\d*\.?\d*[ge]', e.left.value):
            return 'float-repr'
        return 'unknown'
    if isinstance(e, ast.Call) and call_name(e) == 'format' and len(e.args) == 2 and isinstance(e.args[1], ast.Constant):
        m = re.fullmatch(r'0?\d*\.(\d+)f', str(e.args[1].value))
        return 'fixed:%s' % m.group(1) if m else 'float-repr'
    if isinstance(e, ast.Call) and isinstance(e.func, ast.Attribute) and e.func.attr == 'format' and isinstance(e.func.value, ast.Constant):
        m = re.fullmatch(r'\{(?:\w*):0?\d*\.(\d+)f\}', str(e.func.value.value))
        return 'fixed:%s' % m.group(1) if m else 'float-repr'
    if isinstance(e, ast.JoinedStr):
        vals = [v for v in e.values if isinstance(v, ast.FormattedValue)]
        if len(vals) == 1 and len(e.values) == 1:
            fs = vals[0].format_spec
            if fs is not None and len(fs.values) == 1 and isinstance(fs.values[0], ast.Constant):
                m = re.fullmatch(r'0?\d*\.(\d+)f', str(fs.values[0].value))
                if m:
                    return 'fixed:%s' % m.group(1)
            return 'float-repr'
        return 'unknown'
    if isinstance(e, ast.Name) and depth < 3:
        defs = [n.value for n in ast.walk(fn) if isinstance(n, ast.Assign) and any(
            isinstance(t, ast.Name) and t.id == e.id for t in n.targets)]
        kinds = {classify_notation(d, fn, depth + 1) for d in defs}
        if 'float-repr' in kinds:
            return 'float-repr'
        if kinds and all(k.startswith('fixed') for k in kinds):
            return sorted(kinds)[0]
    return 'unknown'


class Iv:
    def __init__(self, lo, hi):
        self.lo, self.hi = lo, hi

    def __repr__(self):
        return '[%s,%s]' % (self.lo, self.hi)

    def join(self, o):
        return Iv(min(self.lo, o.lo), max(self.hi, o.hi))


def interval_run(fn, seconds_param):
    """interval abstract interpretation of the integer variables of format_seconds_as_time; returns a list of
    (format statement node, env) at every statement that formats with %02d"""
    seen = []

    def ev(e, env):
        if isinstance(e, ast.Constant) and isinstance(e.value, int):
            return Iv(e.value, e.value)
        if isinstance(e, ast.Name) and e.id in env:
            return env[e.id]
        if isinstance(e, ast.Call) and call_name(e) == 'int' and len(e.args) == 1:
            if isinstance(e.args[0], ast.Name) and e.args[0].id == seconds_param:
                return Iv(0, INF)          # contract: non-negative duration
            return None
        if isinstance(e, ast.BinOp) and isinstance(e.op, (ast.Add, ast.Sub)):
            a, b = ev(e.left, env), ev(e.right, env)
            if a is None or b is None:
                return None
            return Iv(a.lo + b.lo, a.hi + b.hi) if isinstance(e.op, ast.Add) else Iv(a.lo - b.hi, a.hi - b.lo)
        return None

    def refine(test, env, truth):
        """env refined by test == truth, or None if infeasible"""
        if isinstance(test, ast.Compare) and len(test.ops) == 1 and isinstance(test.left, ast.Name) and test.left.id in env \
                and isinstance(test.comparators[0], ast.Constant) and isinstance(test.comparators[0].value, int):
            x, c, op = test.left.id, test.comparators[0].value, test.ops[0]
            iv = env[x]
            eq = isinstance(op, ast.Eq)
            ne = isinstance(op, ast.NotEq)
            if eq or ne:
                want_eq = (eq and truth) or (ne and not truth)
                if want_eq:
                    if not (iv.lo <= c <= iv.hi):
                        return None
                    e2 = dict(env)
                    e2[x] = Iv(c, c)
                    return e2
                e2 = dict(env)
                if iv.lo == c == iv.hi:
                    return None
                if iv.lo == c:
                    e2[x] = Iv(c + 1, iv.hi)
                elif iv.hi == c:
                    e2[x] = Iv(iv.lo, c - 1)
                return e2
            lt = {ast.Lt: ('hi', c - 1), ast.LtE: ('hi', c), ast.Gt: ('lo', c + 1), ast.GtE: ('lo', c)}.get(type(op))
            if lt:
                side, val = lt
                if not truth:
                    side, val = ('lo', val + 1) if side == 'hi' else ('hi', val - 1)
                e2 = dict(env)
                lo, hi = iv.lo, iv.hi
                if side == 'hi':
                    hi = min(hi, val)
                else:
                    lo = max(lo, val)
                if lo > hi:
                    return None
                e2[x] = Iv(lo, hi)
                return e2
        if isinstance(test, ast.Name) and test.id in env:
            iv = env[test.id]
            e2 = dict(env)
            if truth:
                if iv.lo == 0 == iv.hi:
                    return None
                if iv.lo == 0:
                    e2[test.id] = Iv(1, iv.hi)
            else:
                if not (iv.lo <= 0 <= iv.hi):
                    return None
                e2[test.id] = Iv(0, 0)
            return e2
        return env

    def join(envs):
        envs = [e for e in envs if e is not None]
        if not envs:
            return None
        out = {}
        for k in set().union(*envs):
            if all(k in e for e in envs):
                iv = envs[0][k]
                for e in envs[1:]:
                    iv = iv.join(e[k])
                out[k] = iv
        return out

    def block(stmts, env):
        for st in stmts:
            if env is None:
                return None
            env = stmt(st, env)
        return env

    def stmt(st, env):
        for n in ast.walk(st) if not isinstance(st, (ast.If, ast.While, ast.For)) else []:
            if isinstance(n, ast.BinOp) and isinstance(n.op, ast.Mod) and isinstance(n.left, ast.Constant) \
                    and isinstance(n.left.value, str) and '%0' in n.left.value:
                seen.append((n, dict(env)))
        if isinstance(st, ast.Assign) and len(st.targets) == 1:
            t = st.targets[0]
            if isinstance(t, ast.Name):
                v = ev(st.value, env)
                env = dict(env)
                if v is not None:
                    env[t.id] = v
                else:
                    env.pop(t.id, None)
                return env
            if isinstance(t, ast.Tuple) and len(t.elts) == 2 and isinstance(st.value, ast.Call) and call_name(st.value) == 'divmod' \
                    and len(st.value.args) == 2 and isinstance(st.value.args[1], ast.Constant) and isinstance(st.value.args[1].value, int) \
                    and st.value.args[1].value > 0:
                a = ev(st.value.args[0], env)
                d = st.value.args[1].value
                env = dict(env)
                q, r = t.elts[0].id, t.elts[1].id
                if a is not None and a.lo >= 0:
                    env[q] = Iv(a.lo // d, a.hi // d if a.hi != INF else INF)
                    env[r] = Iv(0, d - 1) if a.hi >= d else Iv(a.lo, a.hi)
                else:
                    env.pop(q, None)
                    env.pop(r, None)
                return env
            env = dict(env)
            for x in ast.walk(t):
                if isinstance(x, ast.Name):
                    env.pop(x.id, None)
            return env
        if isinstance(st, ast.AugAssign) and isinstance(st.target, ast.Name):
            env = dict(env)
            cur = env.get(st.target.id)
            v = ev(st.value, env)
            if cur is not None and v is not None and isinstance(st.op, (ast.Add, ast.Sub)):
                env[st.target.id] = Iv(cur.lo + v.lo, cur.hi + v.hi) if isinstance(st.op, ast.Add) else Iv(cur.lo - v.hi, cur.hi - v.lo)
            else:
                env.pop(st.target.id, None)
            return env
        if isinstance(st, ast.If):
            et = refine(st.test, env, True)
            ef = refine(st.test, env, False)
            a = block(st.body, et) if et is not None else None
            b = block(st.orelse, ef) if ef is not None else None
            ends_t = st.body and isinstance(st.body[-1], (ast.Raise, ast.Return))
            ends_f = st.orelse and isinstance(st.orelse[-1], (ast.Raise, ast.Return))
            return join([None if ends_t else a, None if ends_f else b])
        if isinstance(st, (ast.Raise, ast.Return)):
            for n in ast.walk(st):
                if isinstance(n, ast.BinOp) and isinstance(n.op, ast.Mod) and isinstance(n.left, ast.Constant) \
                        and isinstance(n.left.value, str) and '%0' in n.left.value:
                    seen.append((n, dict(env)))
            return env
        if isinstance(st, ast.Expr):
            return env
        if isinstance(st, (ast.While, ast.For, ast.Try, ast.With)):
            raise AnalysisError('format_seconds_as_time: %s outside the supported subset' % type(st).__name__)
        return env
    block(fn.body, {})
    return seen


def parse_value_guards(ctx, repo, rule):
    """parse_hms / str2num refuse a text only when a field fails to convert: every raise lies in an except handler.  A raise under a
    test of the VALUE of a field (range checks) removes documented forms such as running-on minutes, '61:15.20'."""
    mod = repo.module(UTILS)
    for fname in ('parse_hms', 'str2num'):
        fn = mod.func(fname)
        for r in [x for x in ast.walk(fn) if isinstance(x, ast.Raise)]:
            p_ = getattr(r, '_parent', None)
            in_handler = False
            cond = None
            while p_ is not None and p_ is not fn:
                if isinstance(p_, ast.ExceptHandler):
                    in_handler = True
                if isinstance(p_, ast.If) and cond is None:
                    cond = p_
                p_ = getattr(p_, '_parent', None)
            if in_handler:
                continue
            if cond is not None and any(isinstance(c, ast.Compare) and any(isinstance(o, (ast.Lt, ast.LtE, ast.Gt, ast.GtE)) for o in c.ops)
                                        for c in ast.walk(cond.test)):
                ctx.finding(rule, '%s::%s::refuses a field by its value' % (UTILS, fname), UTILS, r.lineno,
                            '%s raises when `%s`: a text whose fields all convert is refused because of the size of a field, so forms such as '
                            "running-on minutes ('61:15.20' = 1:01:15.20) no longer parse although the same duration in another form does"
                            % (fname, unparse(cond.test)), '61:15.20')


def run(ctx, repo):
    mod = repo.module(UTILS)
    ctx.explanation = (
        'R1 is a taint rule on the syntax tree of every caller of round_up_str_num (its documented domain is plain decimal '
        'notation: repr/str of a float switch to exponent notation below 1e-4). R2 is a may-raise analysis of parse_hms / '
        'str2num. R3 is an interval abstract interpretation of the integer variables of format_seconds_as_time: at every '
        'zero-padded formatting statement minutes and seconds are proved to lie in [0,59].  The digit-string ceiling '
        'algorithm itself and the parse/format inequality are value-level string arithmetic and are not decided.')
    ctx.rule('R1', 'no float in repr/str/%s/%r notation reaches round_up_str_num; fixed notation with >= 5 decimals is the accepted source')
    ctx.rule('R2', 'parse_hms / str2num raise only ValueError on str input; both separators are tried; sexagesimal weights are 60')
    ctx.rule('R5', 'parse_hms / str2num: no arithmetic mixes an unbounded int from the text with a float (implicit conversion -> OverflowError) '
                   'outside a handler that converts OverflowError to ValueError; no int() of a float')
    ctx.rule('R6', "round_up_str_num: the integer part taken from split('.') may be empty; every path to the return tests or rebuilds it")
    ctx.rule('R7', 'round_up_str_num: the slice bounded by the noise cut-off keeps exactly maxDP characters (polynomial slice length)')
    ctx.rule('R10', 'no raise-guard of round_up_str_num refuses a precision in 0..maxDP (guard test folded over the complete precision domain)')
    ctx.rule('R11', 'format_seconds_as_time formats the decimals from the remainder seconds - int(seconds)')
    ctx.rule('R9', 'documented defaults: round_up_str_num cuts noise after 5 decimals, format_seconds_as_time prints whole seconds')
    ctx.rule('R8', 'parse_hms / str2num: no index subscript, division, format of wrong arity or unknown call outside a handler that converts it '
                   'to ValueError (may-raise inventory, handlers included)')
    ctx.rule('R4', 'round_up_str_num: a length derived from a digit string is not used to slice the string after it was re-built (carry that adds a digit)')
    ctx.rule('R3', 'seconds and minutes lie in [0,59] at every formatting statement; two-digit padding; precision guard 0..3 -> ValueError')
    # ---- R1
    n_calls = 0
    for m in repo.all_python():
        for q, fn in m.functions.items():
            for c in ast.walk(fn):
                if isinstance(c, ast.Call) and call_name(c) == 'round_up_str_num' and c.args:
                    n_calls += 1
                    kind = classify_notation(c.args[0], fn)
                    key = '%s::%s::%s' % (m.rel, q, 'round_up_str_num argument')
                    if kind == 'float-repr':
                        ctx.finding('R1', key + ' in float repr notation', m.rel, c.lineno,
                                    '%s passes %s to round_up_str_num: repr/str of a float is exponent notation below 1e-4 '
                                    "('1.42e-14'), which the digit-string rounder reads as 1.42" % (q, unparse(c.args[0])),
                                    "65.00000000000001 -> '1:06.43'")
                    elif kind.startswith('fixed:'):
                        n = int(kind.split(':')[1])
                        if n >= 5:
                            ctx.ok('R1', '%s: fixed notation with %d decimals' % (q, n))
                        else:
                            ctx.finding('R1', key + ' fixed notation too short', m.rel, c.lineno,
                                        '%s formats with %d decimals before rounding up: the formatting itself rounds to nearest, '
                                        'so digits up to the fifth decimal can be lost and a time rounded down' % (q, n))
                    else:
                        ctx.info('%s::%s: source notation of %s not classified' % (m.rel, q, unparse(c.args[0])))
    ctx.floor('callers of round_up_str_num', n_calls, 1)
    # ---- R4 stale length: a length taken from a digit string must not be used to slice that string after it was re-built
    rus = mod.func('round_up_str_num')
    n_len = 0

    def scan_block(body):
        nonlocal n_len
        lens = {}        # n -> (x, def statement)
        for st in body:
            # uses first (a statement may both use and redefine)
            for sub in ast.walk(st):
                if isinstance(sub, ast.Subscript) and isinstance(sub.value, ast.Name):
                    x = sub.value.id
                    for nm in {q.id for q in ast.walk(sub.slice) if isinstance(q, ast.Name)}:
                        if nm in lens and lens[nm][0] == x and lens[nm][2]:
                            ctx.finding('R4', '%s::round_up_str_num::stale length %s of %s' % (UTILS, nm, x), UTILS, sub.lineno,
                                        '%s was computed from len(%s) (%s) but %s was re-built afterwards (%s) before %s slices it: when the '
                                        'increment adds a leading digit (9.996 -> 10.00) a digit is dropped and the result is ten times too '
                                        'small' % (nm, x, src_stmt(lens[nm][1]), x, src_stmt(lens[nm][2]), ast.unparse(sub)), "round_up_str_num('9.996', 2)")
            if isinstance(st, ast.Assign):
                tgts = [t.id for tt in st.targets for t in (tt.elts if isinstance(tt, ast.Tuple) else [tt]) if isinstance(t, ast.Name)]
                for t in tgts:
                    for nm, (x, d, stale) in list(lens.items()):
                        if x == t and d is not st:
                            lens[nm] = (x, d, st)
                for t in tgts:
                    lx = [c.args[0].id for c in ast.walk(st.value) if isinstance(c, ast.Call) and call_name(c) == 'len' and c.args and isinstance(c.args[0], ast.Name)]
                    if lx and len(tgts) == 1:
                        lens[t] = (lx[0], st, None)
                        n_len += 1
            if isinstance(st, ast.AugAssign) and isinstance(st.target, ast.Name):
                for nm, (x, d, stale) in list(lens.items()):
                    if x == st.target.id:
                        lens[nm] = (x, d, st)
            for fld in ('body', 'orelse'):
                inner = getattr(st, fld, None)
                if isinstance(inner, list) and inner and isinstance(st, (ast.If, ast.While, ast.For)):
                    scan_block(inner)

    def src_stmt(n):
        return unparse(n)[:50]
    scan_block(rus.body)
    if not any(f.rule == 'R4' for f in ctx.findings):
        ctx.ok('R4', 'round_up_str_num: no length is used after its string was re-built (%d length definitions)' % n_len)
    # ---- R6 the integer part taken from split('.') may be empty ('.5'); every path to a return that prints it examines or rebuilds it
    from ..cfg import CFG
    ivar = None
    for n in ast.walk(rus):
        if isinstance(n, ast.Assign) and isinstance(n.targets[0], (ast.Tuple, ast.List)) and isinstance(n.value, ast.Call) \
                and isinstance(n.value.func, ast.Attribute) and n.value.func.attr == 'split' and n.targets[0].elts \
                and isinstance(n.targets[0].elts[0], ast.Name):
            ivar = n.targets[0].elts[0].id
    if ivar is None:
        ctx.info('round_up_str_num: integer part is not taken from a split(); R6 not instantiated')
    else:
        def mentions(e):
            return any(isinstance(x, ast.Name) and x.id == ivar for x in ast.walk(e))

        def nonempty(e):
            if isinstance(e, ast.Constant):
                return isinstance(e.value, str) and e.value != ''
            if isinstance(e, ast.Call) and call_name(e) in ('str', 'repr'):
                return True
            if isinstance(e, ast.IfExp):
                # `X if i else '1'`: the emptiness of the integer part is examined
                return mentions(e.test) and (nonempty(e.orelse) or nonempty(e.body))
            if isinstance(e, ast.BinOp) and isinstance(e.op, ast.Add):
                return nonempty(e.left) or nonempty(e.right)
            return False
        g = CFG(rus)
        state = {g.entry.id: False}
        work = [g.entry]
        reported = set()
        while work:
            nd = work.pop()
            st_in = state[nd.id]
            out = st_in
            a = nd.ast
            if nd.kind == 'stmt' and isinstance(a, (ast.Assign, ast.AugAssign)):
                tg = a.targets if isinstance(a, ast.Assign) else [a.target]
                flat = []
                for t in tg:
                    flat += t.elts if isinstance(t, (ast.Tuple, ast.List)) else [t]
                if any(isinstance(t, ast.Name) and t.id == ivar for t in flat):
                    if isinstance(a, ast.Assign) and nonempty(a.value):
                        out = False
                    elif isinstance(a, ast.AugAssign) or mentions(a.value):
                        out = st_in           # derived from itself: emptiness carried along
                    else:
                        out = True            # fresh from the text
            elif nd.kind == 'test' and mentions(a):
                out = False                   # the path examined it
            elif nd.kind == 'return' and st_in and a.value is not None and mentions(a.value) and nd.id not in reported:
                reported.add(nd.id)
            for suc, _lab in nd.succ:
                if suc.id not in state or (out and not state[suc.id]):
                    state[suc.id] = out or state.get(suc.id, False)
                    work.append(suc)
        if reported:
            ctx.finding('R6', '%s::round_up_str_num::integer part may be empty at return' % UTILS, UTILS, rus.lineno,
                        "round_up_str_num returns the integer part `%s` taken from split('.') on a path that neither tests it for emptiness nor "
                        "rebuilds it (other paths do): a string without digits before the point whose dropped digits are all zero returns an "
                        "empty integer part" % ivar, "round_up_str_num('.0', 0) == ''   ('.5', 0 gives '1'; '.00', 1 gives '.0')")
        else:
            ctx.ok('R6', 'round_up_str_num: `%s` is examined or rebuilt on every path to the return (%d CFG nodes)' % (ivar, len(g.nodes)))
    # ---- R7 the noise cut-off keeps exactly maxDP decimals: every slice of round_up_str_num whose bounds mention the cut-off parameter has
    # length (upper - lower) == that parameter, decided on polynomials (sa/symx.py); at least one such slice exists
    from .. import symx
    cut = rus.args.args[2].arg if len(rus.args.args) >= 3 else None
    if cut is None:
        raise AnalysisError('round_up_str_num: no cut-off parameter')
    n_cut = 0
    for n in ast.walk(rus):
        if isinstance(n, ast.Subscript) and isinstance(n.slice, ast.Slice) and any(
                isinstance(x, ast.Name) and x.id == cut for x in ast.walk(n.slice)):
            n_cut += 1
            try:
                up = symx.canon(symx.py_ir(n.slice.upper, {})) if n.slice.upper is not None else None
                lo_ = symx.canon(symx.py_ir(n.slice.lower, {})) if n.slice.lower is not None else symx.Poly.const(0)
            except symx.Unsupported:
                up = None
            if up is None:
                ctx.info('round_up_str_num: slice %s not in the polynomial fragment' % unparse(n))
                continue
            length = up - lo_
            if length == symx.Poly.atom(symx.jsast.camel(cut)):
                ctx.ok('R7', 'round_up_str_num: %s keeps exactly %s characters' % (unparse(n), cut))
            else:
                ctx.finding('R7', '%s::round_up_str_num::cut-off length' % UTILS, UTILS, n.lineno,
                            'the slice %s keeps %s characters, not %s: digits up to the %s-th decimal are significant, so a non-zero digit in the '
                            'last significant place is dropped and the value is rounded down' % (unparse(n), length.show(), cut, cut),
                            "round_up_str_num('1.00001', 2) must be '1.01'")
    if n_cut == 0:
        ctx.finding('R7', '%s::round_up_str_num::no cut-off' % UTILS, UTILS, rus.lineno,
                    'no slice of round_up_str_num is bounded by %s: the noise beyond the %s-th decimal is not removed' % (cut, cut))
    # ---- R10 no precision in the documented domain 0..maxDP is refused: every raise-guard of round_up_str_num whose test reads only the
    # precision and the cut-off is evaluated (constant folding of the test) for each precision 0..maxDP with the default cut-off - a
    # decision table over the complete finite domain of that parameter
    precp = rus.args.args[1].arg
    maxdp_default = 5
    a_ = rus.args
    dmap = dict(zip([x.arg for x in a_.args[len(a_.args) - len(a_.defaults):]], a_.defaults))
    if isinstance(dmap.get(cut), ast.Constant) and isinstance(dmap[cut].value, int):
        maxdp_default = dmap[cut].value
    n_g = 0
    for g_ in ast.walk(rus):
        if isinstance(g_, ast.If) and any(isinstance(x, ast.Raise) for st_ in g_.body for x in ast.walk(st_)):
            names_ = {x.id for x in ast.walk(g_.test) if isinstance(x, ast.Name)}
            if not names_ or not names_ <= {precp, cut}:
                continue
            n_g += 1
            refused = []
            for pv in range(0, maxdp_default + 1):
                try:
                    if fold.Folder().expr(g_.test, {precp: pv, cut: maxdp_default}):
                        refused.append(pv)
                except Exception as e:
                    raise AnalysisError('round_up_str_num: guard %s not foldable: %s' % (unparse(g_.test), e))
            if refused:
                ctx.finding('R10', '%s::round_up_str_num::precision %s refused' % (UTILS, refused), UTILS, g_.lineno,
                            'the guard `%s` refuses the precision(s) %s, which lie inside the documented range 0..%d: every call with that precision '
                            'raises instead of returning the ceiling' % (unparse(g_.test), refused, maxdp_default), {'prec': refused[0]})
            else:
                ctx.ok('R10', 'guard `%s` admits every precision 0..%d' % (unparse(g_.test), maxdp_default))
    if n_g == 0:
        ctx.ok('R10', 'round_up_str_num has no guard on the precision')
    # ---- R11 the text handed to round_up_str_num is the remainder of the same integer part that becomes h:m:s: frac = seconds - int(seconds);
    # decimals read off the rounded text of the whole duration lose the carry when the text rounds up to the next second
    fsa = mod.func('format_seconds_as_time')
    sparam = fsa.args.args[0].arg
    for c in ast.walk(fsa):
        if isinstance(c, ast.Call) and call_name(c) == 'round_up_str_num' and c.args:
            fm = [m_ for m_ in ast.walk(c.args[0]) if isinstance(m_, ast.BinOp) and isinstance(m_.op, ast.Mod) and isinstance(m_.left, ast.Constant)
                  and isinstance(m_.left.value, str)]
            if not fm:
                continue
            val = fm[0].right
            okr = False
            why = unparse(val)
            if isinstance(val, ast.Name) and val.id != sparam:
                defs_ = [a.value for a in ast.walk(fsa) if isinstance(a, ast.Assign) and any(isinstance(t, ast.Name) and t.id == val.id for t in a.targets)
                         and a.lineno < c.lineno]
                for d_ in defs_:
                    subs = [b for b in ast.walk(d_) if isinstance(b, ast.BinOp) and isinstance(b.op, ast.Sub) and isinstance(b.left, ast.Name)
                            and b.left.id == sparam]
                    for b in subs:
                        r_ = b.right
                        if (isinstance(r_, ast.Call) and call_name(r_) == 'int') or (isinstance(r_, ast.Name) and any(
                                isinstance(a.value, ast.Call) and call_name(a.value) == 'int' for a in ast.walk(fsa)
                                if isinstance(a, ast.Assign) and any(isinstance(t, ast.Name) and t.id == r_.id for t in a.targets))):
                            okr = True
            if okr:
                ctx.ok('R11', 'the decimals are formatted from the remainder seconds - int(seconds)')
            else:
                ctx.finding('R11', '%s::format_seconds_as_time::decimals not taken from the remainder' % UTILS, UTILS, c.lineno,
                            'round_up_str_num receives the text of `%s`, not of the remainder seconds - int(seconds): the whole seconds are truncated '
                            'while the text is rounded to nearest, so a duration within 5e-10 below a whole second prints a full second too low'
                            % why, 'format_seconds_as_time(60 - 2**-47, 3)')
    parse_value_guards(ctx, repo, 'R2')
    # ---- R9 the defaults the statement names: noise begins after the fifth decimal; formatting defaults to whole seconds
    def default_of(fn_, name):
        a = fn_.args
        pos = a.args
        ds = dict(zip([x.arg for x in pos[len(pos) - len(a.defaults):]], a.defaults))
        ds.update({k.arg: v for k, v in zip(a.kwonlyargs, a.kw_defaults) if v is not None})
        v = ds.get(name)
        return v.value if isinstance(v, ast.Constant) else None
    for fn_, name, want in ((rus, cut, 5), (mod.func('format_seconds_as_time'), mod.func('format_seconds_as_time').args.args[1].arg, 0)):
        got = default_of(fn_, name)
        if got == want:
            ctx.ok('R9', '%s: default %s = %r' % (fn_.name, name, want))
        else:
            ctx.finding('R9', '%s::%s::default of %s' % (UTILS, fn_.name, name), UTILS, fn_.lineno,
                        '%s now defaults %s to %r; the documented behaviour (digits beyond the fifth decimal are noise / whole seconds by default) '
                        'is what every caller that omits the argument relies on' % (fn_.name, name, got), got)
    # ---- R8 may-raise inventory of str2num / parse_hms: every operation that can raise something other than ValueError
    n_ops = 0
    for fn in (mod.func('str2num'), mod.func('parse_hms')):
        def covered(node, families):
            c, p_ = node, getattr(node, '_parent', None)
            while p_ is not None and p_ is not fn:
                if isinstance(p_, ast.Try) and any(c is s0 for s0 in p_.body):
                    for h in p_.handlers:
                        names = {x.id for x in ast.walk(h.type) if isinstance(x, ast.Name)} if h.type is not None else {'BaseException'}
                        if names & (set(families) | {'Exception', 'BaseException', 'LookupError' if set(families) & {'IndexError', 'KeyError'} else '-',
                                                     'ArithmeticError' if 'ZeroDivisionError' in families else '-'}):
                            return True
                c, p_ = p_, getattr(p_, '_parent', None)
            return False
        ann = {id(x) for st_ in ast.walk(fn) if isinstance(st_, ast.AnnAssign) for x in ast.walk(st_.annotation)}
        for n in (x for st_ in fn.body for x in ast.walk(st_)):
            fam = None
            if id(n) in ann:
                continue
            if isinstance(n, ast.Subscript) and not isinstance(n.slice, ast.Slice) and isinstance(n.ctx, ast.Load):
                # constant index into a literal of known size is fine
                base, idx = n.value, n.slice
                try:
                    iv = ast.literal_eval(idx)
                except (ValueError, SyntaxError):
                    iv = None
                if isinstance(base, (ast.Tuple, ast.List)) and isinstance(iv, int) and not isinstance(iv, bool) \
                        and -len(base.elts) <= iv < len(base.elts):
                    continue
                fam = ('IndexError', 'KeyError')
                what = 'the subscript %s can be out of range' % unparse(n)
            elif isinstance(n, ast.BinOp) and isinstance(n.op, (ast.Div, ast.FloorDiv, ast.Mod)) and not (
                    isinstance(n.left, ast.Constant) and isinstance(n.left.value, str)):
                if isinstance(n.right, ast.Constant) and isinstance(n.right.value, (int, float)) and n.right.value != 0:
                    continue
                fam = ('ZeroDivisionError',)
                what = 'the division %s can divide by zero' % unparse(n)
            elif isinstance(n, ast.BinOp) and isinstance(n.op, ast.Mod) and isinstance(n.left, ast.Constant) and isinstance(n.left.value, str):
                nspec = len(re.findall(r'%(?!%)', n.left.value.replace('%%', '')))
                nargs = len(n.right.elts) if isinstance(n.right, ast.Tuple) else 1
                n_ops += 1
                if nspec != nargs:
                    fam = ('TypeError',)
                    what = 'the format %r has %d fields for %d arguments' % (n.left.value, nspec, nargs)
            elif isinstance(n, ast.Call) and isinstance(n.func, ast.Name) and n.func.id not in (
                    'int', 'float', 'str', 'repr', 'isinstance', 'len', 'ValueError', 'str2num', 'parse_hms', 'enumerate', 'range', 'abs', 'bool',
                    'min', 'max', 'tuple', 'list', 'reversed', 'zip', 'sum', 'round', 'divmod') and n.func.id not in mod.functions:
                fam = ('Exception',)
                what = 'the call %s is to a function this rule knows nothing about' % unparse(n)[:50]
            if fam is None:
                continue
            n_ops += 1
            if covered(n, fam):
                continue
            ctx.finding('R8', '%s::%s::may raise %s' % (UTILS, fn.name, '/'.join(fam)), UTILS, n.lineno,
                        '%s: %s, and nothing turns the %s into ValueError: for some text the caller gets an exception the contract excludes'
                        % (fn.name, what, ' / '.join(fam)), "parse_hms('x:1:2:3')")
    ctx.count('operations inventoried for other exceptions', n_ops)
    if not any(f.rule == 'R8' for f in ctx.findings):
        ctx.ok('R8', '%d operations of str2num / parse_hms that can raise something else lie in handlers that convert it' % n_ops)
    # ---- R2
    s2n = mod.func('str2num')
    ph = mod.func('parse_hms')
    for fn in (s2n, ph):
        for n in ast.walk(fn):
            if isinstance(n, ast.Raise) and n.exc is not None:
                nm = call_name(n.exc) if isinstance(n.exc, ast.Call) else getattr(n.exc, 'id', None)
                if nm != 'ValueError':
                    ctx.finding('R2', '%s::%s::raises %s' % (UTILS, fn.name, nm), UTILS, n.lineno,
                                '%s raises %s for unparsable text; the contract is ValueError and nothing else' % (fn.name, nm))
            if isinstance(n, ast.ExceptHandler):
                caught = ast.unparse(n.type) if n.type is not None else 'everything'
                names = {x.id for x in ast.walk(n.type) if isinstance(x, ast.Name)} if n.type is not None else {'everything'}
                converts = bool(n.body) and isinstance(n.body[-1], ast.Raise) and n.body[-1].exc is not None and (
                    call_name(n.body[-1].exc) if isinstance(n.body[-1].exc, ast.Call) else getattr(n.body[-1].exc, 'id', None)) == 'ValueError'
                if names <= {'ValueError', 'OverflowError', 'ArithmeticError'} and 'ValueError' in names and converts:
                    pass
                elif caught not in ('ValueError',):
                    ctx.finding('R2', '%s::%s::except %s' % (UTILS, fn.name, caught), UTILS, n.lineno,
                                '%s catches %s: errors other than ValueError are converted or swallowed' % (fn.name, caught))
                elif not n.body or not isinstance(n.body[-1], (ast.Raise, ast.Return)):
                    ctx.finding('R2', '%s::%s::handler falls through' % (UTILS, fn.name), UTILS, n.lineno,
                                '%s swallows the ValueError and continues' % fn.name)
    # ---- R5 implicit conversions: an int read from text has no bound, and int<->float conversion of an unbounded value raises
    # OverflowError (mixed int/float arithmetic converts the int; int(float) fails on inf).  Kinds per name, flow-insensitive.
    n_arith = 0
    for fn in (s2n, ph):
        kinds = {}
        params = {a.arg for a in fn.args.args}

        def kind(e):
            if isinstance(e, ast.Constant):
                if isinstance(e.value, bool) or isinstance(e.value, int):
                    return {'int'}
                if isinstance(e.value, float):
                    return {'float'}
                return set()
            if isinstance(e, ast.Name):
                return set(kinds.get(e.id, set()))
            if isinstance(e, ast.Call):
                nm = call_name(e)
                if nm == 'str2num' or nm == 'parse_hms':
                    return {'bigint', 'float'}
                if nm == 'int':
                    return {'bigint'}
                if nm == 'float':
                    return {'float'}
                if nm in ('len', 'ord'):
                    return {'int'}
                return set()
            if isinstance(e, ast.BinOp):
                a, b = kind(e.left), kind(e.right)
                if isinstance(e.op, ast.Div):
                    return {'float'} if (a or b) else set()
                out = a | b
                if 'bigint' in out:
                    out.discard('int')
                return out
            if isinstance(e, ast.UnaryOp):
                return kind(e.operand)
            if isinstance(e, ast.IfExp):
                return kind(e.body) | kind(e.orelse)
            return set()
        for _ in range(6):
            for n in ast.walk(fn):
                if isinstance(n, ast.Assign) and len(n.targets) == 1 and isinstance(n.targets[0], ast.Name):
                    kinds.setdefault(n.targets[0].id, set()).update(kind(n.value))
                if isinstance(n, ast.AugAssign) and isinstance(n.target, ast.Name):
                    k = kinds.setdefault(n.target.id, set())
                    k.update(kind(n.value))
                    if 'bigint' in k:
                        k.discard('int')

        def guarded(n):
            c, p = n, getattr(n, '_parent', None)
            while p is not None and p is not fn:
                if isinstance(p, ast.Try) and any(c is s0 for s0 in p.body):
                    for h in p.handlers:
                        names = {x.id for x in ast.walk(h.type) if isinstance(x, ast.Name)} if h.type is not None else {'BaseException'}
                        if names & {'OverflowError', 'ArithmeticError', 'Exception', 'BaseException'}:
                            return True
                c, p = p, getattr(p, '_parent', None)
            return False
        for n in ast.walk(fn):
            pair = None
            if isinstance(n, ast.BinOp) and isinstance(n.op, (ast.Add, ast.Sub, ast.Mult, ast.Div, ast.FloorDiv, ast.Mod)):
                pair = (kind(n.left), kind(n.right), n)
            elif isinstance(n, ast.AugAssign) and isinstance(n.op, (ast.Add, ast.Sub, ast.Mult, ast.Div, ast.FloorDiv, ast.Mod)):
                pair = (kind(n.target) if not isinstance(n.target, ast.Name) else set(kinds.get(n.target.id, set())), kind(n.value), n)
            if pair is not None:
                a, b, node = pair
                if not a and not b:
                    continue
                n_arith += 1
                mixed = ('bigint' in a and 'float' in b) or ('float' in a and 'bigint' in b) or (
                    isinstance(getattr(node, 'op', None), ast.Div) and 'bigint' in (a | b))
                if mixed and not guarded(node):
                    st = node
                    while not isinstance(st, ast.stmt):
                        st = st._parent
                    ctx.finding('R5', '%s::%s::unbounded int meets float in %s' % (UTILS, fn.name, stmt_key(st)), UTILS, node.lineno,
                                '%s: `%s` combines an integer read from the text (no bound on its size) with a float; the implicit conversion '
                                'raises OverflowError for an integer beyond the float range, and no enclosing handler turns it into '
                                'ValueError' % (fn.name, unparse(st)), "parse_hms('%s:0.5')" % ('9' * 400))
                elif mixed:
                    ctx.ok('R5', '%s: `%s` may overflow; OverflowError is handled' % (fn.name, unparse(node)[:60]))
            if isinstance(n, ast.Call) and call_name(n) == 'int' and n.args and 'float' in kind(n.args[0]) and not guarded(n):
                ctx.finding('R5', '%s::%s::int() of a float' % (UTILS, fn.name), UTILS, n.lineno,
                            '%s: `%s` converts a float read from the text to int; inf raises OverflowError, which no handler turns into '
                            'ValueError' % (fn.name, unparse(n)), "parse_hms('inf')")
    ctx.floor('arithmetic sites typed in str2num / parse_hms', n_arith, 2)
    # str2num: int first (integers stay integers), float second
    tr = [n for n in s2n.body if isinstance(n, ast.Try)]
    ok = False
    if len(tr) == 1 and len(tr[0].body) == 1 and isinstance(tr[0].body[0], ast.Return) and call_name(tr[0].body[0].value) == 'int' \
            and len(tr[0].handlers) == 1 and isinstance(tr[0].handlers[0].body[-1], ast.Return) \
            and call_name(tr[0].handlers[0].body[-1].value) == 'float':
        ok = True
    if ok:
        ctx.ok('R2', 'str2num: int(s) first, float(s) on ValueError (integers stay integers)')
    else:
        ctx.finding('R2', '%s::str2num::int first then float' % UTILS, UTILS, s2n.lineno,
                    'str2num no longer returns int(s) when possible and float(s) otherwise')
    # parse_hms: separators, weights, conversions inside try
    seps = None
    for n in ast.walk(ph):
        if isinstance(n, ast.For) and isinstance(n.iter, ast.Constant) and isinstance(n.iter.value, str):
            seps = n.iter.value
        if isinstance(n, ast.For) and isinstance(n.iter, (ast.Tuple, ast.List)) and all(isinstance(x, ast.Constant) for x in n.iter.elts):
            if all(isinstance(x.value, str) and len(x.value) == 1 for x in n.iter.elts):
                seps = ''.join(x.value for x in n.iter.elts)
    if seps is not None and set(seps) >= {':', ';'}:
        ctx.ok('R2', 'parse_hms tries the separators %r' % seps)
    else:
        ctx.finding('R2', '%s::parse_hms::separators' % UTILS, UTILS, ph.lineno,
                    "parse_hms tries the separators %r; both ':' and ';' are documented" % seps)
    weights = [n for n in ast.walk(ph) if isinstance(n, ast.AugAssign) and isinstance(n.op, ast.Mult)]
    if weights and all(isinstance(w.value, ast.Constant) and w.value.value == 60 for w in weights):
        ctx.ok('R2', 'sexagesimal weight 60')
    else:
        ctx.finding('R2', '%s::parse_hms::sexagesimal weight' % UTILS, UTILS, ph.lineno,
                    'the running total is not multiplied by 60 per field: %s' % [unparse(w) for w in weights])
    inits = [n for n in ast.walk(ph) if isinstance(n, ast.Assign) and ast.unparse(n.targets[0]) == 'sec']
    if inits and all(isinstance(i.value, ast.Constant) and i.value.value == 0 and isinstance(i.value.value, int) for i in inits):
        ctx.ok('R2', 'total starts at integer 0 (integers stay integers)')
    else:
        ctx.finding('R2', '%s::parse_hms::integer start' % UTILS, UTILS, ph.lineno, 'the running total does not start at the integer 0')
    for c in ast.walk(ph):
        if isinstance(c, ast.Call) and call_name(c) in ('str2num', 'int', 'float'):
            p = getattr(c, '_parent', None)
            inside = False
            while p is not None and p is not ph:
                if isinstance(p, ast.Try) and any(c in ast.walk(s) for s in p.body):
                    inside = True
                p = getattr(p, '_parent', None)
            if inside:
                ctx.ok('R2', 'parse_hms: %s inside try/except ValueError' % unparse(c))
            else:
                ctx.info('parse_hms: %s outside a try (its ValueError propagates unchanged)' % unparse(c))
    # numbers pass through
    first = [s for s in ph.body if not (isinstance(s, ast.Expr) and isinstance(s.value, ast.Constant))][0]
    if isinstance(first, ast.If) and call_name(first.test) == 'isinstance' and isinstance(first.body[-1], ast.Return):
        ctx.ok('R2', 'numbers are returned unchanged')
    # ---- R3
    fs = mod.func('format_seconds_as_time')
    sp = fs.args.args[0].arg
    seen = interval_run(fs, sp)
    n_fmt = 0
    for node, env in seen:
        fmt = node.left.value
        allspecs = re.findall(r'%(0?)(\d*)(?:\.\d+)?([a-zA-Z])', fmt.replace('%%', ''))
        right = node.right.elts if isinstance(node.right, ast.Tuple) else [node.right]
        if len(allspecs) != len(right):
            continue
        for (zero, width, conv_), arg in zip(allspecs, right):
            if conv_ != 'd':
                continue            # the decimals appended by the same format ('%d:%02d%s')
            if zero == '0':
                n_fmt += 1
                nm = ast.unparse(arg)
                iv = env.get(nm) if isinstance(arg, ast.Name) else None
                if iv is None:
                    ctx.finding('R3', '%s::format_seconds_as_time::%s unbounded in %s' % (UTILS, nm, fmt), UTILS, node.lineno,
                                'no bound is known for %s when it is formatted with %%0%sd in %r' % (nm, width, fmt))
                elif iv.lo < 0 or iv.hi > 59:
                    ctx.finding('R3', '%s::format_seconds_as_time::%s in %s at %s' % (UTILS, nm, iv, fmt), UTILS, node.lineno,
                                '%s can be %s when formatted in %r: minutes and seconds must stay below 60 (a carry is missing)'
                                % (nm, iv, fmt), str(iv))
                elif width != '2':
                    ctx.finding('R3', '%s::format_seconds_as_time::padding of %s in %s' % (UTILS, nm, fmt), UTILS, node.lineno,
                                '%s is padded to %s digits in %r, not 2' % (nm, width, fmt))
                else:
                    ctx.ok('R3', '%s in %s at %r' % (nm, iv, fmt))
    ctx.floor('zero-padded sexagesimal fields', n_fmt, 3)
    # formats: with hours both mins and secs padded; with minutes secs padded
    fmts = sorted({node.left.value for node, _ in seen})
    allf = sorted({n.left.value for n in ast.walk(fs) if isinstance(n, ast.BinOp) and isinstance(n.op, ast.Mod)
                   and isinstance(n.left, ast.Constant) and isinstance(n.left.value, str) and '%' in n.left.value and 'd' in n.left.value})
    # the decimals may be appended by the same format ('%d:%02d%s') or afterwards: what matters is the fields before them
    heads = {re.sub(r'(%s)+$', '', f_) for f_ in allf}
    if '%d:%02d:%02d' in heads and '%d:%02d' in heads and all(re.fullmatch(r'%d(:%02d)*', h_) for h_ in heads if ':' in h_):
        ctx.ok('R3', 'formats %s' % allf)
    else:
        ctx.finding('R3', '%s::format_seconds_as_time::formats' % UTILS, UTILS, fs.lineno,
                    'the h:mm:ss / m:ss formats are %s; minutes and seconds need two-digit zero padding after the first field' % allf)
    # precision guard
    F = fold.Folder()
    guard = None
    for st in fs.body:
        if isinstance(st, ast.If) and 'prec' in ast.unparse(st.test):
            guard = st
            break
    if guard is None:
        ctx.finding('R3', '%s::format_seconds_as_time::precision guard' % UTILS, UTILS, fs.lineno, 'no precision guard')
    else:
        raising_else = any(isinstance(n, ast.Raise) for s in guard.orelse for n in ast.walk(s))
        raising_body = any(isinstance(n, ast.Raise) for s in guard.body for n in ast.walk(s))
        bad = []
        pn = fs.args.args[1].arg
        for v in (-1, 0, 1, 2, 3, 4, 5, 2.0, '2', None, True):
            try:
                t = bool(F.expr(guard.test, {pn: v, 'isinstance': isinstance, 'int': int, 'float': float, 'str': str, 'bool': bool}))
            except Exception:
                t = 'error'
            accepted = (t is True and not raising_body) or (t is False and not raising_else) if t != 'error' else False
            want = isinstance(v, int) and 0 <= v <= 3
            if t == 'error' and want:
                bad.append((v, 'error'))
            elif t != 'error' and accepted != want and not (v is True):
                bad.append((v, accepted))
        excs = [call_name(n.exc) if isinstance(n.exc, ast.Call) else getattr(n.exc, 'id', None)
                for s in (guard.orelse + guard.body) for n in ast.walk(s) if isinstance(n, ast.Raise)]
        if bad or excs != ['ValueError']:
            ctx.finding('R3', '%s::format_seconds_as_time::precision guard' % UTILS, UTILS, guard.lineno,
                        'the precision guard %s accepts/refuses %s (raises %s); the contract is ints 0..3 else ValueError' % (
                            unparse(guard.test), bad, excs))
        else:
            ctx.ok('R3', 'precision guard accepts exactly ints 0..3, else ValueError')
