"""C02 — high jump: only rule-conforming trials are recorded; refusals change nothing."""
import ast
import itertools
import json
import os

from ..core import AnalysisError, VERIF
from ..ebr import EBR
from ..src import call_name, stmt_key, unparse
from ..ttable import GuardTable

LEVEL = 'other'
HJ = 'athlib/highjump.py'
COMP = 'HighJumpCompetition'
JUMPER = 'Jumper'
GUARD_NAME = ['_set_jump_array']
MUTATORS = ['add_jumper', 'set_bar_height', 'cleared', 'failed', 'passed', 'retired']
TRIALS = ['cleared', 'failed', 'passed', 'retired']


def spec():
    with open(os.path.join(VERIF, 'spec', 'hj_admission.json')) as f:
        return json.load(f)


def run(ctx, repo):
    mod = repo.module(HJ)
    SP = spec()
    STATES = SP['states']
    comp = mod.cls(COMP)
    jumper = mod.cls(JUMPER)
    ctx.explanation = (
        'All interprocedural paths of the six public mutators (and bib_trial, and the Jumper trial methods) are '
        'explored on a statement-level CFG with callee summaries: no observable store may precede a raise '
        '(refusal atomicity).  The guards of add_jumper / set_bar_height / check_started are evaluated as a decision '
        'table over the six state literals x the ordering of previous vs. new bar height x every other atomic '
        'condition as a free boolean, and the state projection is compared with spec/hj_admission.json.  State '
        'vocabulary/direction, guard order and flag/limit consistency are structural rules.')
    ctx.rule('R1', 'refusal atomicity: on every path no observable store precedes a raise')
    ctx.rule('R2', 'every raise reachable from the mutators raises RuleViolation')
    ctx.rule('R3', 'admission table (state projection) equals spec/hj_admission.json')
    ctx.rule('R4', 'state vocabulary is the six literals; scheduled only in __init__; started only from scheduled; '
                   'no assignment moves the state backwards')
    ctx.rule('R5', 'guard order: check_started, jumper operation, log append, _rank; Jumper methods guard before storing')
    ctx.rule('R6', 'flags written by the trial methods are read by the guard; attempt limits are 3 / 1')
    ctx.rule('R7', 'state decisions do not read the index of the best as if it were the latest clearance (it does not move on a clearance at or '
                   'below the best, C03.R5); outside the countback it is only tested against 0 / -1')

    # ---------------- R1 / R2
    A = EBR(mod.tree)
    entries = [(COMP, m) for m in MUTATORS + ['bib_trial']] + [(JUMPER, m) for m in TRIALS]
    for k in entries:
        if k not in A.methods:
            raise AnalysisError('anchor vanished: %s.%s' % k)
    outcomes = {}
    for k in entries:
        outcomes[k] = A.analyse(k)
    ctx.note('entry points analysed for refusal atomicity', ['%s.%s' % k for k in entries])
    ctx.note('abstract states explored', A.states_explored)
    ctx.note('method summaries', {('%s.%s' % k): sorted('%s%s' % ('W+' if w else '', e) for w, e in v)
                                  for k, v in A.summaries.items()})
    ctx.floor('method summaries computed', len(A.summaries), 10)
    seen = set()
    for r in A.reports:
        fn_qual = '%s.%s' % r['entry']
        key = (fn_qual, r['write'], r['exc'], r['kind'], r.get('callee'))
        if key in seen:
            continue
        seen.add(key)
        where = ('call of %s.%s' % r['callee']) if r.get('callee') else ('raise %s' % r['exc'])
        ctx.finding('R1', '%s::%s::%s precedes %s' % (HJ, fn_qual, r['write'], where), HJ, r['line'],
                    '%s: %s happens before a refusal (%s at line %d): a refused call leaves the object changed. '
                    'path: %s' % (fn_qual, r['write'], where, r['line'], r['trace']),
                    {'path': r['trace']})
    n_raise_paths = 0
    for k in entries:
        for w, e in outcomes[k]:
            if e.startswith('raise:'):
                n_raise_paths += 1
                exc = e.split(':', 1)[1]
                if not w:
                    ctx.ok('R1', '%s.%s: no store before raise %s' % (k[0], k[1], exc))
                if exc not in ('RuleViolation', 'AssertionError'):
                    ctx.finding('R2', '%s::%s.%s::raises %s' % (HJ, k[0], k[1], exc), HJ, None,
                                '%s.%s can refuse with %s instead of RuleViolation' % (k[0], k[1], exc))
                elif exc == 'RuleViolation':
                    ctx.ok('R2', '%s.%s refuses with RuleViolation' % k)
    ctx.floor('(entry, raising outcome) pairs', n_raise_paths, 10)
    # a refusal that is not written as a raise: looking the athlete up by a bib the caller passes (`self.jumpers_by_bib[bib]`) raises
    # KeyError for an athlete who never joined, unless the membership was tested first and refused with RuleViolation
    for fdef in [x for x in comp.body if isinstance(x, ast.FunctionDef)]:
        params_ = {a.arg for a in fdef.args.args} - {'self'}
        for sub_ in [x for x in ast.walk(fdef) if isinstance(x, ast.Subscript) and isinstance(x.ctx, ast.Load) and isinstance(x.value, ast.Attribute)
                     and x.value.attr == 'jumpers_by_bib' and isinstance(x.slice, ast.Name) and x.slice.id in params_]:
            key_ = sub_.slice.id
            tested = any(isinstance(c, ast.Compare) and len(c.ops) == 1 and isinstance(c.ops[0], (ast.In, ast.NotIn)) and isinstance(c.left, ast.Name)
                         and c.left.id == key_ and 'jumpers_by_bib' in ast.unparse(c.comparators[0]) and c.lineno <= sub_.lineno for c in ast.walk(fdef))
            caught = any(isinstance(t, ast.Try) and any(y is sub_ for st_ in t.body for y in ast.walk(st_)) and any(
                h.type is None or 'KeyError' in ast.unparse(h.type) or 'LookupError' in ast.unparse(h.type) or ast.unparse(h.type) == 'Exception'
                for h in t.handlers) for t in ast.walk(fdef))
            # or an earlier call in the same method hands the bib to a sibling method that tests it (retired -> check_started)
            for c in ast.walk(fdef):
                if isinstance(c, ast.Call) and isinstance(c.func, ast.Attribute) and isinstance(c.func.value, ast.Name) and c.func.value.id == 'self' \
                        and c.args and isinstance(c.args[0], ast.Name) and c.args[0].id == key_ and c.lineno < sub_.lineno:
                    callee = [m_ for m_ in comp.body if isinstance(m_, ast.FunctionDef) and m_.name == c.func.attr]
                    if callee and len(callee[0].args.args) > 1:
                        p0 = callee[0].args.args[1].arg
                        if any(isinstance(t_, ast.Compare) and len(t_.ops) == 1 and isinstance(t_.ops[0], (ast.In, ast.NotIn)) and isinstance(t_.left, ast.Name)
                               and t_.left.id == p0 and 'jumpers_by_bib' in ast.unparse(t_.comparators[0]) for t_ in ast.walk(callee[0])):
                            tested = True
                        # or looks it up with .get() and refuses a None
                        gets_ = [a_ for a_ in ast.walk(callee[0]) if isinstance(a_, ast.Assign) and isinstance(a_.value, ast.Call) and isinstance(a_.value.func, ast.Attribute)
                                 and a_.value.func.attr == 'get' and 'jumpers_by_bib' in ast.unparse(a_.value.func.value) and a_.value.args
                                 and isinstance(a_.value.args[0], ast.Name) and a_.value.args[0].id == p0 and isinstance(a_.targets[0], ast.Name)]
                        for a_ in gets_:
                            nm_ = a_.targets[0].id
                            if any(isinstance(i_, ast.If) and isinstance(i_.test, ast.Compare) and isinstance(i_.test.ops[0], ast.Is) and isinstance(i_.test.left, ast.Name)
                                   and i_.test.left.id == nm_ and any(isinstance(y_, ast.Raise) for y_ in ast.walk(i_)) for i_ in ast.walk(callee[0])):
                                tested = True
            if tested or caught:
                ctx.ok('R2', '%s.%s: the bib is tested before the athlete is looked up' % (COMP, fdef.name))
            else:
                ctx.finding('R2', '%s::%s.%s::unknown bib raises KeyError' % (HJ, COMP, fdef.name), HJ, sub_.lineno,
                            '%s.%s looks the athlete up with `%s` without testing that the bib belongs to the competition: a trial for an athlete who '
                            'never joined is refused with KeyError, not with RuleViolation' % (COMP, fdef.name, unparse(sub_)), "failed('Z') for a bib never added")
    # RuleViolation must be the package's own exception
    imp = [n for n in mod.tree.body if isinstance(n, ast.ImportFrom) and any(a.name == 'RuleViolation' for a in n.names)]
    if not imp:
        raise AnalysisError('RuleViolation is not imported in highjump.py')

    # ---------------- R3 admission table
    methods = {f.name: f for f in comp.body if isinstance(f, ast.FunctionDef)}
    state_consts = {}
    try:
        for k_, v_ in repo.folded(HJ)[0].items():
            if isinstance(v_, str) or (isinstance(v_, (tuple, list, frozenset, set)) and all(isinstance(x, str) for x in v_)):
                state_consts[k_] = tuple(v_) if not isinstance(v_, str) else v_
    except Exception:
        state_consts = {}
    for name, key in (('add_jumper', 'add_jumper'), ('set_bar_height', 'set_bar_height'), ('check_started', 'trial')):
        if name not in methods:
            raise AnalysisError('anchor vanished: %s.%s' % (COMP, name))
        gt = GuardTable(methods[name], STATES, consts=state_consts)
        res = gt.table()
        may = [s for s in STATES if 'proceed' in res[s].values()]
        must = [s for s in STATES if set(res[s].values()) == {'raise'}]
        want = SP[key]
        ctx.sample({'mutator': name, 'atoms': list(gt.atoms), 'may_proceed': may, 'must_raise': must})
        for s in STATES:
            if s in want['may_proceed'] and s not in may:
                ctx.finding('R3', '%s::%s.%s::refuses everything in state %s' % (HJ, COMP, name, s), HJ, methods[name].lineno,
                            '%s must be possible in state %r but every valuation of its guards raises' % (name, s))
            elif s in want['must_raise'] and s not in must:
                vals = [dict(zip(gt.atoms, v)) for v, o in res[s].items() if o == 'proceed'][:1]
                ctx.finding('R3', '%s::%s.%s::accepted in state %s' % (HJ, COMP, name, s), HJ, methods[name].lineno,
                            '%s must be refused in state %r but gets past its guards (e.g. with %s)' % (name, s, vals), vals)
            else:
                ctx.ok('R3', '%s in state %s: %s' % (name, s, 'may proceed' if s in may else 'must raise'))
        if name == 'set_bar_height':
            okeys = [k for k in gt.atoms if k.startswith('ord(')]
            if len(okeys) != 1:
                # the bar-ordering guard vanished (or there are several): every ordering proceeds
                if not okeys:
                    ctx.finding('R3', '%s::%s.set_bar_height::no bar ordering guard' % (HJ, COMP), HJ, methods[name].lineno,
                                'no comparison between the previous and the new bar height guards set_bar_height: '
                                'the bar may be lowered outside a jump-off')
                else:
                    raise AnalysisError('set_bar_height: several ordering atoms %s' % okeys)
            else:
                okey = okeys[0]
                # orientation of the atom: ord(prev, new) or ord(new, prev)
                txt = okey[4:-1]
                left, right = [x.strip() for x in txt.split(',', 1)]
                new_param = methods[name].args.args[1].arg
                if new_param in right and new_param not in left:
                    flip = False
                elif new_param in left and new_param not in right:
                    flip = True
                else:
                    raise AnalysisError('set_bar_height: cannot orient ordering atom %s' % okey)
                idx = list(gt.atoms).index(okey)
                inv = {'lt': 'gt', 'gt': 'lt', 'eq': 'eq'}
                for s, allowed in want['orderings_prev_vs_new'].items():
                    got = sorted({(inv[v[idx]] if flip else v[idx]) for v, o in res[s].items() if o == 'proceed'})
                    if got == sorted(allowed):
                        ctx.ok('R3', 'set_bar_height in %s proceeds exactly for prev %s new' % (s, '/'.join(got)))
                    else:
                        ctx.finding('R3', '%s::%s.set_bar_height::bar ordering in state %s' % (HJ, COMP, s), HJ,
                                    methods[name].lineno,
                                    'in state %r set_bar_height proceeds when previous height is %s the new one; the rules '
                                    'allow %s (the bar only rises outside a jump-off)' % (s, '/'.join(got) or 'never', '/'.join(allowed)),
                                    {'got': got, 'allowed': allowed})
    # every trial method must go through check_started before anything else (R5 below) so the table applies to it

    # ---------------- R4 state vocabulary and direction
    order = SP['state_order']
    n_sites = 0
    for n in ast.walk(mod.tree):
        consts = []
        if isinstance(n, ast.Assign) and any(isinstance(t, ast.Attribute) and t.attr == 'state' for t in n.targets):
            consts = [c.value for c in ast.walk(n.value) if isinstance(c, ast.Constant) and isinstance(c.value, str)]
            n_sites += 1
            fn = enclosing_fn(n)
            for c in consts:
                if c not in STATES:
                    ctx.finding('R4', '%s::%s::state literal %s' % (HJ, fn.name if fn else '?', c), HJ, n.lineno,
                                'state is assigned %r, which is not one of the six states' % c)
            new_states = consts
            if fn is not None and fn.name != '__init__':
                check_direction(ctx, n, fn, STATES, order, SP, new_states)
            if 'scheduled' in consts and (fn is None or fn.name != '__init__'):
                ctx.finding('R4', '%s::%s::assigns scheduled' % (HJ, fn.name if fn else '?'), HJ, n.lineno,
                            "'scheduled' is assigned outside __init__: the competition could be re-opened")
        if isinstance(n, ast.Compare):
            sides = [n.left] + list(n.comparators)
            if any(isinstance(s, ast.Attribute) and s.attr == 'state' or (isinstance(s, ast.Name) and s.id == 'state') for s in sides):
                for c in ast.walk(n):
                    if isinstance(c, ast.Constant) and isinstance(c.value, str) and c.value not in STATES:
                        fn = enclosing_fn(n)
                        ctx.finding('R4', '%s::%s::state compared with %s' % (HJ, fn.name if fn else '?', c.value), HJ, n.lineno,
                                    'state is compared with %r, which is not one of the six states' % c.value)
    ctx.floor('state assignment sites', n_sites, 4)

    # ---------------- R5 guard order
    jm = {f.name: f for f in jumper.body if isinstance(f, ast.FunctionDef)}
    # the admission guard is found by its role, not its name: the method with a raise that every trial method calls on self
    common = None
    for t_ in ('cleared', 'failed', 'passed', 'retired'):
        if t_ in jm:
            cs = {c.func.attr for c in ast.walk(jm[t_]) if isinstance(c, ast.Call) and isinstance(c.func, ast.Attribute)
                  and isinstance(c.func.value, ast.Name) and c.func.value.id == 'self' and c.func.attr in jm
                  and any(isinstance(x, ast.Raise) for x in ast.walk(jm[c.func.attr]))}
            common = cs if common is None else common & cs
    GUARD_NAME[0] = sorted(common)[0] if common else '_set_jump_array'
    for t in TRIALS:
        f = methods.get(t)
        if f is None or t not in jm:
            raise AnalysisError('anchor vanished: trial method %s' % t)
        ev = []
        for st in f.body:
            for c in [x for x in ast.walk(st) if isinstance(x, ast.Call)]:
                nm = call_name(c)
                if nm == 'check_started':
                    ev.append(('guard', st.lineno))
                elif nm == t and isinstance(c.func, ast.Attribute) and not (isinstance(c.func.value, ast.Name) and c.func.value.id == 'self'):
                    ev.append(('op', st.lineno))
                elif nm == 'append' and 'actions' in ast.unparse(c.func):
                    logged = c.args[0] if c.args else None
                    okname = isinstance(logged, ast.Tuple) and len(logged.elts) == 2 and isinstance(logged.elts[0], ast.Constant) \
                        and logged.elts[0].value == t
                    ev.append(('log' if okname else 'badlog', st.lineno))
                elif nm == '_rank':
                    ev.append(('rank', st.lineno))
        kinds = [k for k, _ in ev]
        want = ['guard', 'op', 'log', 'rank']
        if kinds == want:
            ctx.ok('R5', '%s.%s: check_started, jumper.%s, log, _rank in this order' % (COMP, t, t))
        else:
            ctx.finding('R5', '%s::%s.%s::guard/operation/log/rank order' % (HJ, COMP, t), HJ, f.lineno,
                        '%s.%s performs %s; required exactly %s (a refused or unranked trial must not be logged, '
                        'the log must name the operation)' % (COMP, t, kinds, want))
        # Jumper method: the guard call precedes the first store
        jf = jm[t]
        first_store = None
        guard_line = None
        for st in jf.body:
            if guard_line is None and any(isinstance(c, ast.Call) and call_name(c) == GUARD_NAME[0] for c in ast.walk(st)):
                guard_line = st.lineno
            if first_store is None and isinstance(st, (ast.Assign, ast.AugAssign)):
                first_store = st.lineno
        if guard_line is not None and (first_store is None or guard_line < first_store):
            ctx.ok('R5', '%s.%s calls the admission guard before its first store' % (JUMPER, t))
        else:
            ctx.finding('R5', '%s::%s.%s::admission guard before stores' % (HJ, JUMPER, t), HJ, jf.lineno,
                        '%s.%s does not call %s before writing the card/flags' % (JUMPER, t, GUARD_NAME[0]))

    # ---------------- R6 flags and limits
    guard = jm.get(GUARD_NAME[0])
    if guard is None:
        raise AnalysisError('anchor vanished: the admission guard of Jumper (the method with a raise that every trial method calls)')
    first_if = [st for st in guard.body if isinstance(st, ast.If)]
    flags_read = set()
    if first_if and any(isinstance(x, ast.Raise) for x in first_if[0].body):
        flags_read = {a.attr for a in ast.walk(first_if[0].test) if isinstance(a, ast.Attribute)}
        # the flags must be sufficient conditions: test is an `or` of flags (or a single flag)
        t = first_if[0].test
        disj = t.values if isinstance(t, ast.BoolOp) and isinstance(t.op, ast.Or) else [t]
        flags_sufficient = {d.attr for d in disj if isinstance(d, ast.Attribute)}
    else:
        flags_sufficient = set()
    # the flag test must come before the first card write (append)
    for need in ('eliminated', 'dismissed'):
        if need in flags_sufficient:
            ctx.ok('R6', '%s refuses when %s' % (GUARD_NAME[0], need))
        else:
            ctx.finding('R6', '%s::%s.%s::%s not sufficient to refuse' % (HJ, JUMPER, GUARD_NAME[0], need), HJ, guard.lineno,
                        'the admission guard no longer refuses on the flag %r alone: an athlete who is %s could take '
                        'another trial' % (need, 'eliminated or retired' if need == 'eliminated' else 'done at this height'))
    want_flags = {'cleared': [('dismissed', True)], 'passed': [('dismissed', True)],
                  'retired': [('eliminated', True), ('dismissed', True)]}
    for m, wants in want_flags.items():
        got = set()
        for n in jm[m].body:
            if isinstance(n, ast.Assign) and isinstance(n.value, ast.Constant):
                for t in n.targets:
                    if isinstance(t, ast.Attribute):
                        got.add((t.attr, n.value.value))
        for w in wants:
            if w in got:
                ctx.ok('R6', '%s.%s sets %s=%s unconditionally' % (JUMPER, m, w[0], w[1]))
            else:
                ctx.finding('R6', '%s::%s.%s::sets %s=%s' % (HJ, JUMPER, m, w[0], w[1]), HJ, jm[m].lineno,
                            'after %s the flag %s must be %s so that the guard refuses further trials at this height' % (m, w[0], w[1]))
    if ('consecutive_failures', 0) in {(t.attr, n.value.value) for n in jm['cleared'].body if isinstance(n, ast.Assign)
                                       and isinstance(n.value, ast.Constant) for t in n.targets if isinstance(t, ast.Attribute)}:
        ctx.ok('R6', 'cleared resets consecutive_failures')
    else:
        ctx.finding('R6', '%s::%s.cleared::resets consecutive_failures' % (HJ, JUMPER), HJ, jm['cleared'].lineno,
                    'a clearance no longer resets the count of consecutive failures')
    # only a clearance (and a jump-off reinstatement) resets the run of failures: a pass or a retirement does not
    resetters = set()
    for f in ast.walk(mod.tree):
        if isinstance(f, ast.FunctionDef):
            for n in ast.walk(f):
                if isinstance(n, ast.Assign) and isinstance(n.value, ast.Constant) and n.value.value == 0 and any(
                        isinstance(t, ast.Attribute) and t.attr == 'consecutive_failures' for t in n.targets):
                    resetters.add(f.name)
    extra = resetters - {'__init__', 'cleared', '_rank'}
    if extra:
        ctx.finding('R6', '%s::consecutive_failures reset in %s' % (HJ, sorted(extra)), HJ, None,
                    'the count of consecutive failures is reset in %s: failures carried across a pass no longer add up to three, so an athlete '
                    'jumps on after three consecutive failures' % sorted(extra), 'xx- at one height, x at the next')
    else:
        ctx.ok('R6', 'consecutive_failures is reset only by a clearance and by jump-off reinstatement')
    # nobody jumps after retiring: every reinstatement (eliminated = False) is control-dependent on that athlete not having retired
    n_re = 0
    for f in ast.walk(mod.tree):
        if not isinstance(f, ast.FunctionDef) or f.name == '__init__':
            continue
        for n in ast.walk(f):
            if isinstance(n, ast.Assign) and isinstance(n.value, ast.Constant) and n.value.value is False and any(
                    isinstance(t, ast.Attribute) and t.attr == 'eliminated' for t in n.targets):
                n_re += 1
                guarded = False
                c, p = n, getattr(n, '_parent', None)
                while p is not None and p is not f:
                    if isinstance(p, ast.If) and c is not p.test:
                        t = ast.unparse(p.test)
                        if 'has_retired' in t:
                            # in the orelse of `if j.has_retired`, or in the body of a test containing `not ....has_retired`
                            if (c in p.orelse and 'not ' not in t.split('has_retired')[0][-8:]) or (c in p.body and 'not ' in t and 'has_retired' in t.split('not ')[-1]):
                                guarded = True
                    c, p = p, getattr(p, '_parent', None)
                if guarded:
                    ctx.ok('R6', '%s: reinstatement guarded by not has_retired' % f.name)
                else:
                    ctx.finding('R6', '%s::%s::reinstatement without a retirement guard' % (HJ, f.name), HJ, n.lineno,
                                '%s sets eliminated = False for an athlete without testing that they have not retired: a retired athlete is '
                                'let back in and their next jump is accepted' % f.name, 'leader retires in a jump-off, rival fails')
    ctx.floor('reinstatement sites', n_re, 2)
    # has_retired recognises every cell retired() can leave: the letter is appended to the current cell (`cell += 'r'`), which may
    # already hold failures ('xr', 'xxr'), so the reader must test the end of the cell (endswith / last character / containment),
    # never equality of the whole cell
    hr = jm.get('has_retired')
    if hr is None:
        raise AnalysisError('anchor vanished: Jumper.has_retired')
    appends = any(isinstance(a, ast.AugAssign) and isinstance(a.value, ast.Constant) and a.value.value == 'r' for a in ast.walk(jm['retired']))
    suffix_test = any(
        (isinstance(c, ast.Call) and call_name(c) == 'endswith' and c.args and isinstance(c.args[0], ast.Constant) and c.args[0].value == 'r')
        or (isinstance(c, ast.Compare) and isinstance(c.ops[0], ast.In) and isinstance(c.left, ast.Constant) and c.left.value == 'r')
        or (isinstance(c, ast.Compare) and isinstance(c.ops[0], ast.Eq) and isinstance(c.comparators[0], ast.Constant) and c.comparators[0].value == 'r'
            and isinstance(c.left, ast.Subscript) and isinstance(c.left.value, ast.Subscript))
        for c in ast.walk(hr))
    whole_eq = [c for c in ast.walk(hr) if isinstance(c, ast.Compare) and isinstance(c.ops[0], ast.Eq) and any(
        (isinstance(x, ast.Constant) and x.value == 'r') for x in ast.walk(c.comparators[0]))
        and not (isinstance(c.left, ast.Subscript) and isinstance(c.left.value, ast.Subscript))]
    # decided by folding has_retired over the complete domain of last cells (every string of at most three letters o x - optionally followed by r, alone
    # or after another cell) when its body is foldable; the syntactic test above is the fallback
    folded_bad = None
    try:
        import itertools
        from .. import fold as _fold
        # the retirement letter can only be the last of a cell (nothing is accepted after it)
        cells = [''.join(t) + r_ for k in range(0, 4) for t in itertools.product('ox-', repeat=k) for r_ in ('', 'r')]
        F_ = _fold.Folder()
        def _hr(card):
            env_ = {hr.args.args[0].arg: _fold.ObjConst({'attempts_by_height': list(card)})}
            try:
                for st_ in hr.body:
                    F_.stmt(st_, env_)
            except _fold._Return as r_:
                return bool(r_.v)
            return False
        for c_ in cells:
            for card in ([c_], ['o', c_]):
                if _hr(card) != c_.endswith('r'):
                    folded_bad = (card, _hr(card))
                    break
            if folded_bad:
                break
        decided = True
    except Exception:
        decided = False
    if decided and appends:
        whole_eq = whole_eq if folded_bad else []
        suffix_test = not folded_bad
    if appends and (whole_eq or not suffix_test):
        ctx.finding('R6', '%s::%s.has_retired::whole-cell comparison' % (HJ, JUMPER), HJ, hr.lineno,
                    "retired() appends 'r' to the current cell, which can already hold failures ('xr', 'xxr'), but has_retired %s: an athlete who "
                    'retires after a failure at the same height does not count as retired, is reinstated into a jump-off and jumps again'
                    % ('compares the whole cell with it (`%s`)' % unparse(whole_eq[0]) if whole_eq else (
                        'answers %s for the card %r' % (folded_bad[1], folded_bad[0]) if folded_bad else 'does not test the end of the cell')),
                    "card cell 'xr', then a tie for first")
    else:
        ctx.ok('R6', "has_retired tests the end of the cell, matching retired()'s append")
    # `remaining` and `eliminated` partition the field: _rank decides "one athlete left" by 1 + len(eliminated) == len(jumpers), so an
    # athlete who is in neither list (or in both) makes the competition undecidable or decided too early.  Folded over every
    # combination of the flags a jumper carries.
    cm_ = {f.name: f for f in mod.cls(COMP).body if isinstance(f, ast.FunctionDef)}
    if 'remaining' in cm_ and 'eliminated' in cm_:
        import itertools as _it
        from .. import fold as _fold
        flags = ('eliminated', 'has_retired', 'dismissed')
        js_ = [_fold.ObjConst(dict(zip(flags, v), bib=str(i), _place=1, highest_cleared_index=0))
               for i, v in enumerate(_it.product((False, True), repeat=len(flags)))]
        def _lst(fn_):
            env_ = {fn_.args.args[0].arg: _fold.ObjConst({'jumpers': list(js_)})}
            try:
                for st_ in fn_.body:
                    _fold.Folder().stmt(st_, env_)
            except _fold._Return as r_:
                return list(r_.v)
            return None
        try:
            rem_, eli_ = _lst(cm_['remaining']), _lst(cm_['eliminated'])
        except Exception as e_:
            rem_ = eli_ = None
            ctx.info('remaining / eliminated not foldable (%s): partition not decided' % e_)
        if rem_ is not None and eli_ is not None:
            bad_ = [j for j in js_ if (any(x is j for x in rem_) + any(x is j for x in eli_)) != 1]
            if bad_:
                b_ = bad_[0]
                ctx.finding('R6', '%s::%s::remaining and eliminated do not partition the field' % (HJ, COMP), HJ, cm_['eliminated'].lineno,
                            'an athlete with %s is in %s: _rank counts 1 + len(eliminated) against len(jumpers) to see that one athlete is left, so the '
                            'competition is never declared won (or is declared won too early) once such an athlete exists'
                            % (', '.join('%s=%s' % (k, b_.attrs[k]) for k in flags),
                               'neither list' if not (any(x is b_ for x in rem_) or any(x is b_ for x in eli_)) else 'both lists'),
                            'one athlete retires, later a sole survivor clears')
            else:
                ctx.ok('R6', 'remaining and eliminated partition the jumpers for all 8 flag combinations')
    # the first bar height starts the competition unconditionally: scheduled -> started depends on nothing but the state
    sbh = [f for f in mod.cls(COMP).body if isinstance(f, ast.FunctionDef) and f.name == 'set_bar_height']
    if not sbh:
        raise AnalysisError('anchor vanished: set_bar_height')
    starts = [n for n in ast.walk(sbh[0]) if isinstance(n, ast.If) and any(
        isinstance(a, ast.Assign) and any(isinstance(t, ast.Attribute) and t.attr == 'state' for t in a.targets)
        and isinstance(a.value, ast.Constant) and a.value.value == 'started' for a in n.body)]
    for n in starts:
        t = n.test
        plain = isinstance(t, ast.Compare) and len(t.ops) == 1 and isinstance(t.ops[0], ast.Eq) and 'state' in ast.unparse(t.left) \
            and isinstance(t.comparators[0], ast.Constant) and t.comparators[0].value == 'scheduled'
        if plain:
            ctx.ok('R4', "set_bar_height: scheduled -> started depends on the state alone")
        else:
            ctx.finding('R4', '%s::%s.set_bar_height::start depends on more than the state' % (HJ, COMP), HJ, n.lineno,
                        "the first bar height starts the competition only when `%s`: otherwise the height is accepted and logged while the state "
                        "stays 'scheduled', so athletes can still be added after the first bar" % unparse(t), 'set_bar_height on an empty start list, then add_jumper')
    if not starts:
        ctx.finding('R4', '%s::%s.set_bar_height::never starts' % (HJ, COMP), HJ, sbh[0].lineno, "set_bar_height no longer moves 'scheduled' to 'started'")

    # only a failure below the limit and a new bar re-open the round for an athlete: a reinstatement must not clear `dismissed`
    clearers = set()
    for f in ast.walk(mod.tree):
        if isinstance(f, ast.FunctionDef):
            for n in ast.walk(f):
                if isinstance(n, ast.Assign) and isinstance(n.value, ast.Constant) and n.value.value is False and any(
                        isinstance(t, ast.Attribute) and t.attr == 'dismissed' for t in n.targets):
                    clearers.add(f.name)
    extra = clearers - {'__init__', 'failed', 'set_bar_height'}
    if extra:
        ctx.finding('R6', '%s::dismissed cleared in %s' % (HJ, sorted(extra)), HJ, None,
                    'dismissed is set to False in %s: an athlete who is done at the current bar (three failures, cleared or passed) can take '
                    'another trial at that bar before a new height is set' % sorted(extra), 'tied leaders eliminated at different heights, the earlier one acts before the next bar')
    else:
        ctx.ok('R6', 'dismissed is cleared only by a failure below the limit and by set_bar_height')
    check_failed(ctx, jm['failed'])
    check_limit_test(ctx, guard)
    # limits: constants 3 (initial) and 1 (jump-off)
    rl = A.field_vals.get('round_lim')
    lims = SP['attempt_limits']
    if rl is None:
        ctx.finding('R6', '%s::round_lim::non-constant store' % HJ, HJ, None, 'round_lim is assigned a non-constant value')
    else:
        init_vals = {n.value.value for n in ast.walk(jm['__init__']) if isinstance(n, ast.Assign) and isinstance(n.value, ast.Constant)
                     and any(isinstance(t, ast.Attribute) and t.attr == 'round_lim' for t in n.targets)}
        other = set()
        for n in ast.walk(mod.tree):
            if isinstance(n, ast.Assign) and isinstance(n.value, ast.Constant) and enclosing_fn(n) is not jm['__init__'] \
                    and any(isinstance(t, ast.Attribute) and t.attr == 'round_lim' for t in n.targets):
                other.add(n.value.value)
        if init_vals == {lims['initial']} and other <= {lims['jumpoff']} and other:
            ctx.ok('R6', 'attempt limits: %s initially, %s in a jump-off' % (sorted(init_vals), sorted(other)))
        else:
            ctx.finding('R6', '%s::round_lim::attempt limits' % HJ, HJ, None,
                        'attempt limits are %s initially and %s afterwards; the rules say %d and %d (jump-off)' % (
                            sorted(init_vals), sorted(other), lims['initial'], lims['jumpoff']))
    # from_matrix iterates exactly `initial` attempts
    env, _ = repo.folded(HJ)
    fm = methods.get('from_matrix')
    if fm is not None:
        iters = [n for n in ast.walk(fm) if isinstance(n, ast.For) and isinstance(n.target, ast.Name) and n.target.id == 'a']
        for it in iters:
            try:
                import sa.fold as F
                vals = list(F.Folder().expr(it.iter, dict(env)))
            except Exception:
                vals = None
            if vals is not None and vals == list(range(lims['initial'])):
                ctx.ok('R6', 'from_matrix replays attempts %s' % vals)
            elif vals is not None:
                ctx.finding('R6', '%s::%s.from_matrix::attempt range' % (HJ, COMP), HJ, it.lineno,
                            'from_matrix replays attempts %s of each cell, not 0..%d' % (vals, lims['initial'] - 1))
    # set_bar_height resets dismissed for athletes still in
    sbh = methods['set_bar_height']
    resets = [n for n in ast.walk(sbh) if isinstance(n, ast.Assign) and isinstance(n.value, ast.Constant) and n.value.value is False
              and any(isinstance(t, ast.Attribute) and t.attr == 'dismissed' for t in n.targets)]
    if resets:
        ctx.ok('R6', 'set_bar_height clears dismissed')
    else:
        ctx.finding('R6', '%s::%s.set_bar_height::clears dismissed' % (HJ, COMP), HJ, sbh.lineno,
                    'raising the bar no longer re-admits the athletes who are done at the previous height')

    # ---- R7 shared with C03: reads of the index of the best
    from .c03 import best_index_beliefs, methods_of as _mo
    _mod = repo.module('athlib/highjump.py')
    best_index_beliefs(ctx, _mod, _mo(_mod.cls('Jumper')), 'R7')

def enclosing_fn(n):
    p = getattr(n, '_parent', None)
    while p is not None and not isinstance(p, ast.FunctionDef):
        p = getattr(p, '_parent', None)
    return p


def state_conditions(n, fn):
    """[(test, polarity)] of the enclosing ifs / ternaries of node n inside fn"""
    out = []
    c = n
    p = getattr(n, '_parent', None)
    while p is not None and p is not fn:
        if isinstance(p, ast.If) and c is not p.test:
            out.append((p.test, c in p.body))
        if isinstance(p, ast.IfExp) and c is not p.test:
            out.append((p.test, c is p.body))
        c = p
        p = getattr(p, '_parent', None)
    return out


def eval_state_test(test, state, STATES):
    """True/False/None(unknown) of a test for a given current state"""
    if isinstance(test, ast.BoolOp):
        vals = [eval_state_test(v, state, STATES) for v in test.values]
        if isinstance(test.op, ast.And):
            if any(v is False for v in vals):
                return False
            return True if all(v is True for v in vals) else None
        if any(v is True for v in vals):
            return True
        return False if all(v is False for v in vals) else None
    if isinstance(test, ast.UnaryOp) and isinstance(test.op, ast.Not):
        v = eval_state_test(test.operand, state, STATES)
        return None if v is None else (not v)
    if isinstance(test, ast.Compare) and len(test.ops) == 1:
        l, r = test.left, test.comparators[0]
        is_state = lambda e: (isinstance(e, ast.Attribute) and e.attr == 'state') or (isinstance(e, ast.Name) and e.id == 'state')
        if is_state(l):
            if isinstance(r, ast.Constant):
                rv = r.value
            elif isinstance(r, (ast.Tuple, ast.List, ast.Set)) and all(isinstance(x, ast.Constant) for x in r.elts):
                rv = tuple(x.value for x in r.elts)
            else:
                return None
            op = test.ops[0]
            if isinstance(op, ast.Eq):
                return state == rv
            if isinstance(op, ast.NotEq):
                return state != rv
            if isinstance(op, ast.In):
                return state in rv
            if isinstance(op, ast.NotIn):
                return state not in rv
    return None


def check_direction(ctx, n, fn, STATES, order, SP, new_states):
    conds = state_conditions(n, fn)
    # entry states: those in which the enclosing public operation can get past its guards
    if fn.name == 'set_bar_height':
        entry = set(SP['set_bar_height']['may_proceed'])
    elif fn.name == 'add_jumper':
        entry = set(SP['add_jumper']['may_proceed'])
    else:
        entry = set(SP['trial']['may_proceed']) - {'drawn'}
        ctx.assume("state 'drawn' is closed by the athletes' flags (everybody tied for first has retired), so _rank "
                   "does not run in it; this is a reachable-state invariant that the static rules do not establish")
    feasible = []
    for s in STATES:
        if s not in entry:
            continue
        ok = True
        for test, pol in conds:
            v = eval_state_test(test, s, STATES)
            if v is not None and v != pol:
                ok = False
        if ok:
            feasible.append(s)
    def outs_of(e, st):
        if isinstance(e, ast.Constant):
            return [e.value]
        if isinstance(e, ast.IfExp):
            v = eval_state_test(e.test, st, STATES)
            if v is True:
                return outs_of(e.body, st)
            if v is False:
                return outs_of(e.orelse, st)
            return outs_of(e.body, st) + outs_of(e.orelse, st)
        return [c.value for c in ast.walk(e) if isinstance(c, ast.Constant) and isinstance(c.value, str)]
    cases = [(s, o) for s in feasible for o in outs_of(n.value, s)]
    for s, o in cases:
        if o not in order:
            continue
        if order[o] < order[s]:
            ctx.finding('R4', '%s::%s::state %s -> %s' % (HJ, fn.name, s, o), HJ, n.lineno,
                        'the state can move backwards from %r to %r (%s)' % (s, o, unparse(n)))
        elif o == 'started' and s != 'scheduled' and s != 'started':
            ctx.finding('R4', '%s::%s::state %s -> started' % (HJ, fn.name, s), HJ, n.lineno,
                        "'started' is assigned when the state may be %r" % s)
        else:
            ctx.ok('R4', '%s: %s -> %s moves forward' % (fn.name, s, o))


def small_eval(e, env):
    """tiny integer evaluator for limit tests"""
    import operator as o
    if isinstance(e, ast.Constant):
        return e.value
    if isinstance(e, ast.BinOp) and isinstance(e.op, (ast.Add, ast.Sub)):
        a, b = small_eval(e.left, env), small_eval(e.right, env)
        return a + b if isinstance(e.op, ast.Add) else a - b
    if isinstance(e, ast.Compare) and len(e.ops) == 1:
        a, b = small_eval(e.left, env), small_eval(e.comparators[0], env)
        return {ast.Gt: o.gt, ast.GtE: o.ge, ast.Lt: o.lt, ast.LtE: o.le, ast.Eq: o.eq, ast.NotEq: o.ne}[type(e.ops[0])](a, b)
    if isinstance(e, ast.Attribute) and e.attr in env:
        return env[e.attr]
    if isinstance(e, ast.Call) and call_name(e) == 'len':
        return env['len']
    raise AnalysisError('limit test: cannot evaluate %s' % ast.unparse(e))


def check_limit_test(ctx, guard):
    """the attempts guard refuses exactly when len(card[-1]) >= round_lim"""
    tests = [st for st in ast.walk(guard) if isinstance(st, ast.If) and 'round_lim' in ast.unparse(st.test)
             and any(isinstance(x, ast.Raise) for x in st.body)]
    if not tests:
        ctx.finding('R6', '%s::%s.%s::attempt limit guard' % (HJ, JUMPER, GUARD_NAME[0]), HJ, guard.lineno,
                    'no guard refuses an attempt beyond round_lim')
        return
    t = tests[0].test
    bad = []
    for L, R in itertools.product(range(0, 6), (1, 3)):
        try:
            v = small_eval(t, {'len': L, 'round_lim': R})
        except AnalysisError:
            raise
        if bool(v) != (L >= R):
            bad.append((L, R, bool(v)))
    if bad:
        ctx.finding('R6', '%s::%s.%s::attempt limit off by one' % (HJ, JUMPER, GUARD_NAME[0]), HJ, tests[0].lineno,
                    'the attempts guard %s does not refuse exactly when the card entry already holds round_lim trials '
                    '(e.g. len=%d, limit=%d gives %s)' % (unparse(t), bad[0][0], bad[0][1], bad[0][2]), bad[:3])
    else:
        ctx.ok('R6', 'attempts guard refuses exactly when len(entry) >= round_lim', unparse(t))


def check_failed(ctx, f):
    """failed(): eliminated (and dismissed) exactly when consecutive_failures >= round_lim after the increment"""
    # decided by folding the method (after its admission guard) over the complete domain failures-so-far x attempt limit: the flags are
    # touched only through comparisons with the limit; the reading of the if below is the fallback when the body does not fold
    try:
        import itertools as _it
        from .. import fold as _fold
        body_ = [st for st in f.body if not (isinstance(st, ast.Expr) and isinstance(st.value, ast.Call) and call_name(st.value) == GUARD_NAME[0])
                 and not (isinstance(st, ast.Expr) and isinstance(st.value, ast.Constant))]
        bad_ = None
        for cf_, R_ in _it.product(range(0, 5), (1, 3)):
            me = _fold.ObjConst({'attempts_by_height': ['x' * min(cf_, 2)], 'consecutive_failures': cf_, 'round_lim': R_, 'eliminated': False,
                                 'dismissed': False, 'highest_cleared': 0, 'highest_cleared_index': -1})
            env_ = {f.args.args[0].arg: me}
            for a_ in f.args.args[1:]:
                env_[a_.arg] = 1
            try:
                for st in body_:
                    _fold.Folder().stmt(st, env_)
            except _fold._Return:
                pass
            out_ = (me.attrs['consecutive_failures'], bool(me.attrs['eliminated']), bool(me.attrs['dismissed']), me.attrs['attempts_by_height'][-1][-1:])
            want_ = (cf_ + 1, cf_ + 1 >= R_, cf_ + 1 >= R_, 'x')
            if out_ != want_ and bad_ is None:
                bad_ = (cf_, R_, out_, want_)
        if bad_:
            ctx.finding('R6', '%s::%s.failed::elimination threshold' % (HJ, JUMPER), HJ, f.lineno,
                        'failed() with %d failures in a row before it and the limit %d leaves (failures, eliminated, dismissed, letter) = %s; the rules '
                        'need %s: an athlete is out exactly when the failures in a row reach the limit' % (bad_[0], bad_[1], bad_[2], bad_[3]))
        else:
            ctx.ok('R6', 'failed() eliminates and dismisses exactly when consecutive_failures reaches round_lim (folded on 10 cases)')
            ctx.ok('R6', 'failed() below the limit keeps the athlete in the round')
        return
    except Exception:
        pass
    incs = [n for n in f.body if isinstance(n, ast.AugAssign) and isinstance(n.target, ast.Attribute)
            and n.target.attr == 'consecutive_failures' and isinstance(n.op, ast.Add)
            and isinstance(n.value, ast.Constant) and n.value.value == 1]
    ifs = [n for n in f.body if isinstance(n, ast.If) and 'consecutive_failures' in ast.unparse(n.test)]
    if not incs or not ifs:
        ctx.finding('R6', '%s::%s.failed::counts consecutive failures' % (HJ, JUMPER), HJ, f.lineno,
                    'failed() no longer counts consecutive failures against the attempt limit')
        return
    t = ifs[0].test
    bad = []
    for cf, R in itertools.product(range(0, 6), (1, 3)):
        v = small_eval(t, {'consecutive_failures': cf, 'round_lim': R})
        if bool(v) != (cf >= R):
            bad.append((cf, R, bool(v)))
    sets = {(tg.attr, n.value.value) for n in ifs[0].body if isinstance(n, ast.Assign) and isinstance(n.value, ast.Constant)
            for tg in n.targets if isinstance(tg, ast.Attribute)}
    if bad or ('eliminated', True) not in sets or ('dismissed', True) not in sets:
        ctx.finding('R6', '%s::%s.failed::elimination threshold' % (HJ, JUMPER), HJ, ifs[0].lineno,
                    'failed() must eliminate (and dismiss) exactly when consecutive failures reach round_lim; test %s sets %s%s'
                    % (unparse(t), sorted(sets), (' e.g. failures=%d limit=%d -> %s' % bad[0]) if bad else ''))
    else:
        ctx.ok('R6', 'failed() eliminates exactly when consecutive_failures >= round_lim')
    # not eliminated -> may jump again at this height
    els = {(tg.attr, n.value.value) for n in ifs[0].orelse if isinstance(n, ast.Assign) and isinstance(n.value, ast.Constant)
           for tg in n.targets if isinstance(tg, ast.Attribute)}
    if ('dismissed', False) in els:
        ctx.ok('R6', 'failed() below the limit keeps the athlete in the round')


def retired_reader_by_folding(hr):
    """has_retired folded over every reachable last cell (at most three letters o x -, optionally followed by r; alone or after another
    cell): None when it answers `cell ends with r` everywhere, (card, answer) for the first disagreement, 'unfoldable' otherwise"""
    import itertools
    from .. import fold as _fold
    cells = [''.join(t) + r_ for k in range(0, 4) for t in itertools.product('ox-', repeat=k) for r_ in ('', 'r')]
    F_ = _fold.Folder()

    def _hr(card):
        env_ = {hr.args.args[0].arg: _fold.ObjConst({'attempts_by_height': list(card)})}
        try:
            for st_ in hr.body:
                F_.stmt(st_, env_)
        except _fold._Return as r_:
            return bool(r_.v)
        return False
    try:
        for c_ in cells:
            for card in ([c_], ['o', c_]):
                if _hr(card) != c_.endswith('r'):
                    return (card, _hr(card))
    except Exception:
        return 'unfoldable'
    return None
