"""C16 — concurrent calls give single-threaded answers: no racy shared write is reachable from the entry points."""
import ast

from ..callgraph import Graph
from ..core import AnalysisError
from ..src import call_name, stmt_key, unparse

LEVEL = 'other'
INIT = 'athlib/__init__.py'
RELS = [INIT, 'athlib/athlon_score.py', 'athlib/hungarian_score.py', 'athlib/sportshall_score.py', 'athlib/tyrving_score.py',
        'athlib/qkids_score.py', 'athlib/bulgarian_score.py', 'athlib/wma/agegrader.py', 'athlib/utils.py',
        'athlib/implements.py', 'athlib/codes.py', 'athlib/uka/agegroups.py']
ENTRIES_INIT = ['athlon_score', 'athlon_performance_needed', 'hungarian_score', 'sportshall_score', 'tyrving_score',
                'qkids_score', 'bulgarian_score', 'wma_age_grade', 'wma_age_factor', 'wma_world_best',
                'wma_athlon_age_factor', 'wma_athlon_age_grade']
ENTRIES_UTILS = ['schema_valid', 'valid_against_schema']
MUT = {'append', 'extend', 'insert', 'pop', 'remove', 'clear', 'sort', 'reverse', 'update', 'setdefault', 'add',
       'discard', 'popitem', '__setitem__', '__delitem__'}
ATOMIC = {'pop', 'popitem', 'setdefault', 'get', 'append'}


def module_shared(mod):
    """module-level names bound to mutable containers or None placeholders"""
    out = {}
    for st in mod.tree.body:
        if isinstance(st, (ast.Assign, ast.AnnAssign)):
            tg = st.targets if isinstance(st, ast.Assign) else [st.target]
            v = st.value
            kind = None
            if isinstance(v, (ast.Dict, ast.List, ast.Set, ast.DictComp, ast.ListComp, ast.SetComp)):
                kind = 'container'
            elif isinstance(v, ast.Constant) and v.value is None:
                kind = 'placeholder'
            elif isinstance(v, ast.Call) and call_name(v) in ('dict', 'list', 'set', 'OrderedDict', 'defaultdict', 'deque'):
                kind = 'container'
            for t in tg:
                if isinstance(t, ast.Name) and kind:
                    out[t.id] = kind
    return out


def root_name(e):
    while isinstance(e, (ast.Subscript, ast.Attribute)):
        e = e.value
    return e.id if isinstance(e, ast.Name) else None


def arg_independent(expr, fn, self_indep_attrs, params, visiting=frozenset()):
    """True if expr depends only on constants, module-level names, and self attributes in self_indep_attrs,
    through local definitions (def-use closure)"""
    for n in ast.walk(expr):
        if isinstance(n, ast.Name) and isinstance(n.ctx, ast.Load):
            if n.id == 'self':
                continue
            if n.id in params:
                return False
            if n.id in visiting:
                continue
            defs = []
            for d in ast.walk(fn):
                if isinstance(d, ast.Assign) and any(isinstance(x, ast.Name) and x.id == n.id for t in d.targets for x in ast.walk(t)):
                    defs.append(d.value)
                if isinstance(d, (ast.For, ast.comprehension)) and any(isinstance(x, ast.Name) and x.id == n.id for x in ast.walk(d.target)):
                    defs.append(d.iter)
                if isinstance(d, ast.With):
                    for it in d.items:
                        if it.optional_vars is not None and any(isinstance(x, ast.Name) and x.id == n.id for x in ast.walk(it.optional_vars)):
                            defs.append(it.context_expr)
                if isinstance(d, ast.AugAssign) and isinstance(d.target, ast.Name) and d.target.id == n.id:
                    defs.append(d.value)
            for d in defs:
                if not arg_independent(d, fn, self_indep_attrs, params, visiting | {n.id}):
                    return False
        if isinstance(n, ast.Attribute) and isinstance(n.value, ast.Name) and n.value.id == 'self' and isinstance(n.ctx, ast.Load):
            if n.attr not in self_indep_attrs:
                # methods/properties are fine, data attributes written dependently are not
                if n.attr in self_indep_attrs.get('__dependent__', ()):  # pragma: no cover
                    return False
    return True


def run(ctx, repo):
    G = Graph(repo, RELS)
    ctx.explanation = (
        'Sufficient condition for every schedule: an inventory of shared mutable storage (module-level containers and None '
        'placeholders rebound through `global`, module-level instances, class attributes) and of every write site reachable '
        'from the public entry points through the resolved call graph (receiver kinds shared / per-call by escape analysis); '
        'each write must be one of the accepted idioms: I1 publish after build (one rebinding of the global to a completely '
        'built value, never mutated afterwards), I2 idempotent lazy cache on an instance (stored value independent of the '
        'call arguments), I3 a single atomic container operation with no iterator held across it.')
    ctx.rule('I1', 'a lazily built global is bound once to a completely built value and never mutated in place')
    ctx.rule('I2', 'stores on a shared instance outside __init__ are independent of the call arguments (idempotent lazy cache)')
    ctx.rule('I6', 'no reachable function changes a row of a shared module-level table in place (through an alias or directly), restored or not')
    ctx.rule('I7', 'no reachable function assigns an attribute of an imported module (process-wide setting) at call time')
    ctx.rule('GEN', 'no module-level one-shot iterator, mutable default changed in place or loop variable surviving a handled error in reachable code')
    ctx.rule('I8', 'no change of the per-thread decimal context in the modules of the reachable functions')
    ctx.rule('I9', 'no module-level container is changed in place by reachable code while reachable code iterates it')
    ctx.rule('I3', 'a shared container is touched only by single atomic operations; no iterator/view is held across a mutation')
    entries = []
    for n in ENTRIES_INIT:
        r = G.resolve_name(INIT, n)
        if r is None:
            raise AnalysisError('anchor vanished: entry point athlib.%s' % n)
        entries.append(r)
    for n in ENTRIES_UTILS:
        r = G.resolve_name('athlib/utils.py', n)
        if r is None:
            raise AnalysisError('anchor vanished: entry point utils.%s' % n)
        entries.append(r)
    seen = G.reach(entries)
    ctx.note('entry points', ['%s::%s' % e for e in entries])
    ctx.count('reachable (function, receiver kind) nodes', len(seen))
    ctx.floor('reachable functions', len({k for k, _, _ in seen}), 30)
    shared = {rel: module_shared(m) for rel, m in G.mods.items()}
    inv = {'module_level': {rel: s for rel, s in shared.items() if s},
           'module_level_instances': {rel: i for rel, i in G.instances.items() if i}}
    ctx.note('shared storage inventory', inv)
    n_sites = 0

    # which (class, attr) are written only in __init__ or argument-independently: fixpoint
    def self_stores(fn):
        out = []
        for n in ast.walk(fn):
            if isinstance(n, ast.Assign):
                flat = []
                for t in n.targets:
                    flat += t.elts if isinstance(t, (ast.Tuple, ast.List)) else [t]
                for t in flat:
                    if isinstance(t, ast.Attribute) and isinstance(t.value, ast.Name) and t.value.id == 'self':
                        out.append((t.attr, n.value, n))
            elif isinstance(n, ast.AugAssign) and isinstance(n.target, ast.Attribute) and isinstance(n.target.value, ast.Name) \
                    and n.target.value.id == 'self':
                out.append((n.target.attr, ast.BinOp(left=n.target, op=n.op, right=n.value), n))
        return out

    # ---- I6 / I7 over every reachable function, whatever its receiver: rows of shared tables changed in place (even if put back
    # later: another thread reads the table in between), and attributes of imported modules assigned at call time (a process-wide
    # setting saved / installed / restored around a call is not re-entrant across threads)
    from ..memo import shared_alias_mutations
    from .c19 import module_mutables
    done_fns = set()
    for (rel_, q_), _rc, _rk in sorted(seen, key=lambda x: (x[0], str(x[1]), str(x[2]))):
        if (rel_, q_) in done_fns:
            continue
        done_fns.add((rel_, q_))
        fn_ = G.func_node((rel_, q_))
        m_ = G.mods[rel_]
        mm_ = set(module_mutables(m_))
        for msg, node_ in shared_alias_mutations(fn_, mm_):
            n_sites += 1
            ctx.finding('I6', '%s::%s::row of a shared table changed in place' % (rel_, q_), rel_, node_.lineno,
                        '%s (reached from the public entry points) %s.  Under threads another caller reads the table between the change and any '
                        'later restore and computes with the foreign values' % (q_, msg), 'one forced pre-emption between the change and the restore')
        imported_mods = {(a.asname or a.name).split('.')[0] for st in ast.walk(m_.tree) if isinstance(st, ast.Import) for a in st.names}
        for n in ast.walk(fn_):
            if isinstance(n, (ast.Assign, ast.AugAssign)):
                for t in (n.targets if isinstance(n, ast.Assign) else [n.target]):
                    b = t
                    depth = 0
                    while isinstance(b, ast.Attribute):
                        b = b.value
                        depth += 1
                    if depth >= 1 and isinstance(b, ast.Name) and b.id in imported_mods and isinstance(t, ast.Attribute):
                        n_sites += 1
                        ctx.finding('I7', '%s::%s::assigns %s at call time' % (rel_, q_, ast.unparse(t)), rel_, n.lineno,
                                    '%s assigns `%s`, an attribute of an imported module, while serving a call: the setting is process-wide, so a '
                                    'save / install / restore around one call is undone or overwritten by a concurrent call (not re-entrant across '
                                    'threads)' % (q_, ast.unparse(t)), 'two forced pre-emptions: A installs, B saves and installs, A restores, B runs')
    # ---- GEN hazards (sa/hazards.py) over the reachable functions: a module-level one-shot iterator shared by all callers is also a
    # thread hazard (two first calls split it), as is a mutable default changed in place
    from ..hazards import scan as hz_scan
    hz, _n = hz_scan(repo, {k for k, _c, _k in seen})
    for rel_, q_, rule_, line_, msg_, key_ in hz:
        if rule_ in ('ONESHOT', 'MUTDEF', 'STALE'):
            n_sites += 1
            ctx.finding('GEN', '%s::%s::%s %s' % (rel_, q_, rule_, key_), rel_, line_, msg_ + '.  Under threads two callers share (and split) it',
                        'two concurrent first calls')
    # ---- I8 per-thread arithmetic context: decimal.getcontext() / setcontext() / localcontext() settings made at import or in one call
    # apply to the thread that made them only; every other thread computes with the default context
    reach_rels = {k[0] for k, _c, _k in seen}
    for rel_ in sorted(reach_rels):
        m_ = G.mods[rel_]
        for n in ast.walk(m_.tree):
            if isinstance(n, ast.Call) and isinstance(n.func, (ast.Attribute, ast.Name)) and (
                    n.func.attr if isinstance(n.func, ast.Attribute) else n.func.id) in ('getcontext', 'setcontext'):
                par = getattr(n, '_parent', None)
                writes = isinstance(par, ast.Attribute) and isinstance(getattr(par, '_parent', None), (ast.Assign, ast.AugAssign)) \
                    and any(t is par for t in (par._parent.targets if isinstance(par._parent, ast.Assign) else [par._parent.target]))
                if writes or (n.func.attr if isinstance(n.func, ast.Attribute) else n.func.id) == 'setcontext':
                    n_sites += 1
                    ctx.finding('I8', '%s::decimal context changed' % rel_, rel_, n.lineno,
                                '`%s` changes the decimal context, which is per thread: the setting holds for the thread that executed this line '
                                '(the importing thread), every other thread computes with the default context and gets other digits'
                                % unparse(par._parent if writes else n)[:70], 'the same call from the main thread and from a worker thread')
    # ---- I9 a module-level container that reachable code iterates must not be changed in place by reachable code (another thread may be
    # inside the iteration: RuntimeError, or a silently shorter result)
    iter_sites, mut_sites = {}, {}
    for (rel_, q_), _rc, _rk in sorted(seen, key=lambda x: (x[0], str(x[1]), str(x[2]))):
        fn_ = G.func_node((rel_, q_))
        mm_ = set(module_mutables(G.mods[rel_]))
        for n in ast.walk(fn_):
            if isinstance(n, (ast.For, ast.comprehension)) and isinstance(n.iter, ast.Name) and n.iter.id in mm_:
                iter_sites.setdefault((rel_, n.iter.id), []).append((q_, getattr(n, 'lineno', getattr(n.iter, 'lineno', 0))))
            tgt = None
            if isinstance(n, ast.Delete):
                for t in n.targets:
                    b = t.value if isinstance(t, ast.Subscript) else None
                    if isinstance(b, ast.Name) and b.id in mm_:
                        tgt = (b.id, unparse(n))
            if isinstance(n, ast.Assign):
                for t in n.targets:
                    if isinstance(t, ast.Subscript) and isinstance(t.slice, ast.Slice) and isinstance(t.value, ast.Name) and t.value.id in mm_:
                        tgt = (t.value.id, unparse(n))
            if isinstance(n, ast.Call) and isinstance(n.func, ast.Attribute) and isinstance(n.func.value, ast.Name) and n.func.value.id in mm_ \
                    and n.func.attr in ('clear', 'pop', 'remove', 'insert', 'sort', 'reverse', 'extend', 'append'):
                tgt = (n.func.value.id, unparse(n))
            if tgt:
                mut_sites.setdefault((rel_, tgt[0]), []).append((q_, n.lineno, tgt[1]))
    for key_, muts_ in sorted(mut_sites.items()):
        if key_ in iter_sites:
            q_, ln_, what_ = muts_[0]
            n_sites += 1
            ctx.finding('I9', '%s::%s::%s changed in place while iterated elsewhere' % (key_[0], q_, key_[1]), key_[0], ln_,
                        '%s runs `%s` on the module-level container %s, which %s iterates (line %d): a second thread that is inside that loop sees '
                        'the container shrink under it and builds a partial result' % (q_, what_[:50], key_[1], iter_sites[key_][0][0], iter_sites[key_][0][1]),
                        'two first calls, one pre-empted inside the loop')
    for node in sorted(seen, key=lambda x: (x[0], str(x[1]), str(x[2]))):
        key, rcls, rkind = node
        rel, q = key
        fn = G.func_node(key)
        params = {a.arg for a in fn.args.args + fn.args.kwonlyargs} - {'self', 'cls'}
        if fn.args.vararg:
            params.add(fn.args.vararg.arg)
        if fn.args.kwarg:
            params.add(fn.args.kwarg.arg)
        gdecl = set()
        for n in ast.walk(fn):
            if isinstance(n, ast.Global):
                gdecl.update(n.names)
        modshared = shared.get(rel, {})
        # ---- globals: rebinding and in-place mutation
        rebinds = [n for n in ast.walk(fn) if isinstance(n, ast.Assign) and any(isinstance(t, ast.Name) and t.id in gdecl for t in n.targets)]
        for n in rebinds:
            n_sites += 1
            gname = [t.id for t in n.targets if isinstance(t, ast.Name) and t.id in gdecl][0]
            later_mut = []
            for m in ast.walk(fn):
                if getattr(m, 'lineno', 0) <= n.lineno:
                    continue
                if isinstance(m, ast.Assign) and any(isinstance(t, ast.Subscript) and root_name(t) == gname for t in m.targets):
                    later_mut.append(m)
                if isinstance(m, ast.Call) and isinstance(m.func, ast.Attribute) and m.func.attr in MUT and root_name(m.func.value) == gname:
                    later_mut.append(m)
            if later_mut:
                ctx.finding('I1', '%s::%s::publishes %s before filling it' % (rel, q, gname), rel, n.lineno,
                            '%s binds the shared global %s (%s) and then fills it in place (%s ...): a second thread that '
                            'sees the global already bound reads a half-built table - a missing score for a valid event' % (
                                q, gname, unparse(n), stmt_key(later_mut[0])),
                            'thread A pre-empted between the binding and the last store; thread B finds %s not None' % gname)
            else:
                ctx.ok('I1', '%s::%s binds %s once to a complete value (%s)' % (rel, q, gname, unparse(n.value)[:40]))
        for m in ast.walk(fn):
            tgt = None
            if isinstance(m, ast.Assign):
                for t in m.targets:
                    if isinstance(t, ast.Subscript) and root_name(t) in modshared and root_name(t) not in params and root_name(t) not in gdecl:
                        tgt = (root_name(t), 'store', m)
            if isinstance(m, ast.Call) and isinstance(m.func, ast.Attribute) and m.func.attr in MUT and root_name(m.func.value) in modshared \
                    and root_name(m.func.value) not in params and root_name(m.func.value) not in gdecl:
                tgt = (root_name(m.func.value), m.func.attr, m)
            if tgt:
                n_sites += 1
                m2 = tgt[2]
                slot_const = isinstance(m2, ast.Assign) and any(
                    isinstance(t, ast.Subscript) and isinstance(t.slice, ast.Constant) for t in m2.targets)
                if slot_const and not arg_independent(m2.value, fn, {}, params):
                    ctx.finding('I2', '%s::%s::argument-dependent scratch slot in module-level %s' % (rel, q, tgt[0]), rel, m2.lineno,
                                '%s stores an argument-dependent value in a fixed slot of the module-level container %s (%s): every '
                                'caller shares that slot, so a second thread overwrites it before the first reads it back' % (
                                    q, tgt[0], stmt_key(m2)), 'two threads with different arguments')
                else:
                    # a single atomic operation keyed by the arguments (or storing a constant) is I3
                    ctx.ok('I3', '%s::%s: single %s on module-level %s' % (rel, q, tgt[1], tgt[0]))
        # ---- parameters that alias shared storage (resolved at the call sites)
        callers = [(k, v) for k, v in seen.items() if v is not None]
        # find calls of this function with a module-level container as argument
        alias = {}
        for (ck, ccls, ckind), parent in seen.items():
            pass
        for (pk, pcls, pkind) in list(seen):
            prel, pq = pk
            pfn = G.func_node(pk)
            for c in ast.walk(pfn):
                if isinstance(c, ast.Call) and isinstance(c.func, ast.Name):
                    r = G.resolve_name(prel, c.func.id)
                    if r == key:
                        for i, a in enumerate(c.args):
                            if isinstance(a, ast.Name) and a.id in shared.get(prel, {}) and i < len(fn.args.args):
                                alias.setdefault(fn.args.args[i].arg, set()).add('%s.%s' % (prel, a.id))
        for pname, targets in alias.items():
            # operations on the aliased container
            iters = []
            muts = []
            for n in ast.walk(fn):
                if isinstance(n, ast.Call) and isinstance(n.func, ast.Name) and n.func.id in ('reversed', 'iter', 'enumerate', 'sorted', 'list', 'tuple') \
                        and n.args and root_name(n.args[0]) == pname and n.func.id in ('reversed', 'iter', 'enumerate'):
                    iters.append(n)
                if isinstance(n, ast.Call) and isinstance(n.func, ast.Attribute) and root_name(n.func.value) == pname \
                        and n.func.attr in ('keys', 'values', 'items') and not isinstance(getattr(n, '_parent', None), ast.Call):
                    iters.append(n)
                if isinstance(n, ast.For) and root_name(n.iter) == pname:
                    iters.append(n)
                if isinstance(n, ast.Call) and isinstance(n.func, ast.Attribute) and root_name(n.func.value) == pname and n.func.attr in MUT:
                    muts.append(n)
                if isinstance(n, ast.Assign) and any(isinstance(t, ast.Subscript) and root_name(t) == pname for t in n.targets):
                    muts.append(n)
            n_sites += len(muts)
            if iters and muts:
                ctx.finding('I3', '%s::%s::iterator over shared %s held across a mutation' % (rel, q, pname), rel, iters[0].lineno,
                            '%s receives the shared container %s as %r, creates an iterator over it (%s) and mutates it while '
                            'the iterator is live (%s): another thread inserting or evicting in between makes next() raise '
                            'RuntimeError (dictionary changed size during iteration) or evict the wrong entry' % (
                                q, sorted(targets), pname, unparse(iters[0]) if not isinstance(iters[0], ast.For) else stmt_key(iters[0]),
                                stmt_key(muts[0])),
                            'two threads at the size limit of the cache')
            else:
                for m in muts:
                    ctx.ok('I3', '%s::%s: atomic %s on shared %s' % (rel, q, stmt_key(m)[:40], sorted(targets)))
        # ---- mutable default arguments mutated
        for a, d in zip(fn.args.args[len(fn.args.args) - len(fn.args.defaults):], fn.args.defaults):
            if isinstance(d, (ast.List, ast.Dict, ast.Set)):
                mutated = any(isinstance(n, ast.Call) and isinstance(n.func, ast.Attribute) and n.func.attr in MUT and root_name(n.func.value) == a.arg
                              for n in ast.walk(fn))
                if mutated:
                    ctx.finding('I3', '%s::%s::mutable default %s' % (rel, q, a.arg), rel, fn.lineno,
                                '%s mutates its mutable default argument %r, which is shared by all calls' % (q, a.arg))
        # ---- stores on shared instances
        if rcls and rkind == 'shared' and not q.endswith('.__init__'):
            stores = self_stores(fn)
            if not stores:
                continue
            # attributes that are argument-independent everywhere (computed per class lazily)
            dep_attrs = []
            for attr, val, n in stores:
                n_sites += 1
                if arg_independent(val, fn, {}, params):
                    ctx.ok('I2', '%s::%s: self.%s = %s is independent of the call arguments' % (rel, q, attr, unparse(val)[:40]))
                else:
                    dep_attrs.append(attr)
            if dep_attrs:
                ctx.finding('I2', '%s::%s::argument-dependent scratch on a shared instance' % (rel, q), rel, fn.lineno,
                            '%s stores argument-dependent values in self.%s while the receiver is a module-level instance shared by '
                            'all callers (%s): a second thread overwrites them between two steps of the first thread\'s lookup, which '
                            'then returns the factor of another event or age' % (q, ', self.'.join(sorted(set(dep_attrs))), G.path_to(seen, node)),
                            'two threads calling wma_age_factor with different events')
    # ---- I4 check-then-act on a shared container that can lose entries: `k in D` ... `D[k]` are two steps
    removers = {}       # container -> function that removes entries (directly or through an aliasing parameter)
    for (key, rcls, rkind) in seen:
        rel, q = key
        fn = G.func_node(key)
        for n in ast.walk(fn):
            if isinstance(n, ast.Call) and isinstance(n.func, ast.Attribute) and n.func.attr in ('pop', 'popitem', 'clear') and isinstance(n.func.value, ast.Name):
                removers.setdefault((rel, n.func.value.id), q)
            if isinstance(n, ast.Delete):
                for t in n.targets:
                    if isinstance(t, ast.Subscript) and isinstance(t.value, ast.Name):
                        removers.setdefault((rel, t.value.id), q)
    # a parameter that aliases module-level containers at its call sites
    evictable = set()
    for (key, rcls, rkind) in seen:
        rel, q = key
        fn = G.func_node(key)
        for c in ast.walk(fn):
            if isinstance(c, ast.Call) and isinstance(c.func, ast.Name):
                r = G.resolve_name(rel, c.func.id)
                if r and r in {k for k, _, _ in seen}:
                    callee = G.func_node(r)
                    for i, a in enumerate(c.args):
                        if isinstance(a, ast.Name) and a.id in shared.get(rel, {}) and i < len(callee.args.args):
                            if (r[0], callee.args.args[i].arg) in removers:
                                evictable.add((rel, a.id))
    for (rel, name), q in removers.items():
        if name in shared.get(rel, {}):
            evictable.add((rel, name))
    for (key, rcls, rkind) in sorted(seen, key=lambda x: (x[0], str(x[1]), str(x[2]))):
        rel, q = key
        fn = G.func_node(key)
        for n in ast.walk(fn):
            if isinstance(n, ast.If) and isinstance(n.test, ast.Compare) and len(n.test.ops) == 1 and isinstance(n.test.ops[0], ast.In) \
                    and isinstance(n.test.comparators[0], ast.Name) and (rel, n.test.comparators[0].id) in evictable:
                cont = n.test.comparators[0].id
                ktxt = ast.unparse(n.test.left)
                reads = [x for st in n.body for x in ast.walk(st) if isinstance(x, ast.Subscript) and isinstance(x.ctx, ast.Load)
                         and isinstance(x.value, ast.Name) and x.value.id == cont and ast.unparse(x.slice) == ktxt]
                if reads:
                    n_sites += 1
                    ctx.finding('I3', '%s::%s::membership test then subscript on evictable %s' % (rel, q, cont), rel, n.lineno,
                                '%s tests `%s in %s` and then reads `%s[%s]` in a second step, while %s evicts entries from that container: '
                                'another thread inserting at the size limit removes the key in between and the reader raises KeyError; a '
                                'single `.get()` is one atomic step' % (q, ktxt, cont, cont, ktxt, removers.get((rel, cont)) or 'the cache helper'),
                                'cache full, thread A looks up the newest key, thread B inserts')
    # ---- I5 lazy initialisation guarded by a non-blocking acquire: the loser neither builds nor waits
    for (key, rcls, rkind) in sorted(seen, key=lambda x: (x[0], str(x[1]), str(x[2]))):
        rel, q = key
        fn = G.func_node(key)
        gd = set()
        for n in ast.walk(fn):
            if isinstance(n, ast.Global):
                gd.update(n.names)
        for n in ast.walk(fn):
            if isinstance(n, ast.If):
                for c in ast.walk(n.test):
                    if isinstance(c, ast.Call) and isinstance(c.func, ast.Attribute) and c.func.attr == 'acquire' and (
                            any(isinstance(a, ast.Constant) and a.value in (False, 0) for a in c.args)
                            or any(k.arg in ('blocking', 'timeout') for k in c.keywords)):
                        binds = [x for st in n.body for x in ast.walk(st) if isinstance(x, ast.Assign)
                                 and any(isinstance(t, ast.Name) and t.id in gd for t in x.targets)]
                        if binds:
                            n_sites += 1
                            ctx.finding('I1', '%s::%s::lazy initialisation behind a non-blocking acquire' % (rel, q), rel, n.lineno,
                                        '%s builds the shared global only if it wins a non-blocking %s; a second first-caller neither builds nor '
                                        'waits and carries on with the global still unset (AttributeError / missing score instead of its answer)'
                                        % (q, unparse(c)), 'two first calls overlapping while the table is being built')
    # class attributes that are mutable placeholders are fine if only rebound (I2); report as inventory
    ctx.count('write sites classified', n_sites)
    ctx.floor('write sites classified', n_sites, 6)
