"""C18 — the JavaScript port computes the same answers (structural part: sibling cross-check of the two languages)."""
import ast
import re
import re._parser as sp

from .. import jsast, rx
from ..core import AnalysisError
from ..pats import Pats, find_group
from ..src import call_name, unparse
from . import c06

LEVEL = 'other'
JS = {'utils': 'js/src/utils.js', 'tyrving': 'js/src/tyrving_score.js', 'qkids': 'js/src/qkids_score.js', 'patterns': 'js/src/patterns.js'}
PY = {'utils': 'athlib/utils.py', 'tyrving': 'athlib/tyrving_score.py', 'qkids': 'athlib/qkids_score.py'}
# ported pairs (DESIGN Appendix B5): (module, python qualname, js function name)
PAIRS = [
    ('utils', 'round_up_str_num', 'roundUpStrNum'), ('utils', 'format_seconds_as_time', 'formatSecondsAsTime'),
    ('utils', 'parse_hms', 'parseHms'), ('utils', 'str2num', 'str2num'), ('utils', 'is_hand_timing', 'isHandTiming'),
    ('utils', 'normalize_event_code', 'normalizeEventCode'), ('utils', '_norm_tzeroes', '_normTZeroes'),
    ('utils', '_norm_cm', '_normCM'), ('utils', '_norm_m', '_normm'), ('utils', '_norm_kg', '_normgKg'), ('utils', '_norm_g', '_normg'),
    ('tyrving', 'TyrvingCalculator.points', 'points'), ('tyrving', 'TyrvingCalculator.get_base_perf', 'getBasePerf'),
    ('tyrving', 'TyrvingCalculator.race_points', 'racePoints'), ('tyrving', 'TyrvingCalculator.jump_points', 'jumpPoints'),
    ('tyrving', 'TyrvingCalculator.stav_points', 'stavPoints'), ('tyrving', 'tyrving_score', 'tyrvingScore'),
    ('qkids', 'qkids_score', 'qkidsScore'),
]
STRUCTURAL_CONSTS = {0.0, 1.0, 2.0, -1.0, 10.0}      # indices, slice bounds, parseInt radix, the `x - 0` coercion
RENAMES = {'rup': 't', 'diffs[0]': 'd0', 'diffs[1]': 'd1'}       # renamed temporaries (tuple vs two locals, reused variable)
# idiom differences frozen from the pinned tree, one reason each: (pair, side, predicate text)
ALLOW = {
    ('format_seconds_as_time', 'py', "('prec', 'Lt', 0.0)"): '0<=prec<=3 with isinstance(prec,int) == prec===0||...||prec===3',
    ('format_seconds_as_time', 'py', "('prec', 'Gt', 3.0)"): 'same',
    ('format_seconds_as_time', 'js', "('prec', 'Eq', 0.0)"): 'same',
    ('format_seconds_as_time', 'js', "('prec', 'Eq', 1.0)"): 'same',
    ('format_seconds_as_time', 'js', "('prec', 'Eq', 2.0)"): 'same',
    ('format_seconds_as_time', 'js', "('prec', 'Eq', 3.0)"): 'same',
    ('str2num', 'js', "('s', 'Contains', '.')"): 'JS chooses parseFloat/parseInt by the presence of a point; Python tries int() then float()',
    ('normalize_event_code', 'py', "('_gnorms', 'Contains', 'k')"): 'membership test vs lookup compared with null',
    ('_norm_kg', 'py', "('s[?].lower()', 'Eq', 'g')"): 'JS strips the unit letters with a regex character class',
    ('_norm_kg', 'py', "('s[?].lower()', 'Eq', 'k')"): 'same',
    ('_norm_g', 'py', "('s[?].lower()', 'Eq', 'g')"): 'same',
    ('TyrvingCalculator.race_points', 'py', "('v.count()', 'Gt', 1.0)"): 'count of points via str.count vs regex match length',
    ('TyrvingCalculator.race_points', 'js', "('?.length', 'Gt', 1.0)"): 'same',
    ('qkids_score', 'py', "('_compTypeMap', 'Contains', 'competitionType')"): 'JS uses hasOwnProperty',
    ('parse_hms', 'py', "('t', 'Contains', 'sep')"): 'JS writes t.indexOf(sep) === -1 with a non-literal argument',
    ('_norm_tzeroes', 'py', "('s', 'Contains', '.')"): 'JS writes s.indexOf(\'.\') >= 0 (same predicate, kept for symmetry)',
    ('_norm_tzeroes', 'js', "('s.slice()', 'Eq', '0')"): "Python strips the zeros with s.rstrip('0') (a method call, not a comparison)",
    ('_norm_tzeroes', 'js', "('s.slice()', 'Eq', '.')"): "Python tests s.endswith('.') (a method call, not a comparison)",
}
# short string constants (<= 3 characters, no format strings; JS regex literals as /source/) that differ by idiom
ALLOW_STR = {
    ('format_seconds_as_time', 'js', "'"): 'quote inside the JS error message fragment',
    ('format_seconds_as_time', 'js', ':'): "JS joins the fields with ':'; Python uses a format string",
    ('parse_hms', 'py', ':;'): "Python iterates over the string ':;', JS over an object with the two keys",
    ('parse_hms', 'js', ':'): 'same', ('parse_hms', 'js', ';'): 'same',
    ('str2num', 'js', '.'): 'JS chooses parseFloat/parseInt by the presence of a point',
    ('normalize_event_code', 'js', '/\\s/'): "JS removes whitespace with a regex, Python with ''.join(c.split())",
    ('normalize_event_code', 'js', 'x'): "JS concatenates the relay separator, Python has it inside the format string '%sx%s'",
    ('_norm_m', 'js', '/[ m]/'): 'JS strips the unit with a regex, Python slices it off',
    ('_norm_kg', 'py', 'g'): 'unit letters: comparisons in Python, regex classes in JS', ('_norm_kg', 'py', 'k'): 'same',
    ('_norm_kg', 'js', '/[ gG]/'): 'same', ('_norm_kg', 'js', '/[ kK]/'): 'same',
    ('_norm_g', 'py', 'g'): 'same', ('_norm_g', 'js', '/[ gG]/'): 'same',
    ('TyrvingCalculator.race_points', 'py', ','): 'decimal comma: str.replace in Python, regex in JS',
    ('TyrvingCalculator.race_points', 'js', '/,/'): 'same', ('TyrvingCalculator.race_points', 'js', '/\\./'): 'count of points via regex',

}


def py_strs(fn):
    out = set()
    for n in ast.walk(fn):
        if isinstance(n, ast.Constant) and isinstance(n.value, str) and 0 < len(n.value) <= 3 and '%' not in n.value:
            if isinstance(getattr(n, '_parent', None), ast.Expr):
                continue
            out.add(n.value)
    return out


def js_strs(fn):
    out = set()
    for n in jsast.jwalk(fn):
        if n['type'] == 'Literal' and 'regex' in n:
            pat = n['regex']['pattern']
            ms = re.fullmatch(r'\^(\\?.)\+|(\\?.)\+\$', pat)
            if ms and (ms.group(1) or ms.group(2))[-1] not in '.^$*+?()[]{}|\\dswDSW':
                out.add((ms.group(1) or ms.group(2))[-1])      # /^x+/ , /x+$/: lstrip('x') / rstrip('x')
            elif re.fullmatch(r'(\[[^\]]+\])\+?\$', pat):
                # /[ g]+$/ -> '' peels the same trailing characters as `while (s.slice(-1).match(/[ g]/)) s = s.slice(0, -1)`
                out.add('/' + re.fullmatch(r'(\[[^\]]+\])\+?\$', pat).group(1) + '/')
            elif re.fullmatch(r'(\\?.)\$', pat) and re.fullmatch(r'(\\?.)\$', pat).group(1)[-1] not in '^$*+?()[]{}|dswDSW':
                out.add(re.fullmatch(r'(\\?.)\$', pat).group(1)[-1])     # /\.$/ -> '': one trailing '.', the test endsWith('.')
            elif len(pat) == 1 and pat not in '.^$*+?()[]{}|\\':
                out.add(pat)                    # /x/ is the one-character string 'x'
            elif len(pat) == 2 and pat[0] == '\\' and not pat[1].isalnum():
                out.add(pat[1])
            else:
                out.add('/' + pat + '/')
        elif n['type'] == 'Literal' and isinstance(n.get('value'), str) and 0 < len(n['value']) <= 3:
            out.add(n['value'])
    return out


# constants that one side writes inside a string (format spec) and the other as a number
ALLOW_CONST = {('format_seconds_as_time', 9.0): "'%.9f' in Python, toFixed(9) in JavaScript; equality of the two precisions is rule R4"}


def norm_pred(p, side):
    subj, op, val = p
    if subj is None:
        return None                              # typeof x === ..., unresolvable subject: idiom
    if val is None or val == 'None' or val == 'undefined':
        return None                              # null / undefined / None tests: idiom (default arguments, missing keys)
    if op == 'Is':
        op = 'Eq'
    if op == 'IsNot':
        op = 'NotEq'
    # a predicate and its negation are the same test (negating a condition and swapping the branches changes nothing)
    op = {'NotEq': 'Eq', 'NotContains': 'Contains', 'NotIn': 'In', 'GtE': 'Lt', 'LtE': 'Gt'}.get(op, op)
    subj = RENAMES.get(subj, subj)
    if isinstance(val, str) and val in RENAMES:
        val = RENAMES[val]
    return (subj, op, val)


def py_preds(fn):
    preds, consts = jsast.py_fingerprint(fn)
    out = set()
    # name-vs-name membership: container NotContains element
    for n in ast.walk(fn):
        if isinstance(n, ast.Compare) and len(n.ops) == 1 and isinstance(n.ops[0], (ast.In, ast.NotIn)) \
                and isinstance(n.left, ast.Name) and isinstance(n.comparators[0], ast.Name):
            preds.discard((jsast.py_name(n.left), type(n.ops[0]).__name__, jsast.py_name(n.comparators[0])))
            preds.add((jsast.py_name(n.comparators[0]), 'Contains' if isinstance(n.ops[0], ast.In) else 'NotContains', jsast.py_name(n.left)))
    preds = expand_loop_vars(preds, py_loop_literals(fn))
    for p in preds:
        q = norm_pred(p, 'py')
        if q is not None:
            out.add(q)
    return expand_in(out), {c for c in consts if c not in STRUCTURAL_CONSTS}


def py_loop_literals(fn):
    """{variable: [literal elements]} for loop / comprehension variables that range over a literal sequence"""
    out = {}
    def lit(it):
        if isinstance(it, ast.Constant) and isinstance(it.value, str):
            return list(it.value)
        if isinstance(it, (ast.Tuple, ast.List, ast.Set)) and it.elts and all(isinstance(x, ast.Constant) for x in it.elts):
            return [jsast.num(x.value) for x in it.elts]
        return None
    for n in ast.walk(fn):
        if isinstance(n, ast.For) and isinstance(n.target, ast.Name):
            v = lit(n.iter)
            if v is not None:
                out[jsast.camel(n.target.id)] = v
        if isinstance(n, ast.comprehension) and isinstance(n.target, ast.Name):
            v = lit(n.iter)
            if v is not None:
                out[jsast.camel(n.target.id)] = v
    return out


def js_loop_literals(fn):
    out = {}
    def lit(it):
        if it['type'] == 'Literal' and isinstance(it.get('value'), str):
            return list(it['value'])
        if it['type'] == 'ArrayExpression' and it['elements'] and all(x and x['type'] == 'Literal' for x in it['elements']):
            return [jsast.num(x['value']) for x in it['elements']]
        return None
    for n in jsast.jwalk(fn):
        t = n.get('type')
        if t in ('ForOfStatement', 'ForInStatement'):
            left = n['left']
            tgt = left['declarations'][0]['id'] if left['type'] == 'VariableDeclaration' else left
            if tgt['type'] != 'Identifier':
                continue
            if t == 'ForInStatement' and n['right']['type'] == 'ObjectExpression':
                ks = [p_['key'].get('value', p_['key'].get('name')) for p_ in n['right']['properties'] if p_['type'] == 'Property']
                out[tgt['name']] = ks
            else:
                v = lit(n['right'])
                if v is not None:
                    out[tgt['name']] = v
        if t == 'CallExpression' and n['callee']['type'] == 'MemberExpression' and not n['callee']['computed'] \
                and n['callee']['property'].get('name') in ('find', 'some', 'every', 'filter', 'forEach', 'map', 'findIndex') and n['arguments'] \
                and n['arguments'][0]['type'] in ('ArrowFunctionExpression', 'FunctionExpression') and n['arguments'][0]['params'] \
                and n['arguments'][0]['params'][0]['type'] == 'Identifier':
            v = lit(n['callee']['object'])
            if v is not None:
                out[n['arguments'][0]['params'][0]['name']] = v
    return out


def expand_loop_vars(preds, lits):
    """a predicate that mentions a variable ranging over a literal sequence stands for one predicate per element (the name of the loop
    variable is not part of the behaviour)"""
    if not lits:
        return preds
    out = set()
    for s_, op, v in preds:
        if isinstance(v, str) and v in lits:
            for x in lits[v]:
                out.add((s_, op, x))
        elif isinstance(s_, str) and s_ in lits and not isinstance(v, tuple):
            for x in lits[s_]:
                out.add((v, 'Contains' if op in ('In',) else op, x) if op == 'In' else (s_, op, v))
        else:
            out.add((s_, op, v))
    return out


def expand_in(preds):
    """`x in (a, b)` is `x == a or x == b`: membership in a literal collection is expanded into its equality tests"""
    out = set()
    for s_, op, v in preds:
        if op == 'In' and isinstance(v, tuple):
            for x in v:
                out.add((s_, 'Eq', x))
        else:
            out.add((s_, op, v))
    return out


def js_preds(fn):
    # predicates in for-loop headers are loop bounds, not domain predicates
    headers = set()
    for n in jsast.jwalk(fn):
        if n['type'] == 'ForStatement' and n.get('test'):
            for x in jsast.jwalk(n['test']):
                headers.add(id(x))
    preds, consts = jsast.js_fingerprint(fn)
    hp = set()
    for n in jsast.jwalk(fn):
        if n['type'] == 'ForStatement' and n.get('test') and n['test']['type'] == 'BinaryExpression' and n['test']['operator'] in jsast.JSOPS:
            t = n['test']
            op = jsast.JSOPS[t['operator']]
            l, r = t['left'], t['right']
            if r['type'] == 'Literal':
                hp.add((jsast.js_name(l), op, jsast.num(r['value'])))
            elif l['type'] == 'Literal':
                hp.add((jsast.js_name(r), jsast.FLIPOP.get(op, op), jsast.num(l['value'])))
            else:
                hp.add((jsast.js_name(l), op, jsast.js_name(r)))
    out = set()
    for p in expand_loop_vars(preds - hp, js_loop_literals(fn)):
        q = norm_pred(p, 'js')
        if q is not None:
            out.add(q)
    # indexOf with a non-literal argument: container (Not)Contains name
    fixed = set()
    for (s, op, v) in out:
        fixed.add((s, op, v))
    return expand_in(fixed), {c for c in consts if c not in STRUCTURAL_CONSTS}


# truthiness tests (`if x`, `not x`, `x ? a : b`, operands of and/or inside a test): multiset per tested name
ALLOW_TRUTHY = {
    ('round_up_str_num', 'js', 't'): "while (t.length && t.startsWith('0')) emulates t.lstrip('0')",
    ('normalize_event_code', 'py', 's'): 'Python skips a group that is blank after strip(); a listed group always holds a digit or letter '
                                         '(group languages are compared by R2)',
    ('TyrvingCalculator.points', 'js', 'timingKind'): "default argument idiom: timingKind ? timingKind : 'automatic'",
    ('tyrving_score', 'py', 'params'): '`if not params` after .get(); JavaScript tests == null (null tests are idiom)',
    ('qkids_score', 'js', 'v'): 'v = event.match(PAT_RUN); v ? ... : ... is `if PAT_RUN.match(event)` in Python (call tests are not names)',
    ('TyrvingCalculator.points', 'js', 'meth'): 'getattr(self, name, default) in Python is lookup + `if (meth == null) meth = default` in JavaScript',
    ('TyrvingCalculator.get_base_perf', 'js', 'basePerf'): 'dict.get(age, None) in Python is lookup + `if (basePerf == null) basePerf = null` in JavaScript',
    ('normalize_event_code', 'js', 'k'): '`k not in _gnorms` in Python is lookup + comparison with undefined in JavaScript (see the predicate entry)',
}


def py_truthy(fn):
    import collections
    c = collections.Counter()

    def tests(e):
        if isinstance(e, ast.BoolOp):
            for v in e.values:
                tests(v)
        elif isinstance(e, ast.UnaryOp) and isinstance(e.op, ast.Not):
            tests(e.operand)
        elif isinstance(e, ast.Compare) and len(e.ops) == 1 and isinstance(e.ops[0], (ast.Is, ast.IsNot, ast.Eq, ast.NotEq)) \
                and isinstance(e.comparators[0], ast.Constant) and e.comparators[0].value is None:
            tests(e.left)                     # `x is None` is the emptiness test of x (a match object, a missing entry)
        elif isinstance(e, (ast.Name, ast.Attribute, ast.Subscript)):
            nm = jsast.py_name(e)
            if nm:
                c[jsast.camel(nm)] += 1
    for n in ast.walk(fn):
        if isinstance(n, (ast.If, ast.While, ast.IfExp)):
            tests(n.test)
        elif isinstance(n, ast.comprehension):
            for t_ in n.ifs:
                tests(t_)
    return c


def js_truthy(fn):
    import collections
    c = collections.Counter()

    def tests(e):
        t = e['type']
        if t == 'LogicalExpression':
            tests(e['left'])
            tests(e['right'])
        elif t == 'UnaryExpression' and e['operator'] == '!':
            tests(e['argument'])
        elif t == 'BinaryExpression' and e['operator'] in ('===', '==', '!==', '!=') and (
                (e['right']['type'] == 'Literal' and e['right'].get('value') is None and 'regex' not in e['right'])
                or (e['right']['type'] == 'Identifier' and e['right']['name'] == 'undefined')):
            tests(e['left'])                  # x === undefined / x == null: the emptiness test of x
        elif t in ('Identifier', 'MemberExpression'):
            nm = jsast.js_name(e)
            if nm:
                if nm.endswith('.length'):
                    nm = nm[:-len('.length')]      # emptiness test of a string / array
                c[nm] += 1
    def default_arg_idiom(n):
        # `if (x === undefined) x = <default>;` is how a default parameter value was written before ES2015
        t = n['test']
        if not (n['type'] == 'IfStatement' and t['type'] == 'BinaryExpression' and t['operator'] in ('===', '==') and not n.get('alternate')):
            return False
        if not (t['right']['type'] == 'Identifier' and t['right']['name'] == 'undefined' and t['left']['type'] == 'Identifier'):
            return False
        cons = n['consequent']
        if cons['type'] == 'BlockStatement' and len(cons['body']) == 1:
            cons = cons['body'][0]
        return cons['type'] == 'ExpressionStatement' and cons['expression']['type'] == 'AssignmentExpression' \
            and cons['expression']['left']['type'] == 'Identifier' and cons['expression']['left']['name'] == t['left']['name']
    for n in jsast.jwalk(fn):
        if n['type'] in ('IfStatement', 'WhileStatement', 'ConditionalExpression') and n.get('test'):
            if default_arg_idiom(n):
                continue
            tests(n['test'])
    return c


# replace() semantics: Python's str.replace replaces every occurrence (unless a count is given); JavaScript's replace with a string
# pattern replaces the first one only, with a /g regex every one
ALLOW_REPLACE = {
    ('TyrvingCalculator.jump_points', 'py', ('lit', ',', '.', 'all')): "decimal comma: a mark holds at most one; with two both sides refuse (ValueError / NaN)",
    ('TyrvingCalculator.jump_points', 'js', ('lit', ',', '.', 'first')): "decimal comma, see the Python entry",
    ('TyrvingCalculator.stav_points', 'py', ('lit', ',', '.', 'all')): "decimal comma: a mark holds at most one; with two both sides refuse (ValueError / NaN)",
    ('TyrvingCalculator.stav_points', 'js', ('lit', ',', '.', 'first')): "decimal comma, see the Python entry",
}


def py_replaces(fn):
    import collections
    out = collections.Counter()
    for n in ast.walk(fn):
        if isinstance(n, ast.Call) and isinstance(n.func, ast.Attribute) and n.func.attr == 'replace' and len(n.args) >= 2 \
                and all(isinstance(a, ast.Constant) and isinstance(a.value, str) for a in n.args[:2]):
            scope = 'all'
            if len(n.args) >= 3:
                scope = 'first' if isinstance(n.args[2], ast.Constant) and n.args[2].value == 1 else 'count'
            out[('lit', n.args[0].value, n.args[1].value, scope)] += 1
        # ''.join(x.split()) removes all whitespace
        if isinstance(n, ast.Call) and isinstance(n.func, ast.Attribute) and n.func.attr == 'join' and isinstance(n.func.value, ast.Constant) \
                and n.args and isinstance(n.args[0], ast.Call) and isinstance(n.args[0].func, ast.Attribute) and n.args[0].func.attr == 'split' \
                and not n.args[0].args:
            out[('class', '\\s', n.func.value.value, 'all')] += 1
    return out


def js_replaces(fn):
    import collections
    out = collections.Counter()
    for n in jsast.jwalk(fn):
        if n['type'] == 'CallExpression' and n['callee']['type'] == 'MemberExpression' and n['callee']['property'].get('name') == 'replace' \
                and len(n['arguments']) >= 2 and n['arguments'][1]['type'] == 'Literal' and isinstance(n['arguments'][1].get('value'), str):
            a, b = n['arguments'][0], n['arguments'][1]['value']
            if a['type'] == 'Literal' and 'regex' in a:
                pat, flags = a['regex']['pattern'], a['regex']['flags']
                scope = 'all' if 'g' in flags else 'first'
                ms = re.fullmatch(r'\^(\\?.)\+|(\\?.)\+\$', pat)
                if ms and b == '' and (ms.group(1) or ms.group(2))[-1] not in '.^$*+?()[]{}|\\dswDSW':
                    continue                    # /^x+/ -> '' is lstrip('x'), /x+$/ -> '' is rstrip('x'): a strip, not a replacement
                if b == '' and (re.fullmatch(r'\[[^\]]+\]\+?\$', pat) or re.fullmatch(r'\\?.\$', pat)):
                    continue                    # /[ g]+$/ -> '' and /\.$/ -> '': trailing characters peeled off, the regex spelling of the while loop
                if len(pat) == 1 and pat not in '.^$*+?()[]{}|\\':
                    out[('lit', pat, b, scope)] += 1
                elif len(pat) == 2 and pat[0] == '\\' and not pat[1].isalnum():
                    out[('lit', pat[1], b, scope)] += 1
                else:
                    out[('class', pat, b, scope)] += 1
            elif a['type'] == 'Literal' and isinstance(a.get('value'), str):
                # the third argument of String.prototype.replace is ignored: a string pattern replaces the first occurrence
                out[('lit', a['value'], b, 'first')] += 1
    return out


def js_regex_to_py(src):
    return re.sub(r'\(\?<([A-Za-z_]\w*)>', r'(?P<\1>', src)


def deep_equal(a, b, path=''):
    """first difference between a Python table and its JS twin, or None"""
    if isinstance(a, (int, float)) and isinstance(b, (int, float)) and not isinstance(a, bool) and not isinstance(b, bool):
        return None if float(a) == float(b) else '%s: %r vs %r' % (path, a, b)
    if isinstance(a, (list, tuple)) and isinstance(b, (list, tuple)):
        if len(a) != len(b):
            return '%s: %d vs %d elements' % (path, len(a), len(b))
        for i, (x, y) in enumerate(zip(a, b)):
            d = deep_equal(x, y, '%s[%d]' % (path, i))
            if d:
                return d
        return None
    if isinstance(a, dict) and isinstance(b, dict):
        ka = {str(k): k for k in a}
        kb = {str(k): k for k in b}
        for k in sorted(set(ka) | set(kb)):
            if k not in ka:
                return '%s: key %r only in JS' % (path, k)
            if k not in kb:
                return '%s: key %r only in Python' % (path, k)
            d = deep_equal(a[ka[k]], b[kb[k]], '%s[%r]' % (path, k))
            if d:
                return d
        return None
    return None if a == b else '%s: %r vs %r' % (path, a, b)


def run(ctx, repo):
    trees = jsast.parse_js(repo, list(JS.values()))
    J = {k: trees[v] for k, v in JS.items()}
    jfun = {k: jsast.functions(t) for k, t in J.items()}
    jvars = {k: jsast.top_level_vars(t) for k, t in J.items()}
    pmods = {k: repo.module(v) for k, v in PY.items()}
    ctx.explanation = (
        'Sibling cross-check of the two languages on parse trees only (Python ast; ESTree from the acorn parser bundled in '
        'node, the JS is never evaluated): duplicated literal tables are compared cell by cell, membership of every table '
        'key in the run / event-code / relay patterns is compared between the Python patterns and the JS regex literals with '
        'automata, the group-index map and the normaliser maps are compared, the predicate/constant fingerprints of each '
        'ported function pair must agree modulo a frozen, reasoned idiom allowlist, and the language-independent notation '
        'taint rule of C06 is evaluated on the JS twin.  Functional equality is not decided.')
    ctx.rule('R1', 'duplicated tables (_tyrvingTables, _qkidsTables, _compTypeMap) are equal cell by cell')
    ctx.rule('R2', 'every table key has the same membership in PAT_RUN / PAT_EVENT_CODE / PAT_RELAYS on both sides; __codesmap '
                   'indices point at the groups the Python names denote; the _gnorms maps correspond')
    ctx.rule('R3', 'predicate / constant fingerprints of each ported pair agree modulo the frozen idiom allowlist')
    ctx.rule('R6', 'the Tyrving and QuadKids formulas have the same symbolic normal form (exact piecewise polynomial, normalised conditions) '
                   'in both languages, returns and conditional adjustments alike')
    ctx.rule('R5', 'no parseInt of a numeric-typed argument in the JavaScript sources (int() truncates, parseInt stringifies first)')
    ctx.rule('R4', 'language-independent rules on the twin: no default number-to-string notation reaches roundUpStrNum')
    # ---- R1
    n_cells = 0
    for mod, name in (('tyrving', '_tyrvingTables'), ('qkids', '_qkidsTables'), ('qkids', '_compTypeMap')):
        if name not in jvars[mod]:
            raise AnalysisError('anchor vanished: %s in %s' % (name, JS[mod]))
        jt = jsast.module_value(J[mod], name)      # the table as it stands after the module's top-level statements (JS T-FOLD)
        ptab = repo.const(PY[mod], name)
        if name == '_qkidsTables':
            # aliases added after the literal on either side (e.g. the 75H alias) are compared through the folded value
            pass
        n_cells += sum(1 for _ in str(ptab).split(','))
        d = deep_equal(ptab, jt, name)
        if d is None:
            ctx.ok('R1', '%s equal in both languages' % name)
        else:
            ctx.finding('R1', '%s::%s differs from %s' % (JS[mod], name, PY[mod]), JS[mod], jsast.line(jvars[mod][name]),
                        'the duplicated table %s differs between Python and JavaScript at %s' % (name, d), d)
    ctx.count('table cells compared across languages (approx.)', n_cells)
    # ---- R2 membership of keys
    jpats = {}
    for nm in ('PAT_RUN', 'PAT_EVENT_CODE', 'PAT_RELAYS'):
        if nm not in jvars['patterns']:
            raise AnalysisError('anchor vanished: %s in patterns.js' % nm)
        lit = jsast.literal(jvars['patterns'][nm])
        if not (isinstance(lit, tuple) and lit[0] == 'regex'):
            raise AnalysisError('%s in patterns.js is not a regex literal' % nm)
        if lit[2]:
            raise AnalysisError('%s in patterns.js has flags %r' % (nm, lit[2]))
        jpats[nm] = js_regex_to_py(lit[1])
    P = Pats(repo, extra_patterns=[('@JS_' + k, v) for k, v in jpats.items()])
    keys = set()
    for g, t in repo.const(PY['tyrving'], '_tyrvingTables').items():
        keys |= set(t)
    for c, t in repo.const(PY['qkids'], '_qkidsTables').items():
        keys |= set(t)
    n_mem = 0
    for nm in jpats:
        dp, dj = P.dfa(nm), P.dfa('@JS_' + nm)
        for k in sorted(keys):
            n_mem += 1
            a, b = rx.accepts(dp, k), rx.accepts(dj, k)
            if a != b:
                ctx.finding('R2', '%s::%s membership of %s' % (JS['patterns'], nm, k), JS['patterns'], jsast.line(jvars['patterns'][nm]),
                            'table key %r %s %s in Python but %s in JavaScript (patterns.js is generated from codes.py and is stale): '
                            'the two ports classify / normalise this key differently' % (k, 'matches' if a else 'does not match', nm,
                                                                                          'matches' if b else 'does not'), k)
    ctx.count('(pattern, key) membership comparisons', n_mem)
    ctx.floor('(pattern, key) membership comparisons', n_mem, 200)
    if not any(f.rule == 'R2' for f in ctx.findings):
        ctx.ok('R2', 'all %d (pattern, key) memberships agree' % n_mem)
    # group-index map and normaliser maps
    cm = (jsast.module_value(J['patterns'], '__codesmap') or {}).get('PAT_EVENT_CODE', {}) if '__codesmap' in jvars['patterns'] else None
    if cm is None:
        raise AnalysisError('anchor vanished: __codesmap')
    jg = jsast.module_value(J['utils'], '_gnorms') if '_gnorms' in jvars['utils'] else None
    if jg is None:
        raise AnalysisError('anchor vanished: _gnorms in utils.js')
    from .c07 import read_gnorms
    pg = read_gnorms(pmods['utils'])
    pair_of = {p: j for m, p, j in PAIRS}
    jparsed = sp.parse(jpats['PAT_EVENT_CODE'])
    EC = P.need('PAT_EVENT_CODE')
    for name in sorted(set(pg) | set(jg)):
        if name not in jg:
            ctx.finding('R2', '%s::_gnorms::%s missing' % (JS['utils'], name), JS['utils'], jsast.line(jvars['utils']['_gnorms']),
                        'Python normalises group %s with %s; the JavaScript _gnorms has no entry for it: codes with this group '
                        'normalise differently (e.g. the weight of a weight-throw code)' % (name, pg[name]), name)
            continue
        if name not in pg:
            ctx.finding('R2', '%s::_gnorms::%s only in JS' % (JS['utils'], name), JS['utils'], jsast.line(jvars['utils']['_gnorms']),
                        'JavaScript normalises group %s; Python has no entry for it' % name, name)
            continue
        jn = jg[name][1] if isinstance(jg[name], tuple) else None
        if pair_of.get(pg[name]) != jn:
            ctx.finding('R2', '%s::_gnorms::%s normaliser' % (JS['utils'], name), JS['utils'], jsast.line(jvars['utils']['_gnorms']),
                        'group %s is normalised by %s in Python (port: %s) but by %s in JavaScript' % (name, pg[name], pair_of.get(pg[name]), jn))
            continue
        idx = cm.get(name)
        if not isinstance(idx, int):
            ctx.finding('R2', '%s::__codesmap::%s' % (JS['patterns'], name), JS['patterns'], None, '__codesmap has no group index for %s' % name)
            continue
        jsub = find_group(list(jparsed), idx)
        psub = find_group(list(EC), EC.state.groupdict.get(name))
        if jsub is None or psub is None:
            ctx.finding('R2', '%s::__codesmap::%s index' % (JS['patterns'], name), JS['patterns'], None,
                        'group index %s of %s does not exist in the JS pattern' % (idx, name))
            continue
        try:
            same, w1, w2 = P.equal(P.exact(jsub), P.exact(psub))
        except Exception as e:
            raise AnalysisError('cannot compare group %s: %s' % (name, e))
        if same:
            ctx.ok('R2', 'group %s: JS capture %d has the language of the Python named group' % (name, idx))
        else:
            ctx.finding('R2', '%s::__codesmap::%s sub-pattern' % (JS['patterns'], name), JS['patterns'], None,
                        'JS capture %d (group %s) does not have the language of the Python group: e.g. %r is captured on one side only'
                        % (idx, name, w1 if w1 is not None else w2), w1 if w1 is not None else w2)
    # ---- R3 fingerprints
    n_pairs = 0
    for mod, pq, jq in PAIRS:
        if jq not in jfun[mod]:
            raise AnalysisError('anchor vanished: JS function %s in %s' % (jq, JS[mod]))
        pf = pmods[mod].func(pq)
        n_pairs += 1
        pp, pc = py_preds(pf)
        jp, jc = js_preds(jfun[mod][jq])
        # a predicate whose subject is a local name unknown to the other side is a renamed temporary: match it by
        # (comparator, constant) only; if the other side knows the name, the choice of variable is part of the predicate
        pnames = {jsast.camel(n.id) for n in ast.walk(pf) if isinstance(n, ast.Name)} | {jsast.camel(a.arg) for a in pf.args.args}
        jnames = {n['name'] for n in jsast.jwalk(jfun[mod][jq]) if n['type'] == 'Identifier'}

        def root(subj):
            return re.split(r'[.\[(]', subj)[0] if isinstance(subj, str) else subj
        only_p = set(pp - jp)
        only_j = set(jp - pp)
        for x in sorted(only_p, key=str):
            if root(x[0]) not in jnames:
                cand = [y for y in only_j if y[1:] == x[1:] and root(y[0]) not in pnames]
                if cand:
                    only_p.discard(x)
                    only_j.discard(cand[0])
        res_py = sorted(str(x) for x in only_p if (pq, 'py', str(x)) not in ALLOW)
        res_js = sorted(str(x) for x in only_j if (pq, 'js', str(x)) not in ALLOW)
        for x in res_py:
            ctx.finding('R3', '%s::%s::predicate only in Python %s' % (JS[mod], jq, x), JS[mod], jsast.line(jfun[mod][jq]),
                        'the Python function %s tests %s; its JavaScript port %s has no matching test (the ports have drifted: a '
                        'constant, comparator or tested variable differs)' % (pq, x, jq), x)
        for x in res_js:
            ctx.finding('R3', '%s::%s::predicate only in JavaScript %s' % (JS[mod], jq, x), JS[mod], jsast.line(jfun[mod][jq]),
                        'the JavaScript port %s tests %s; the Python original %s has no matching test (the ports have drifted: a '
                        'constant, comparator or tested variable differs)' % (jq, x, pq), x)
        pc = {x for x in pc if (pq, x) not in ALLOW_CONST}
        jc = {x for x in jc if (pq, x) not in ALLOW_CONST}
        if pc != jc:
            ctx.finding('R3', '%s::%s::constants %s' % (JS[mod], jq, sorted(pc ^ jc)), JS[mod], jsast.line(jfun[mod][jq]),
                        'numeric constants differ between %s (%s) and its port %s (%s)' % (pq, sorted(pc - jc), jq, sorted(jc - pc)),
                        sorted(pc ^ jc))
        ps, js_ = py_strs(pf), js_strs(jfun[mod][jq])
        sres = sorted(('py', x) for x in ps - js_ if (pq, 'py', x) not in ALLOW_STR) + sorted(('js', x) for x in js_ - ps if (pq, 'js', x) not in ALLOW_STR)
        if sres:
            ctx.finding('R3', '%s::%s::string constants %s' % (JS[mod], jq, sres), JS[mod], jsast.line(jfun[mod][jq]),
                        'the short string constants of %s and its port %s differ: %s (a character set, separator or unit letter was changed '
                        'on one side only)' % (pq, jq, ', '.join('%s only in %s' % (repr(x), 'Python' if s_ == 'py' else 'JavaScript') for s_, x in sres)), sres)
        # truthiness tests per name (multiset): a defensive `if not x` added or dropped on one side only
        pt, jt = py_truthy(pf), js_truthy(jfun[mod][jq])
        tp, tj = pt - jt, jt - pt
        for nm in sorted(tp):
            if nm not in jnames:
                # a local that the other side does not know is a renamed temporary: pair it with an unknown local of the other side
                for m_ in sorted(tj):
                    if m_ not in pnames and tj[m_] > 0 and tp[nm] > 0:
                        k_ = min(tj[m_], tp[nm])
                        tj[m_] -= k_
                        tp[nm] -= k_
        tres = [('py', nm, k) for nm, k in sorted(tp.items()) if k > 0 and (pq, 'py', nm) not in ALLOW_TRUTHY] + \
               [('js', nm, k) for nm, k in sorted(tj.items()) if k > 0 and (pq, 'js', nm) not in ALLOW_TRUTHY]
        # only tests on what the caller passes in are compared as findings: how often a LOCAL is tested for truth changes with every
        # harmless restructuring (guard clauses, merged conditions, a helper extracted), a test on a parameter is input validation
        pparams_ = {jsast.camel(a.arg) for a in pf.args.args + pf.args.kwonlyargs}
        jparams_ = {x['name'] for prm in jfun[mod][jq].get('params', []) for x in jsast.jwalk(prm) if x.get('type') == 'Identifier'}
        def _is_input(t_):
            root = t_[1].split('.')[0].split('[')[0]
            if (root in pparams_) if t_[0] == 'py' else (root in jparams_):
                return True
            # a local that both sides have, tested on one side and never on the other: a whole defensive branch is missing
            other = jt if t_[0] == 'py' else pt
            return t_[1] in pnames and t_[1] in jnames and other.get(t_[1], 0) == 0
        noted = [t_ for t_ in tres if not _is_input(t_)]
        tres = [t_ for t_ in tres if t_ not in noted]
        for side, nm, k in noted:
            ctx.info('%s <-> %s: the local `%s` is tested for truth %d time(s) more in %s (not compared: a local, not an input)' % (
                pq, jq, nm, k, 'Python' if side == 'py' else 'JavaScript'))
        for side, nm, k in tres:
            ctx.finding('R3', '%s::%s::emptiness test of %s only in %s' % (JS[mod], jq, nm, 'Python' if side == 'py' else 'JavaScript'),
                        JS[mod], jsast.line(jfun[mod][jq]),
                        '%s tests `%s` for emptiness / truth %d time(s) more than %s: a defensive branch exists on one side only, so inputs '
                        'that reach it are answered differently' % ('Python ' + pq if side == 'py' else 'JavaScript ' + jq, nm, k,
                                                                    'its port ' + jq if side == 'py' else 'the original ' + pq), nm)
        if tres:
            res_py = res_py or ['truthiness']
        # replace() operations: same characters, same replacement, same scope (every occurrence / the first)
        pr, jr = py_replaces(pf), js_replaces(jfun[mod][jq])
        rres = [('py', k) for k in sorted((pr - jr)) if (pq, 'py', k) not in ALLOW_REPLACE] + \
               [('js', k) for k in sorted((jr - pr)) if (pq, 'js', k) not in ALLOW_REPLACE]
        if rres:
            ctx.finding('R3', '%s::%s::replace operations differ' % (JS[mod], jq), JS[mod], jsast.line(jfun[mod][jq]),
                        'the text replacements of %s and its port %s differ: %s.  Python replaces every occurrence unless a count is given; '
                        'JavaScript replaces the first occurrence for a string pattern and every one for a /g regex; \\s is all white space, '
                        "' ' a blank" % (pq, jq, '; '.join('%s has %s %r -> %r (%s)' % (('Python' if sd == 'py' else 'JavaScript'), k[0], k[1], k[2], k[3])
                                                          for sd, k in rres)), [list(k) for _sd, k in rres])
            res_py = res_py or ['replace']
        if not res_py and not res_js and pc == jc and not sres:
            ctx.ok('R3', '%s <-> %s: %d predicates, constants %s agree' % (pq, jq, len(pp | jp), sorted(pc)))
    ctx.floor('ported pairs compared', n_pairs, 18)
    # ---- R7 the unit letters a normaliser removes from the end of a group are the same set in both languages, letter case included:
    # Python tests `s[-1].lower() == 'g'` (g and G), JavaScript strips with a character class; the class must hold both cases
    import re as _re
    ctx.rule('R7', 'the unit letters stripped by each event-code normaliser (_norm_kg, _norm_g, _norm_cm, _norm_m) are the same set, upper and lower case, in both languages')
    for pq, jq in (('_norm_kg', '_normgKg'), ('_norm_g', '_normg'), ('_norm_m', '_normm'), ('_norm_cm', '_normCM')):
        if not pmods['utils'].has_func(pq) or jq not in jfun['utils']:
            continue
        pf_ = pmods['utils'].func(pq)
        pl = set()
        for c in ast.walk(pf_):
            if isinstance(c, ast.Compare) and len(c.ops) == 1 and isinstance(c.comparators[0], ast.Constant) and isinstance(c.comparators[0].value, str):
                val = c.comparators[0].value
                l = c.left
                folded_case = isinstance(l, ast.Call) and isinstance(l.func, ast.Attribute) and l.func.attr in ('lower', 'upper', 'casefold')
                base = l.func.value if folded_case else l
                if isinstance(base, ast.Subscript) and isinstance(c.ops[0], (ast.Eq, ast.In)):
                    for ch in val:
                        if ch.isalpha():
                            pl |= {ch.lower(), ch.upper()} if folded_case else {ch}
            if isinstance(c, ast.Call) and isinstance(c.func, ast.Attribute) and c.func.attr in ('rstrip', 'endswith') and c.args \
                    and isinstance(c.args[0], ast.Constant) and isinstance(c.args[0].value, str):
                recv = c.func.value
                folded_case = isinstance(recv, ast.Call) and isinstance(recv.func, ast.Attribute) and recv.func.attr in ('lower', 'upper')
                for ch in c.args[0].value:
                    if ch.isalpha():
                        pl |= {ch.lower(), ch.upper()} if folded_case else {ch}
        jl = set()
        for n in jsast.jwalk(jfun['utils'][jq]):
            if n.get('type') == 'Literal' and 'regex' in n:
                flags = n['regex'].get('flags', '')
                for cls in _re.findall(r'\[([^\]]*)\]', n['regex']['pattern']):
                    for ch in cls:
                        if ch.isalpha():
                            jl |= {ch.lower(), ch.upper()} if 'i' in flags else {ch}
            if n.get('type') == 'BinaryExpression' and n['operator'] in ('===', '==') and n['right'].get('type') == 'Literal' and isinstance(n['right'].get('value'), str):
                lcall = n['left']
                lowered = lcall.get('type') == 'CallExpression' and lcall['callee'].get('type') == 'MemberExpression' and \
                    lcall['callee']['property'].get('name') in ('toLowerCase', 'toUpperCase')
                for ch in n['right']['value']:
                    if ch.isalpha():
                        jl |= {ch.lower(), ch.upper()} if lowered else {ch}
        if not pl or not jl:
            continue        # one side removes the unit by position (the pattern fixes the letter there): nothing to compare
        if pl == jl:
            ctx.ok('R7', '%s <-> %s strip the unit letters %s' % (pq, jq, ''.join(sorted(pl))))
        else:
            ctx.finding('R7', '%s::%s::unit letters %s' % (JS['utils'], jq, ''.join(sorted(pl ^ jl))), JS['utils'], jsast.line(jfun['utils'][jq]),
                        '%s removes the unit letters {%s} from the end of the group, its port %s removes {%s}: a code written with %s keeps the letter '
                        'in one language only and normalises to another code' % (pq, ''.join(sorted(pl)), jq, ''.join(sorted(jl)),
                                                                                   ', '.join(repr(x) for x in sorted(pl ^ jl))), sorted(pl ^ jl))
    # ---- R4 notation taint on the JS twin
    n_calls = 0
    for q, fn in jfun['utils'].items():
        for n in jsast.jwalk(fn):
            if n['type'] == 'CallExpression' and jsast.js_name(n['callee']) == 'roundUpStrNum' and n['arguments']:
                n_calls += 1
                a = n['arguments'][0]
                kind = 'unknown'
                if a['type'] == 'BinaryExpression' and a['operator'] == '+' and any(
                        x['type'] == 'Literal' and x.get('value') == '' for x in (a['left'], a['right'])):
                    kind = 'default'
                elif a['type'] == 'CallExpression' and a['callee']['type'] == 'Identifier' and a['callee']['name'] == 'String':
                    kind = 'default'
                elif a['type'] == 'CallExpression' and a['callee']['type'] == 'MemberExpression' and not a['callee']['computed']:
                    m = a['callee']['property']['name']
                    if m == 'toString':
                        kind = 'default'
                    elif m == 'toFixed' and a['arguments'] and a['arguments'][0]['type'] == 'Literal':
                        kind = 'fixed:%s' % a['arguments'][0]['value']
                elif a['type'] == 'TemplateLiteral':
                    kind = 'default'
                if kind == 'default':
                    ctx.finding('R4', '%s::%s::roundUpStrNum argument in default number notation' % (JS['utils'], q), JS['utils'], jsast.line(n),
                                '%s passes a number converted with the default notation to roundUpStrNum: JavaScript switches to '
                                'exponent notation below 1e-6 (Python\'s repr below 1e-4), so residues format differently in the two '
                                'ports and wrongly in both' % q, '65.00005 s')
                elif kind.startswith('fixed:'):
                    nd = int(float(kind.split(':')[1]))
                    pyk = None
                    for c in ast.walk(pmods['utils'].func('format_seconds_as_time')):
                        if isinstance(c, ast.Call) and call_name(c) == 'round_up_str_num' and c.args:
                            pyk = c06.classify_notation(c.args[0], pmods['utils'].func('format_seconds_as_time'))
                    if nd < 5:
                        ctx.finding('R4', '%s::%s::fixed notation too short' % (JS['utils'], q), JS['utils'], jsast.line(n),
                                    'toFixed(%d) rounds to nearest before the rounding up' % nd)
                    elif pyk and pyk != 'fixed:%d' % nd:
                        ctx.finding('R4', '%s::%s::notation differs from Python' % (JS['utils'], q), JS['utils'], jsast.line(n),
                                    'JavaScript formats the fraction with toFixed(%d), Python with %s: residues between the two '
                                    'precisions format differently' % (nd, pyk))
                    else:
                        ctx.ok('R4', '%s: fixed notation with %d decimals on both sides' % (q, nd))
                else:
                    ctx.info('%s: notation of the roundUpStrNum argument not classified' % q)
    ctx.floor('JS callers of roundUpStrNum', n_calls, 1)

    # ---- R5 parseInt of a number: Python's int() truncates; parseInt() converts its argument to text first, and a number below 1e-6
    # (or from 1e21) is written in exponent notation, so parseInt(1e-7) is 1.  Every parseInt whose argument is numeric-typed is a
    # divergence from the int() of the original
    n_pi = 0
    for modk, funs in jfun.items():
        for q, fn in funs.items():
            # skip nested duplicates: analyse each parseInt once, in its innermost named function
            inner = [f2 for q2, f2 in funs.items() if f2 is not fn and any(x is f2 for x in jsast.jwalk(fn))]
            inner_ids = {id(x) for f2 in inner for x in jsast.jwalk(f2)}
            params = {p_['name'] for p_ in fn.get('params', []) if p_['type'] == 'Identifier'}
            assigns = {}
            arith_use = set()
            for n in jsast.jwalk(fn):
                if n['type'] == 'AssignmentExpression' and n['left']['type'] == 'Identifier':
                    assigns.setdefault(n['left']['name'], []).append((n['operator'], n['right']))
                if n['type'] == 'VariableDeclarator' and n['id']['type'] == 'Identifier' and n.get('init') is not None:
                    assigns.setdefault(n['id']['name'], []).append(('=', n['init']))
                if n['type'] == 'BinaryExpression' and n['operator'] in ('-', '*', '/', '%'):
                    zero = any(x['type'] == 'Literal' and x.get('value') == 0 for x in (n['left'], n['right']))
                    if not (n['operator'] == '-' and zero):          # `x - 0` is the coercion idiom: x may be text
                        for x in (n['left'], n['right']):
                            if x['type'] == 'Identifier':
                                arith_use.add(x['name'])

            def numeric(e, depth=0):
                t = e['type']
                if t == 'Literal':
                    return isinstance(e.get('value'), (int, float)) and not isinstance(e.get('value'), bool)
                if t == 'BinaryExpression':
                    if e['operator'] in ('-', '*', '/', '%'):
                        return True
                    if e['operator'] == '+':
                        return numeric(e['left'], depth) and numeric(e['right'], depth)
                    return False
                if t == 'UnaryExpression' and e['operator'] in ('-', '+'):
                    return True
                if t == 'CallExpression':
                    nm = jsast.js_name(e['callee']) or ''
                    return nm in ('parseFloat', 'Number') or nm.startswith('Math.')
                if t == 'ConditionalExpression':
                    return numeric(e['consequent'], depth) and numeric(e['alternate'], depth)
                if t == 'Identifier' and depth < 4:
                    nm = e['name']
                    defs = assigns.get(nm, [])
                    if nm in params:
                        return nm in arith_use and all(numeric(r, depth + 1) for op, r in defs if op == '=')
                    return bool(defs) and all(op != '=' or numeric(r, depth + 1) for op, r in defs) and any(op == '=' for op, r in defs)
                return False
            for n in jsast.jwalk(fn):
                if id(n) in inner_ids:
                    continue
                if n['type'] == 'CallExpression' and jsast.js_name(n['callee']) == 'parseInt' and n['arguments']:
                    n_pi += 1
                    a = n['arguments'][0]
                    if numeric(a):
                        k_ = sum(1 for f_ in ctx.findings if f_.rule == 'R5' and f_.construct.startswith('%s::%s::' % (JS[modk], q))) + 1
                        ctx.finding('R5', '%s::%s::parseInt of a number #%d' % (JS[modk], q, k_),
                                    JS[modk], jsast.line(n),
                                    '%s applies parseInt to a number: parseInt converts its argument to text first, and JavaScript writes numbers '
                                    'below 1e-6 (and from 1e21) in exponent notation, so parseInt(1e-7) is 1 where Python\'s int() gives 0; the '
                                    'port of int(x) is Math.trunc(x)' % q, 'formatSecondsAsTime(1e-7) is "1", format_seconds_as_time(1e-7) is "0"')
    ctx.count('parseInt calls typed', n_pi)
    ctx.floor('parseInt calls typed', n_pi, 3)
    if not any(f.rule == 'R5' for f in ctx.findings):
        ctx.ok('R5', 'no parseInt is applied to a numeric-typed argument (%d calls typed)' % n_pi)

    # ---- R6 the formulas of the scoring ports are the same piecewise polynomials (sa/symx.py): returns and conditional effects
    from .. import symx
    FORMULA_PAIRS = [('tyrving', 'tyrving_score', 'tyrvingScore'), ('tyrving', 'TyrvingCalculator.race_points', 'racePoints'), ('tyrving', 'TyrvingCalculator.jump_points', 'jumpPoints'),
                     ('tyrving', 'TyrvingCalculator.stav_points', 'stavPoints'), ('qkids', 'qkids_score', 'qkidsScore')]
    n_forms = 0
    for modk, pq, jq in FORMULA_PAIRS:
        if jq not in jfun[modk]:
            raise AnalysisError('anchor vanished: JS function %s' % jq)
        pe, je = [], []
        pr_ = symx.py_returns(pmods[modk].func(pq), pe)
        jr_ = symx.js_returns(jfun[modk][jq], je)
        pt, jt_ = [x[1] for x in pr_], [x[1] for x in jr_]
        if None in pt or None in jt_:
            why = [x[2] for x in pr_ + jr_ if x[1] is None]
            if pq in ('TyrvingCalculator.points',):
                ctx.info('%s: returns not arithmetic (%s); effects compared only' % (pq, why[0]))
            else:
                raise AnalysisError('%s / %s: a return is outside the symbolic fragment (%s)' % (pq, jq, why[0]))
        n_forms += len(pt)
        if pt != jt_:
            ctx.finding('R6', '%s::%s::formula differs from the original' % (JS[modk], jq), JS[modk], jsast.line(jfun[modk][jq]),
                        'the value returned by %s and by its port %s are different functions of the same quantities: Python %s; JavaScript %s'
                        % (pq, jq, [t_ for t_ in pt if t_ not in jt_] or pt, [t_ for t_ in jt_ if t_ not in pt] or jt_), {'python': pt, 'javascript': jt_})
        elif sorted(pe) != sorted(je):
            ctx.finding('R6', '%s::%s::conditional adjustments differ from the original' % (JS[modk], jq), JS[modk], jsast.line(jfun[modk][jq]),
                        'the adjustments made under a condition differ between %s and %s: only in Python %s; only in JavaScript %s'
                        % (pq, jq, [e_ for e_ in pe if e_ not in je], [e_ for e_ in je if e_ not in pe]))
        else:
            ctx.ok('R6', '%s <-> %s: %d return form(s) and %d conditional effect(s) identical' % (pq, jq, len(pt), len(pe)))
    ctx.floor('formula normal forms compared', n_forms, 5)

