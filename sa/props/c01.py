"""C01 — combined-events points equal the official formula on the decimal mark (structural necessary conditions)."""
import ast
import json
import math
import os

from .. import fold
from ..core import AnalysisError, VERIF
from ..grid import FnGrid
from ..src import call_name, stmt_key, unparse

LEVEL = 'other'
ATH = 'athlib/athlon_score.py'
AGE = 'athlib/wma/agegrader.py'
DATA = 'athlib/wma/wma-athlons-data.json'


def spec():
    with open(os.path.join(VERIF, 'spec', 'athlon_coeffs.json')) as f:
        return json.load(f)


def same(a, b):
    return isinstance(a, (int, float)) and isinstance(b, (int, float)) and float(a) == float(b)


def score_roles(fn):
    """names by definition: coefficient object (bound from the shared table), age factor, lookup key, result"""
    r = {'coeffs': 'coeffs', 'age': 'age_factor', 'key': 'key', 'result': 'points'}
    for n in ast.walk(fn):
        if isinstance(n, ast.Assign) and len(n.targets) == 1 and isinstance(n.targets[0], ast.Name):
            v = n.value
            if isinstance(v, ast.Subscript) and ast.unparse(v.value) == '_scoring_objects':
                r['coeffs'] = n.targets[0].id
                r['key'] = ast.unparse(v.slice)
            if isinstance(v, ast.Call) and call_name(v) == 'calculate_factor':
                r['age'] = n.targets[0].id
    rets = [x for x in ast.walk(fn) if isinstance(x, ast.Return) and isinstance(x.value, ast.Name)]
    if rets:
        r['result'] = rets[-1].value.id
    return r


def dispatch_arms(fn):
    """the jumps / throws / else chain of score() or performance(): {'jumps': body, 'throws': body, 'time': body}; the tests may be
    PAT_JUMPS.match(code) or a membership test in the JUMPS / THROWS collections"""
    for n in ast.walk(fn):
        if isinstance(n, ast.If) and 'JUMPS' in ast.unparse(n.test) and n.orelse:
            nxt = n.orelse
            if len(nxt) == 1 and isinstance(nxt[0], ast.If) and 'THROWS' in ast.unparse(nxt[0].test) and nxt[0].orelse:
                return {'jumps': n.body, 'throws': nxt[0].body, 'time': nxt[0].orelse}, n
    return None, None


def dispatch_case_rule(ctx, repo, mod, fn, rule):
    """the key lookup upper-cases the event code (scoring_key); the kind dispatch must accept the same spellings: a pattern closed
    under case change, or a membership test applied to the upper-cased code"""
    from .. import rx
    from ..pats import Pats
    arms, chain = dispatch_arms(fn)
    if arms is None:
        return
    sk = mod.func('scoring_key') if mod.has_func('scoring_key') else None
    folds = sk is not None and any(isinstance(c, ast.Call) and call_name(c) in ('upper', 'lower') for c in ast.walk(sk))
    if not folds:
        return
    import re as _re
    from .. import fold as _fold
    events = sorted({r['event_code'] for r in repo.const(ATH, '_scoring_table') if isinstance(r, dict) and 'event_code' in r})
    if len(events) < 20:
        raise AnalysisError('scoring table events not foldable')
    env_codes = repo.folded('athlib/codes.py')[0]
    tests = [chain.test, chain.orelse[0].test]
    code_param = fn.args.args[1].arg
    refolded = any(isinstance(a, ast.Assign) and isinstance(a.targets[0], ast.Name) and a.targets[0].id == code_param and isinstance(a.value, ast.Call)
                   and call_name(a.value) in ('upper', 'lower') and a.lineno < chain.lineno for a in ast.walk(fn))

    def variants(k):
        return [v for v in {k.lower(), k.capitalize(), k[:1].lower() + k[1:]} if v != k]
    n_cmp = 0
    for t in tests:
        for c in ast.walk(t):
            if isinstance(c, ast.Call) and call_name(c) in ('match', 'search', 'fullmatch') and isinstance(c.func.value, ast.Name):
                rc = env_codes.get(c.func.value.id)
                if not isinstance(rc, _fold.RegexConst):
                    raise AnalysisError('dispatch pattern %s is not a foldable compiled pattern' % c.func.value.id)
                fl = rc.flags
                if isinstance(fl, tuple) and fl[:2] == ('modattr', 're'):
                    fl = int(getattr(_re, fl[2]))
                rxc = _re.compile(rc.pattern, fl if isinstance(fl, int) else 0)
                how = getattr(rxc, call_name(c))
                bad = [(k, v) for k in events for v in variants(k) if bool(how(k)) != bool(how(v))]
                n_cmp += len(events)
                if bad and not refolded:
                    ctx.finding(rule, '%s::%s::dispatch %s is case sensitive' % (ATH, fn.name, c.func.value.id), ATH, c.lineno,
                                'the coefficient row is looked up with the upper-cased code, but the dispatch pattern %s treats %r and %r '
                                'differently: the second spelling finds its row and is scored by another arm' % (c.func.value.id, bad[0][0], bad[0][1]), bad[0][1])
                else:
                    ctx.ok(rule, '%s: dispatch pattern %s gives every scored event and its other-case spellings the same arm' % (fn.name, c.func.value.id))
            if isinstance(c, ast.Compare) and len(c.ops) == 1 and isinstance(c.ops[0], ast.In) and isinstance(c.left, ast.Name) \
                    and c.left.id == code_param and isinstance(c.comparators[0], ast.Name):
                coll = env_codes.get(c.comparators[0].id)
                if not isinstance(coll, (list, tuple, set)):
                    raise AnalysisError('dispatch collection %s is not foldable' % c.comparators[0].id)
                bad = [(k, v) for k in events for v in variants(k) if (k in coll) != (v in coll)]
                n_cmp += len(events)
                if bad and not refolded:
                    ctx.finding(rule, '%s::%s::dispatch by membership in %s is case sensitive' % (ATH, fn.name, c.comparators[0].id), ATH, c.lineno,
                                'the coefficient row is looked up with the upper-cased code (scoring_key), but `%s` compares the code as given with '
                                'the members of %s: %r is a member and %r is not, so the second spelling finds its row and is scored by another arm'
                                % (ast.unparse(c), c.comparators[0].id, bad[0][0], bad[0][1]), bad[0][1])
                else:
                    ctx.ok(rule, '%s: membership dispatch gives every scored event and its other-case spellings the same arm' % fn.name)
    ctx.count('scored events compared across letter case in the dispatch of %s' % fn.name, n_cmp)


class Sym:
    """symbolic description of how an expression depends on the mark `value`"""

    def __init__(self, scale=None, rnd=None, rnd_scale=None, age_inside=False, guarded=False, uses_age=False):
        self.scale = scale          # multiplicative constant applied to the mark (None: does not involve the mark)
        self.rnd = rnd              # 'floor' | 'ceil' | None
        self.rnd_scale = rnd_scale  # scale at the moment of rounding
        self.age_inside = age_inside    # age factor multiplied in before the rounding
        self.uses_age = uses_age


def sym_eval(e, env, markname, agename):
    if isinstance(e, ast.Name):
        if e.id in env:
            return env[e.id]
        if e.id == agename:
            return Sym(None, uses_age=True)
        return Sym(None)
    if isinstance(e, ast.Constant) and isinstance(e.value, (int, float)):
        s = Sym(None)
        s.const = float(e.value)
        return s
    if isinstance(e, ast.BinOp) and isinstance(e.op, ast.Mult):
        l, r = sym_eval(e.left, env, markname, agename), sym_eval(e.right, env, markname, agename)
        for a, b in ((l, r), (r, l)):
            if a.scale is not None and b.scale is None:
                c = getattr(b, 'const', None)
                out = Sym(a.scale * c if c is not None else a.scale, a.rnd, a.rnd_scale, a.age_inside,
                          uses_age=a.uses_age or b.uses_age)
                return out
        if l.scale is None and r.scale is None:
            out = Sym(None, uses_age=l.uses_age or r.uses_age)
            lc, rc = getattr(l, 'const', None), getattr(r, 'const', None)
            if lc is not None and rc is not None:
                out.const = lc * rc
            return out
        raise AnalysisError('mark multiplied by itself')
    if isinstance(e, ast.Call) and call_name(e) in ('floor', 'ceil') and len(e.args) == 1:
        a = sym_eval(e.args[0], env, markname, agename)
        if a.scale is None:
            return a
        return Sym(a.scale, call_name(e), a.scale, a.uses_age, uses_age=a.uses_age)
    if isinstance(e, ast.Call) and call_name(e) in ('round',) and e.args:
        return sym_eval(e.args[0], env, markname, agename)
    if isinstance(e, ast.Call) and call_name(e) in ('float', 'int') and len(e.args) == 1:
        return sym_eval(e.args[0], env, markname, agename)
    if isinstance(e, ast.BinOp) and isinstance(e.op, ast.Div):
        l, r = sym_eval(e.left, env, markname, agename), sym_eval(e.right, env, markname, agename)
        c = getattr(r, 'const', None)
        if l.scale is not None and c:
            return Sym(l.scale / c, l.rnd, l.rnd_scale, l.age_inside, uses_age=l.uses_age)
    return Sym(None)


def run(ctx, repo):
    mod = repo.module(ATH)
    SP = spec()
    score = mod.func('score')
    ctx.explanation = (
        'Structural necessary conditions of the formula clause, for all inputs: coefficient rows equal the reference '
        'table (constant folding), the mark reaches the power law through floor (distances) / ceil (times) on the 0.01 '
        'grid after the age factor with guard orientation agreeing with the base of the power, no floor/ceil/int is '
        'applied to an unguarded float scaling of the mark (GRID), results are None or clamped ints, the unknown-pair '
        'guard dominates lookups and may-raise calls, the age path has no undefined name and cannot select a text '
        'column, and the hurdles remap equals the rule.')
    ctx.rule('R1', 'coefficients (A, Z, X) per (gender, event) and the ESAA override equal spec/athlon_coeffs.json')
    ctx.rule('R2', 'rounding direction and grid: field marks floor, times ceil, on the 0.01 grid, age factor inside the '
                   'rounding; guard orientation agrees with the base of the power; jumps in centimetres')
    ctx.rule('R3', 'GRID: no floor/ceil/int of an unguarded float scaling of the mark')
    ctx.rule('R4', 'every return of score is None or a non-negative int expression')
    ctx.rule('R5', 'the unknown-pair guard (key not in table -> None) dominates every table subscript and every may-raise call')
    # the key itself is built without error whatever the arguments are (an unknown pair may well be None or a number)
    from ..src import raw_param_text_ops
    _m = repo.module(ATH)
    if _m.has_func('scoring_key'):
        _ops = raw_param_text_ops(_m.func('scoring_key'))
        for _n, _msg in _ops:
            ctx.finding('R5', '%s::scoring_key::key construction may raise' % ATH, ATH, _n.lineno,
                        'scoring_key: %s, so an unknown gender / event pair that is not text is answered with an error, not with None' % _msg,
                        "('M', None)")
        if not _ops:
            ctx.ok('R5', 'scoring_key builds the key with operations that accept any argument')

    ctx.rule('R6', 'age path: no undefined names; the factor column selected by find_age is never the text column')
    ctx.rule('R12', 'every age from 1 up to the year before the first masters band gets the factor 1.0 for every combined-events row '
                    '(the age part of AthlonsAgeGrader.calculate_factor folded with find_age on the bundled table)')
    ctx.rule('R7', 'hurdles remap equals {(F,80H)->100H, (M,80H)->110H, (M,100H)->110H}')
    ctx.rule('R10', 'every hurdles event of the scoring table is mapped by the masters grader to a row of its table (mapping prelude folded)')
    ctx.rule('R9', 'the kind dispatch of score() accepts every spelling the (upper-casing) key lookup accepts')
    ctx.rule('R8', 'no history: the shared coefficient rows are never changed in place (the ESAA option affects only its own call); memos are transparent')

    # ---- R1
    table = repo.const(ATH, '_scoring_table')
    got = {}
    for o in table:
        if not isinstance(o, dict) or not {'gender', 'event_code', 'A', 'Z', 'X'} <= set(o):
            raise AnalysisError('_scoring_table row without gender/event_code/A/Z/X')
        k = (o['gender'], o['event_code'])
        if k in got:
            ctx.finding('R1', '%s::_scoring_table::duplicate row %s-%s' % (ATH, k[0], k[1]), ATH, None,
                        'two rows for %s %s: the later silently wins' % k)
        got[k] = o
    want = {(r['gender'], r['event_code']): r for r in SP['rows']}
    for k, r in want.items():
        if k not in got:
            ctx.finding('R1', '%s::_scoring_table::row %s-%s missing' % (ATH, k[0], k[1]), ATH, None,
                        'the coefficient row for %s %s was removed: the event scores None' % k)
            continue
        diffs = [c for c in 'AZX' if not same(got[k][c], r[c])]
        if diffs:
            ctx.finding('R1', '%s::_scoring_table::row %s-%s' % (ATH, k[0], k[1]), ATH, None,
                        'coefficients of %s %s differ from the reference: %s (reference %s; %s)' % (
                            k[0], k[1], {c: got[k][c] for c in diffs}, {c: r[c] for c in diffs}, r['source']),
                        {c: [got[k][c], r[c]] for c in diffs})
        else:
            ctx.ok('R1', 'row %s-%s = reference' % k)
    for k in got:
        if k not in want:
            ctx.info('row %s-%s is not in the reference table (unverified addition)' % k)
    ctx.floor('coefficient rows compared', len(want), 48)
    # ESAA override dict inside score()
    over = [n for n in ast.walk(score) if isinstance(n, ast.Dict) and {getattr(k, 'value', None) for k in n.keys} >= {'A', 'Z', 'X'}]
    od = None
    onode = None
    if len(over) == 1:
        onode = over[0]
        od = {k.value: v.value for k, v in zip(over[0].keys, over[0].values) if isinstance(v, ast.Constant)}
    else:
        # other spellings: dict(coeffs, A=.., Z=..) / coeffs.update(A=.., Z=..) / {**coeffs, 'A': ..}
        for n in ast.walk(score):
            if isinstance(n, ast.Call) and (call_name(n) in ('dict', 'update')) and {k.arg for k in n.keywords} >= {'A', 'Z'}:
                onode = n
                od = {k.arg: k.value.value for k in n.keywords if isinstance(k.value, ast.Constant)}
                od.setdefault('X', SP['esaa_M_800']['X'])      # X is inherited from the row (1.85 for M-800)
            if isinstance(n, ast.Dict) and None in n.keys and {getattr(k, 'value', None) for k in n.keys if k is not None} >= {'A', 'Z'}:
                onode = n
                od = {k.value: v.value for k, v in zip(n.keys, n.values) if k is not None and isinstance(v, ast.Constant)}
                od.setdefault('X', SP['esaa_M_800']['X'])
    e = SP['esaa_M_800']
    if od is None:
        ctx.finding('R1', '%s::score::ESAA override' % ATH, ATH, score.lineno,
                    'no ESAA 800 m override coefficients found in score(): the esaa option has no effect or cannot be checked')
        onode = score
    elif all(same(od.get(c), e[c]) for c in 'AZX'):
        ctx.ok('R1', 'ESAA 800 m override = reference')
    else:
        ctx.finding('R1', '%s::score::ESAA override' % ATH, ATH, onode.lineno,
                    'ESAA 800 m override %s differs from the reference %s' % ({c: od.get(c) for c in 'AZX'}, e))
    over = [onode]
    # the option must not leak into other calls: the shared coefficient rows are never changed in place
    from ..memo import shared_alias_mutations, analyse as memo_analyse
    from ..props.c19 import module_mutables
    mm = set(module_mutables(mod)) | {'_scoring_objects', '_scoring_table'}
    muts = shared_alias_mutations(score, mm) + shared_alias_mutations(mod.func('performance'), mm)
    for msg, node in muts:
        ctx.finding('R8', '%s::score::shared coefficient row changed in place' % ATH, ATH, node.lineno,
                    msg + ' (the ESAA option then applies to ordinary calls too)', 'one esaa=True call, then score("M","800",...)')
    res, memos = memo_analyse(score, mm)
    for rule, msg, node in res:
        ctx.finding('R8', '%s::score::memo %s' % (ATH, rule), ATH, node.lineno, msg)
    if not muts and not res:
        ctx.ok('R8', 'score()/performance() never change the shared coefficient rows; no opaque memo')
    # the override applies to M-800 with esaa only
    p = getattr(over[0], '_parent', None)
    while p is not None and not isinstance(p, ast.If):
        p = getattr(p, '_parent', None)
    cond = ast.unparse(p.test) if p is not None else ''
    esaa_param = score.args.args[4].arg if len(score.args.args) > 4 else 'esaa'
    if "'M-800'" in cond and esaa_param in cond and ' or ' not in cond:
        ctx.ok('R1', 'override guarded by key == M-800 and esaa')
    else:
        ctx.finding('R1', '%s::score::ESAA override condition' % ATH, ATH, over[0].lineno,
                    'the ESAA override is applied under %r, not only for M-800 with the esaa option' % cond)

    # ---- R13 no points are returned before the age factor has been worked out: the formula is evaluated on the mark AFTER the age
    # factor is applied, so a shortcut that answers from the raw mark (a mark on the wrong side of Z scores 0) is wrong for a master
    # whose adjusted mark is on the right side
    ctx.rule('R13', 'every return of points in score() comes after the age factor has been determined (None for an unknown pair aside)')
    RL0 = score_roles(score)
    agev = RL0['age']
    age_defs = [n for n in ast.walk(score) if isinstance(n, (ast.Assign, ast.AnnAssign, ast.AugAssign))
                and any(isinstance(t, ast.Name) and t.id == agev for t in (n.targets if isinstance(n, ast.Assign) else [n.target]))]
    if age_defs:
        first_def = min(n.lineno for n in age_defs)
        early = [r for r in ast.walk(score) if isinstance(r, ast.Return) and r.value is not None
                 and not (isinstance(r.value, ast.Constant) and r.value.value is None) and r.lineno < first_def]
        # in a chain of arms each arm may define the factor itself: a return is early when no definition precedes it in its own arm either
        def _has_def_before(r):
            p_ = getattr(r, '_parent', None)
            c_ = r
            while p_ is not None and p_ is not score:
                for nm_ in ('body', 'orelse', 'finalbody'):
                    blk = getattr(p_, nm_, None)
                    if isinstance(blk, list) and c_ in blk:
                        for st_ in blk[:blk.index(c_)]:
                            if any(x in age_defs for x in ast.walk(st_)):
                                return True
                c_, p_ = p_, getattr(p_, '_parent', None)
            blk = score.body
            if c_ in blk:
                for st_ in blk[:blk.index(c_)]:
                    if any(x in age_defs for x in ast.walk(st_)):
                        return True
            return False
        early = [r for r in ast.walk(score) if isinstance(r, ast.Return) and r.value is not None
                 and not (isinstance(r.value, ast.Constant) and r.value.value is None) and not _has_def_before(r)]
        if early:
            r0 = early[0]
            ctx.finding('R13', '%s::score::points returned before the age factor' % ATH, ATH, r0.lineno,
                        'score() answers `%s` before %s is determined: the points must be computed from the mark after the age factor is applied '
                        '(a master whose raw mark is on the wrong side of the zero-point mark can still score)' % (unparse(r0), agev),
                        'a mark just beyond Z with an age whose factor brings it back')
        else:
            ctx.ok('R13', 'every return of points follows the determination of %s' % agev)
    # ---- R2
    arms, chain = dispatch_arms(score)
    if arms is None:
        raise AnalysisError('score(): PAT_JUMPS / PAT_THROWS / else dispatch chain not found')
    dispatch_case_rule(ctx, repo, mod, score, 'R9')
    markname = score.args.args[2].arg
    RL = score_roles(score)
    for kind, body in arms.items():
        env = {markname: Sym(1.0)}
        rounded = None
        for st in body:
            if isinstance(st, ast.Assign) and len(st.targets) == 1 and isinstance(st.targets[0], ast.Name):
                v = sym_eval(st.value, env, markname, RL['age'])
                if st.targets[0].id == markname or v.scale is not None:
                    env[st.targets[0].id] = v
                    if v.rnd and rounded is None:
                        rounded = (v, st)
        final = env[markname]
        want_rnd = 'ceil' if kind == 'time' else 'floor'
        key = '%s::score::%s arm::' % (ATH, kind)
        if rounded is None:
            ctx.finding('R2', key + 'rounding to the 0.01 grid', ATH, chain.lineno,
                        'the %s arm no longer rounds the mark to 0.01 (%s) before the power law' % (kind, want_rnd))
            continue
        v, st = rounded
        if v.rnd != want_rnd:
            ctx.finding('R2', key + 'rounding direction', ATH, st.lineno,
                        '%s marks are rounded with %s; the rule is %s (times up, distances down)' % (kind, v.rnd, want_rnd))
        else:
            ctx.ok('R2', '%s arm rounds with %s' % (kind, want_rnd))
        if abs((v.rnd_scale or 0) - 100.0) > 1e-9:
            ctx.finding('R2', key + 'rounding grid', ATH, st.lineno,
                        'the %s arm rounds on a grid of 1/%s instead of 0.01' % (kind, v.rnd_scale))
        else:
            ctx.ok('R2', '%s arm rounds on the 0.01 grid' % kind)
        if not v.age_inside:
            ctx.finding('R2', key + 'age factor inside the rounding', ATH, st.lineno,
                        'the age factor is not applied before the rounding in the %s arm' % kind)
        else:
            ctx.ok('R2', '%s arm applies the age factor before rounding' % kind)
        want_scale = 100.0 if kind == 'jumps' else 1.0
        if final.scale is None or abs(final.scale - want_scale) > 1e-9:
            ctx.finding('R2', key + 'unit of the value fed to the power law', ATH, chain.lineno,
                        'the %s arm feeds the mark scaled by %s to the power law; the coefficients expect %s' % (
                            kind, final.scale, 'centimetres (x100)' if kind == 'jumps' else 'the mark in metres/seconds (x1)'))
        else:
            ctx.ok('R2', '%s arm: value scaled by %g' % (kind, want_scale))
        # contradiction sub-rule
        for n in [x for s2 in body for x in ast.walk(s2)]:
            if isinstance(n, ast.If) and isinstance(n.test, ast.Compare) and len(n.test.ops) == 1:
                l, r = ast.unparse(n.test.left), ast.unparse(n.test.comparators[0])
                op = n.test.ops[0]
                pows = [b for b in ast.walk(n) if isinstance(b, ast.BinOp) and isinstance(b.op, ast.Pow)]
                for pw in pows:
                    base = pw.left
                    if isinstance(base, ast.BinOp) and isinstance(base.op, ast.Sub):
                        bl, br = ast.unparse(base.left), ast.unparse(base.right)
                        positive = (isinstance(op, ast.Gt) and (l, r) == (bl, br)) or (isinstance(op, ast.Lt) and (l, r) == (br, bl))
                        mark_first = bl == markname
                        if not positive:
                            ctx.finding('R2', key + 'guard orientation vs base of the power', ATH, n.lineno,
                                        'the guard %s does not make the base %s positive' % (unparse(n.test), unparse(base)))
                        elif mark_first != (kind != 'time'):
                            ctx.finding('R2', key + 'orientation of the base', ATH, n.lineno,
                                        'the %s arm raises %s to the power: %s' % (kind, unparse(base),
                                        'times score Z - t' if kind == 'time' else 'distances score d - Z'))
                        else:
                            ctx.ok('R2', '%s arm: guard %s agrees with base %s' % (kind, unparse(n.test), unparse(base)))
                        # coefficients roles: A * base ** X
                        if "'X'" not in ast.unparse(pw.right) or "'A'" not in ast.unparse(pw._parent):
                            ctx.finding('R2', key + 'coefficient roles', ATH, pw.lineno,
                                        'the power law is %s, not A * base ** X' % unparse(pw._parent))

    # ---- R3 GRID
    g = FnGrid(score)
    sites = g.sites()
    n_sites = 0
    occ = {}
    for node, status, desc in sites:
        n_sites += 1
        occ[stmt_key(node)] = occ.get(stmt_key(node), 0) + 1
        if status == 'hazard':
            ctx.finding('R3', '%s::score::%s#%d' % (ATH, stmt_key(node), occ[stmt_key(node)]), ATH, node.lineno,
                        '%s: the result depends on the binary representation of the mark (e.g. 100*10.22 = '
                        '1021.9999999999999)' % desc, '10.22 s, 4.35 m')
        else:
            ctx.ok('R3', 'score: %s is guarded (%s)' % (stmt_key(node), desc))
            if desc.startswith('round(., '):
                # the guard must keep the exact decimal product: marks have 2 decimals (100*mark is an integer) and the
                # age factors fdec decimals, so fewer than fdec places loses digits that decide the floor/ceil, and more
                # than 9 no longer absorbs the binary error (relative 1e-16 of a value up to 1e6)
                try:
                    nd = int(desc[len('round(., '):].split(')')[0])
                except ValueError:
                    nd = None
                data = repo.json(DATA)
                fdec = 0
                for g in ('m', 'f'):
                    for r in data[g]:
                        for v in r[1:]:
                            if isinstance(v, float):
                                fdec = max(fdec, len(repr(v).split('.')[1]) if '.' in repr(v) and 'e' not in repr(v) else 0)
                if nd is None or nd < fdec or nd > 9:
                    ctx.finding('R3', '%s::score::%s#%d rounding guard places' % (ATH, stmt_key(node), occ[stmt_key(node)]), ATH, node.lineno,
                                'the guard rounds 100*mark*factor to %s places; the exact product has up to %d decimals (age factors have '
                                '%d), so between %d and 9 places are needed: fewer places change which side of an integer the product '
                                'falls on' % (nd, fdec, fdec, fdec), 'age factor 0.9668, mark 10.57')
    ctx.floor('rounding sites in score()', n_sites, 3)

    # ---- R4 result type
    for r in [n for n in ast.walk(score) if isinstance(n, ast.Return)]:
        v = r.value
        if v is None or (isinstance(v, ast.Constant) and v.value is None):
            ctx.ok('R4', 'return None')
            continue
        if isinstance(v, ast.Name):
            defs = [n.value for n in ast.walk(score) if isinstance(n, ast.Assign) and any(
                isinstance(t, ast.Name) and t.id == v.id for t in n.targets)]
            bad = [d for d in defs if not nonneg_int(d)]
            if defs and not bad:
                ctx.ok('R4', 'return %s: every definition is max(0, int(..)) or 0' % v.id)
            else:
                ctx.finding('R4', '%s::score::result is a non-negative int' % ATH, ATH, r.lineno,
                            'the returned value can be %s, which is not a clamped integer' % ([unparse(d) for d in bad] or 'undefined'))
        elif nonneg_int(v):
            ctx.ok('R4', 'return %s' % unparse(v))
        else:
            ctx.finding('R4', '%s::score::result is a non-negative int' % ATH, ATH, r.lineno,
                        'score returns %s, which is not None or a clamped integer' % unparse(v))

    # ---- R5 guard dominance
    guard_idx = None
    body = score.body
    for i, st in enumerate(body):
        if isinstance(st, ast.If) and isinstance(st.test, ast.Compare) and isinstance(st.test.ops[0], ast.NotIn) \
                and '_scoring_objects' in ast.unparse(st.test.comparators[0]) \
                and any(isinstance(x, ast.Return) for x in st.body):
            guard_idx = i
    if guard_idx is None:
        ctx.finding('R5', '%s::score::unknown-pair guard' % ATH, ATH, score.lineno,
                    'no `key not in _scoring_objects: return None` guard: an unknown gender/event pair raises KeyError')
    else:
        early = []
        for st in body[:guard_idx]:
            for n in ast.walk(st):
                if isinstance(n, ast.Subscript) and isinstance(n.ctx, ast.Load) and ast.unparse(n.value) == '_scoring_objects':
                    early.append((n, 'table lookup'))
                if isinstance(n, ast.Call) and call_name(n) in ('calculate_factor', 'normalize_gender', 'calculate_age_grade', 'world_best'):
                    early.append((n, 'call of %s, which raises ValueError for unknown events/genders' % call_name(n)))
        for n, what in early:
            ctx.finding('R5', '%s::score::%s before the unknown-pair guard' % (ATH, call_name(n) if isinstance(n, ast.Call) else 'lookup'),
                        ATH, n.lineno, '%s precedes the unknown-pair guard: with age= an unknown pair raises instead of '
                        'giving None' % what, "score('M','NA',42,age=40)")
        if not early:
            ctx.ok('R5', 'unknown-pair guard dominates the lookup and the age-factor call')
    # performance(): same guard
    perf = mod.func('performance')
    if any(isinstance(st, ast.If) and isinstance(st.test, ast.Compare) and isinstance(st.test.ops[0], ast.NotIn) for st in perf.body):
        pass

    # ---- R12 ages below the first masters band, by folding over the complete domain ages x rows
    below_band_rule(ctx, repo)
    # ---- R6 age path
    undefined = undefined_names(repo, [ATH, AGE])
    for rel, qual, name, line in undefined:
        ctx.finding('R6', '%s::%s::undefined name %s' % (rel, qual, name), rel, line,
                    'name %r is used in %s but never defined: NameError on that path (ages past the last column)' % (name, qual), 'age >= 115')
    if not undefined:
        ctx.ok('R6', 'no undefined names in athlon_score.py / agegrader.py')
    check_text_column(ctx, repo)
    hurdles_mapping_rule(ctx, repo)
    from .c14 import age_clamps
    age_clamps(ctx, repo, repo.module(AGE), 'R6')

    # ---- R7 hurdles remap
    remap = {}
    for st in body:
        cur = st
        while isinstance(cur, ast.If):
            t = ast.unparse(cur.test)
            asg = [s for s in cur.body if isinstance(s, ast.Assign) and ast.unparse(s.targets[0]) == score.args.args[1].arg
                   and isinstance(s.value, ast.Constant)]
            if asg and 'gender' in t and score.args.args[1].arg in t:
                gs = [c.value for c in ast.walk(cur.test) if isinstance(c, ast.Constant) and c.value in ('M', 'F')]
                evs = [c.value for c in ast.walk(cur.test) if isinstance(c, ast.Constant) and isinstance(c.value, str) and c.value not in ('M', 'F')]
                for gg in gs:
                    for ev in evs:
                        remap['%s-%s' % (gg, ev)] = asg[0].value.value
            cur = cur.orelse[0] if len(cur.orelse) == 1 else None
    # a remapped code must not also be a row of the table: score() would never read that row, while performance() - which looks the
    # code up as given - inverts it (and a caller who sees the row expects it to be used)
    tkeys = {'%s-%s' % (r['gender'], r['event_code']) for r in repo.const(ATH, '_scoring_table') if isinstance(r, dict)}
    shadowed = sorted(k for k in remap if k in tkeys)
    if shadowed:
        ctx.finding('R7', '%s::_scoring_table::rows shadowed by the hurdles remap' % ATH, ATH, score.lineno,
                    'the table has rows for %s, but score() rewrites these codes to %s before its lookup: the rows are never scored, while '
                    'performance() reads them directly, so the two directions use different coefficients' % (
                        shadowed, sorted({remap[k] for k in shadowed})), shadowed[0])
    if remap == SP['hurdles_remap']:
        ctx.ok('R7', 'hurdles remap = %s' % remap)
    else:
        ctx.finding('R7', '%s::score::hurdles remap' % ATH, ATH, score.lineno,
                    "veterans' hurdles remap is %s; the rule is %s" % (remap, SP['hurdles_remap']))
    # the age factor must be looked up with the event actually run, i.e. before the remap or with the original code
    # (80H has its own factors); informational


def nonneg_int(d):
    if isinstance(d, ast.Constant):
        return isinstance(d.value, int) and not isinstance(d.value, bool) and d.value >= 0
    if isinstance(d, ast.Call) and call_name(d) == 'max' and len(d.args) == 2:
        a, b = d.args
        z = [x for x in (a, b) if isinstance(x, ast.Constant) and x.value == 0]
        i = [x for x in (a, b) if isinstance(x, ast.Call) and call_name(x) in ('int', 'floor')]
        return bool(z and i)
    return False


def undefined_names(repo, rels):
    import builtins
    import symtable
    out = []
    for rel in rels:
        mod = repo.module(rel)
        st = symtable.symtable(mod.source, rel, 'exec')
        modnames = {s.get_name() for s in st.get_symbols() if s.is_assigned() or s.is_imported() or s.is_namespace()} \
            | set(dir(builtins)) | {'__file__', '__name__', '__doc__', '__builtins__', '__spec__', '__package__'}

        def cg(t):
            for c in t.get_children():
                for s in c.get_symbols():
                    if s.is_declared_global() and s.is_assigned():
                        modnames.add(s.get_name())
                cg(c)
        cg(st)

        def walk(t, path):
            for c in t.get_children():
                for s in c.get_symbols():
                    if s.is_global() and s.is_referenced() and s.get_name() not in modnames:
                        out.append((rel, '.'.join(path + [c.get_name()]), s.get_name(), c.get_lineno()))
                walk(c, path + [c.get_name()])
        walk(st, [])
    return out


def hurdles_mapping_rule(ctx, repo):
    """R10: every hurdles event of the scoring table is graded from a row the masters table has.  The event-mapping prelude of
    AthlonsAgeGrader.calculate_factor (statements up to the first one that needs the data) is folded for each hurdles code of the scoring
    table - a finite complete domain - with `self` seen through the class-level constants."""
    mod = repo.module(AGE)
    cf = mod.func('AthlonsAgeGrader.calculate_factor')
    cls = mod.cls('AthlonsAgeGrader')
    attrs = {}
    for base in (mod.cls('AgeGrader'), cls):
        for st in base.body:
            if isinstance(st, ast.Assign) and len(st.targets) == 1 and isinstance(st.targets[0], ast.Name):
                try:
                    attrs[st.targets[0].id] = fold.Folder().expr(st.value, {})
                except Exception:
                    pass
    evp = cf.args.args[3].arg
    data = repo.json(DATA)
    rows = {g: {r[0] for r in data[g]} for g in ('m', 'f')}
    events = sorted({(r['gender'], r['event_code']) for r in repo.const(ATH, '_scoring_table') if isinstance(r, dict)
                     and str(r.get('event_code', '')).upper().endswith('H')})
    if len(events) < 6:
        raise AnalysisError('hurdles rows of the scoring table not found')
    bad = []
    for g, ev in events:
        env = {'self': fold.ObjConst(attrs), evp: ev, cf.args.args[1].arg: g, cf.args.args[2].arg: 40}
        F = fold.Folder()
        outcome = None
        for st in cf.body:
            if isinstance(st, ast.Expr) and isinstance(st.value, ast.Constant):
                continue
            try:
                F.stmt(st, env)
            except fold._Raise:
                outcome = '<raises>'
                break
            except (fold.Unfoldable, fold._Return):
                break
            except Exception as e:
                outcome = '<raises %s>' % type(e).__name__
                break
        mapped = outcome or env.get(evp)
        if mapped not in rows[g.lower()]:
            bad.append((g, ev, mapped))
    ctx.count('hurdles events of the scoring table folded through the masters event mapping', len(events))
    if bad:
        g, ev, mapped = bad[0]
        ctx.finding('R10', '%s::AthlonsAgeGrader.calculate_factor::hurdles events without a masters row' % AGE, AGE, cf.lineno,
                    'the scored event %s %s is mapped to %r by the masters grader, which is not a row of %s (%d hurdles events in all): score() with '
                    'an age raises for it instead of applying the short / long hurdles factor' % (g, ev, mapped, DATA, len(bad)), '%s %s' % (g, ev))
    else:
        ctx.ok('R10', 'all %d hurdles events of the scoring table map to a row of the masters table' % len(events))


def check_text_column(ctx, repo):
    """AthlonsAgeGrader.calculate_factor: the column index that find_age yields may be 0 (age below the first band);
    column 0 of every data row is the event name"""
    mod = repo.module(AGE)
    fa = mod.func('AgeGrader.find_age')
    cf = mod.func('AthlonsAgeGrader.calculate_factor')
    data = repo.json(DATA)
    text0 = all(isinstance(r[0], str) for g in ('m', 'f') for r in data[g])
    # does find_age have a branch that yields index 0 for the upper index?
    zero_branch = False
    for n in ast.walk(fa):
        if isinstance(n, ast.Assign) and isinstance(n.value, ast.Constant) and n.value.value == 0 and len(n.targets) >= 2:
            zero_branch = True
    # the consumer: a subscript whose index is the age index, guarded or not
    guarded = False
    for n in ast.walk(cf):
        if isinstance(n, ast.If) and any(isinstance(x, ast.Return) for x in n.body):
            t = ast.unparse(n.test)
            # a guard on the index itself, or on the age with the bound at which the index becomes 0: the banded age is <= ages[0]
            # (find_age stops at the first column that is not below the age, so age == ages[0] still yields index 0)
            if any(p in t for p in ('ax1 < 1', 'ax1 == 0', 'not ax1', 'ax1 <= 0', 'ax < 0', '_ax1 < 1', '_ax1 == 0', 'not self._ax1',
                                    '<= ages[0]', '< ages[1]', '< self.min_age', '< min_age')):
                guarded = True
    # the age index: the second name unpacked from find_age(...) (by role), `ax1` in the pinned tree
    idx_names = set()
    for n in ast.walk(cf):
        if isinstance(n, ast.Assign) and isinstance(n.value, ast.Call) and call_name(n.value) == 'find_age' and isinstance(n.targets[0], ast.Tuple):
            idx_names |= {e.id for e in n.targets[0].elts if isinstance(e, ast.Name)}
    idx_names = idx_names or {'ax1'}
    idx_subs = [n for n in ast.walk(cf) if isinstance(n, ast.Subscript) and isinstance(n.ctx, ast.Load)
                and {x.id for x in ast.walk(n.slice) if isinstance(x, ast.Name)} & idx_names]
    if not idx_subs:
        raise AnalysisError('AthlonsAgeGrader.calculate_factor: no subscript by the age index found')
    # semantic form of the guard: with the index at 0, every subscript by it is unreachable (some guard on the way fails)
    from ..src import excluded_by_guards
    if not guarded:
        guarded = all(excluded_by_guards(n, cf, {nm: 0 for nm in idx_names if nm in ast.unparse(n.slice)}) for n in idx_subs
                      if ast.unparse(n.slice) in idx_names)
    if zero_branch and text0 and not guarded:
        ctx.finding('R6', '%s::AthlonsAgeGrader.calculate_factor::age index 0 selects the text column' % AGE, AGE, idx_subs[0].lineno,
                    'for an age below the first masters band find_age yields column 0, which holds the event name in every '
                    'row of %s: the "factor" is a string and score() dies with TypeError' % DATA, 'age 30')
    else:
        ctx.ok('R6', 'the age index cannot select the text column (guarded=%s)' % guarded)
    ctx.count('athlon data rows whose column 0 is text', sum(1 for g in ('m', 'f') for r in data[g] if isinstance(r[0], str)))


def below_band_rule(ctx, repo):
    from .. import fold as _fold
    agm = repo.module(AGE)
    if not (agm.has_func('AthlonsAgeGrader.calculate_factor') and agm.has_func('AgeGrader.find_age')):
        return
    cf = agm.func('AthlonsAgeGrader.calculate_factor')
    idx = None
    for i, st in enumerate(cf.body):
        if any(isinstance(c, ast.Call) and call_name(c) == 'find_age' for c in ast.walk(st)):
            idx = i
            break
    if idx is None:
        ctx.info('R12: no find_age call at the top level of AthlonsAgeGrader.calculate_factor; below-band ages not decided by folding')
        return
    tail = cf.body[idx:]
    consts = {}
    for cname in ('AgeGrader', 'AthlonsAgeGrader'):
        for st in agm.cls(cname).body:
            if isinstance(st, ast.Assign) and len(st.targets) == 1 and isinstance(st.targets[0], ast.Name) and isinstance(st.value, ast.Constant):
                consts[st.targets[0].id] = st.value.value
    menv = dict(repo.folded(AGE)[0])
    methods = {q.split('.')[-1]: _fold.FuncConst(f, menv) for q, f in agm.functions.items() if q.startswith('AgeGrader.')}
    for q, f in agm.functions.items():
        if q.startswith('AthlonsAgeGrader.'):
            methods[q.split('.')[-1]] = _fold.FuncConst(f, menv)
    data = repo.json('athlib/wma/wma-athlons-data.json')
    ages = data.get('ages')
    first_band = consts.get('min_age', 35)
    pnames = [a.arg for a in cf.args.args]
    agep = pnames[2] if len(pnames) > 2 else 'age'
    # names the tail reads that the prelude defines: the table, the ages, the row index
    bad, n = None, 0
    part1_ok = True
    for g in ('m', 'f'):
        table = data.get(g) or []
        for fx in range(len(table)):
            if not part1_ok:
                break
            for a in range(1, int(first_band)):
                env = dict(menv)
                env.update({pnames[0]: _fold.ObjConst(dict(consts, _data=data), methods), agep: a, 'ages': ages, 'table': table, 'fx': fx,
                            'data': data, 'gender': g, (pnames[3] if len(pnames) > 3 else 'event'): table[fx][consts.get('event_column', 0)]})
                try:
                    out = None
                    try:
                        for st in tail:
                            _fold.Folder().stmt(st, env)
                    except _fold._Return as r:
                        out = r.v
                except _fold._Raise as ex:
                    out = 'raises %s' % ex.name
                except _fold.Unfoldable as e:
                    ctx.info('R12: the age part of calculate_factor alone is not foldable (%s); decided on the whole function below' % e)
                    part1_ok = False
                    break
                except Exception as e:
                    out = 'raises %s' % type(e).__name__
                n += 1
                if out != 1.0 and bad is None:
                    bad = (g, table[fx][consts.get('event_column', 0)], a, out)
    # the same for every event of the SCORING table, tabulated in the factor table or not, through the whole of calculate_factor:
    # below the first band no factor row is needed, so a missing row must not turn into an error
    try:
        table_rows = repo.const(ATH, '_scoring_table')
        all_methods = {q.split('.')[-1]: _fold.FuncConst(f, menv) for q, f in agm.functions.items()
                       if q.startswith('AgeGrader.') or q.startswith('AthlonsAgeGrader.')}
        for q, f in agm.functions.items():
            if q.startswith('AthlonsAgeGrader.'):
                all_methods[q.split('.')[-1]] = _fold.FuncConst(f, menv)
        bad2, n2 = None, 0
        for row in table_rows:
            g, ev = row.get('gender'), row.get('event_code')
            for a in (1, int(first_band) // 2, int(first_band) - 1):
                me = _fold.ObjConst(dict(consts, _data=data), all_methods)
                try:
                    out = _fold.Folder().call(_fold.FuncConst(cf, menv), [me, g, a, ev], {})
                except _fold._Raise as ex:
                    out = 'raises %s' % ex.name
                except _fold.Unfoldable as e:
                    raise
                except Exception as e:
                    out = 'raises %s' % type(e).__name__
                n2 += 1
                if out != 1.0 and bad2 is None:
                    bad2 = (g, ev, a, out)
        ctx.count('(scored event, age below the first band) calls of calculate_factor folded', n2)
        if bad2:
            ctx.finding('R12', '%s::AthlonsAgeGrader.calculate_factor::age below the first masters band needs a factor row' % AGE, AGE, cf.lineno,
                        'calculate_factor(%r, %r, %r) %s instead of returning 1.0: the row of the event is looked up before the age is seen to be below '
                        'the first masters band (%s), so a scored event without published factors cannot be scored for a young athlete whose age is given'
                        % (bad2[0], bad2[2], bad2[1], bad2[3], first_band), {'gender': bad2[0], 'event': bad2[1], 'age': bad2[2]})
        elif n2:
            ctx.ok('R12', 'calculate_factor returns 1.0 below the first band for all %d (scored event, age) calls, factor row or not' % n2)
    except _fold.Unfoldable as e:
        ctx.info('R12: calculate_factor is not foldable as a whole (%s); events without a factor row not decided' % e)
    ctx.count('(gender, row, age below the first band) combinations folded', n)
    if bad:
        ctx.finding('R12', '%s::AthlonsAgeGrader.calculate_factor::age below the first masters band is adjusted' % AGE, AGE, cf.lineno,
                    'for %s %s at age %s the factor is %r, not 1.0: an age below the first masters band (%s) must leave the score unadjusted'
                    % (bad[0], bad[1], bad[2], bad[3], first_band), {'gender': bad[0], 'event': bad[1], 'age': bad[2]})
    elif n:
        ctx.ok('R12', 'factor 1.0 for all %d (gender, row, age 1..%d) combinations' % (n, first_band - 1))
