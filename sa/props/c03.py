"""C03 — final placings follow countback and the jump-off (structural necessary conditions only)."""
import ast
import itertools

from ..core import AnalysisError
from ..src import call_name, stmt_key, unparse

LEVEL = 'other'
HJ = 'athlib/highjump.py'


def methods_of(cls):
    return {f.name: f for f in cls.body if isinstance(f, ast.FunctionDef)}


def resolve_locals(fn, prefer_else=True):
    """name -> defining expression (last assignment; assignments in the else-branch of the first if win, which is
    the 'has a clearance' case of ranking_key)"""
    env = {}
    for st in fn.body:
        if isinstance(st, ast.Assign) and len(st.targets) == 1 and isinstance(st.targets[0], ast.Name):
            env[st.targets[0].id] = st.value
        if isinstance(st, ast.If):
            for br in (st.body, st.orelse):
                for s2 in br:
                    if isinstance(s2, ast.Assign) and len(s2.targets) == 1 and isinstance(s2.targets[0], ast.Name):
                        # keep the non-constant definition
                        if not isinstance(s2.value, ast.Constant) or s2.targets[0].id not in env:
                            env[s2.targets[0].id] = s2.value
    return env


def subst(e, env, depth=0):
    """expression with local names replaced by their definitions"""
    if depth > 6:
        return e

    class Sub(ast.NodeTransformer):
        def visit_Name(self, n):
            if isinstance(n.ctx, ast.Load) and n.id in env:
                return subst(env[n.id], env, depth + 1)
            return n
    # a fresh copy without the _parent links (deepcopy would follow them and copy the whole module)
    return Sub().visit(ast.parse(ast.unparse(e), mode='eval').body)


def rise_guard(test, newv, strict):
    """the test admits only states where `newv` exceeds the previous best (or, in an `or`, no clearance exists yet)"""
    if isinstance(test, ast.BoolOp) and isinstance(test.op, ast.Or):
        rise = [v for v in test.values if rise_guard(v, newv, strict)]
        rest = [v for v in test.values if not rise_guard(v, newv, strict)]
        return bool(rise) and all(
            isinstance(v, ast.Compare) and len(v.ops) == 1 and is_attr(v.left, 'highest_cleared_index')
            and isinstance(v.ops[0], ast.Lt) and ast.unparse(v.comparators[0]) == '0' for v in rest)
    if isinstance(test, ast.BoolOp) and isinstance(test.op, ast.And):
        return any(rise_guard(v, newv, strict) for v in test.values)
    if isinstance(test, ast.Compare) and len(test.ops) == 1:
        l, r, op = test.left, test.comparators[0], test.ops[0]
        up = (ast.Gt,) if strict else (ast.Gt, ast.GtE)
        dn = (ast.Lt,) if strict else (ast.Lt, ast.LtE)
        if is_attr(r, 'highest_cleared') and isinstance(op, up) and (newv is None or ast.unparse(l) == newv) and not is_attr(l, 'highest_cleared'):
            return True
        if is_attr(l, 'highest_cleared') and isinstance(op, dn) and (newv is None or ast.unparse(r) == newv) and not is_attr(r, 'highest_cleared'):
            return True
    return False


def is_attr(e, name):
    return isinstance(e, ast.Attribute) and e.attr == name and isinstance(e.value, ast.Name) and e.value.id == 'self'


def best_index_beliefs(ctx, mod, J, rule):
    # R5b (belief contradiction): since the index moves only when the best rises, it is NOT "the entry of the latest clearance".  Outside
    # the countback (ranking_key and what it calls) it may only be tested for "has a clearance at all" (compared with 0 / -1)
    rk0 = J.get('ranking_key')
    allowed_fns = {id(rk0)} | {id(f_) for n_, f_ in J.items() if n_ in ('cleared', '__init__')}
    from ..memo import instance_memos
    for _c, holder, _a, comp, _m, _s in instance_memos(mod):
        if holder is rk0:
            allowed_fns |= {id(c_) for c_ in comp}
    n_reads = 0
    for q, fn_ in mod.functions.items():
        if id(fn_) in allowed_fns:
            continue
        for n in ast.walk(fn_):
            if isinstance(n, ast.Attribute) and n.attr == 'highest_cleared_index' and isinstance(n.ctx, ast.Load):
                n_reads += 1
                par = getattr(n, '_parent', None)
                okr = isinstance(par, ast.Compare) and len(par.ops) == 1 and (
                    (par.left is n and isinstance(par.comparators[0], (ast.Constant, ast.UnaryOp)) and ast.unparse(par.comparators[0]) in ('0', '-1'))
                    or (par.comparators[0] is n and ast.unparse(par.left) in ('0', '-1')))
                if not okr:
                    st_ = n
                    while not isinstance(st_, ast.stmt):
                        st_ = st_._parent
                    ctx.finding(rule, '%s::%s::index of the best used as the latest clearance' % (HJ, q), HJ, n.lineno,
                                '%s reads highest_cleared_index in `%s`: that index is where the best was set and does not move on a clearance '
                                'at or below the best (jump-off with the bar lowered), so it cannot tell whether the current bar was cleared; '
                                'outside the countback it may only be tested against 0 / -1 (has a clearance at all)' % (q, unparse(st_)[:90]),
                                'jump-off decided by a clearance at a bar no higher than the winner\'s best')
    ctx.note('reads of highest_cleared_index outside the countback', n_reads)


def run(ctx, repo):
    mod = repo.module(HJ)
    J = methods_of(mod.cls('Jumper'))
    Cm = methods_of(mod.cls('HighJumpCompetition'))
    ctx.explanation = (
        'Structural necessary conditions of the placing rules, checked on the AST with local names resolved to their '
        'definitions (value numbering, not text): the best is monotone, the ranking key has the countback roles, the '
        'sort is stable on (key, previous position) and place numbering is standard competition ranking, unplaced '
        'athletes are hidden, and the stable tie-break is unobservable.  The placings themselves (value level over '
        'histories) are not decided.')
    ctx.rule('R1', 'every store to highest_cleared outside __init__ is a max over / guarded by a comparison with the previous value')
    ctx.rule('R2', 'ranking key roles: (-best, x at best index, that + x before it); sort key (ranking_key, old position); '
                   'places copied on equal keys else index+1; place hides athletes without a clearance')
    ctx.rule('R3', '_old_pos is never read outside the sort key')
    ctx.rule('R5', 'every store to highest_cleared_index outside __init__ is guarded by a strict rise of the best (or no clearance yet)')
    ctx.rule('R6', 'from_matrix recognises every plain decimal as a height column (numeric conversion, or automata inclusion for a pattern)')
    ctx.rule('R7', 'observers (to_matrix, place, ranking_key, has_retired, print_ranking) change no state, aliases included')
    ctx.rule('R8', 'the ranking is recomputed from the cards on every _rank: the sort and the sorter call are unconditional')
    ctx.rule('R4', 'in the tie-for-first branch of _rank the state becomes jumpoff or drawn, never finished/won')

    # ---- R1
    n_sites = 0
    for name, f in J.items():
        if name == '__init__':
            continue
        for n in ast.walk(f):
            if isinstance(n, (ast.Assign, ast.AugAssign)):
                tg = n.targets if isinstance(n, ast.Assign) else [n.target]
                flat = []
                for t in tg:
                    flat += t.elts if isinstance(t, (ast.Tuple, ast.List)) else [t]
                if any(isinstance(t, ast.Attribute) and t.attr == 'highest_cleared' for t in flat):
                    n_sites += 1
                    ok = False
                    v = n.value
                    if isinstance(v, ast.Call) and call_name(v) == 'max' and any(
                            isinstance(a, ast.Attribute) and a.attr == 'highest_cleared' for a in v.args):
                        ok = True
                    # guarded by a comparison with the previous best
                    p = getattr(n, '_parent', None)
                    c = n
                    while p is not None and p is not f:
                        if isinstance(p, ast.If) and c in p.body and rise_guard(p.test, ast.unparse(v), strict=False):
                            ok = True
                        elif isinstance(p, ast.If) and c in p.body and isinstance(p.test, ast.Compare) and len(p.test.ops) == 1:
                            l, r = p.test.left, p.test.comparators[0]
                            op = p.test.ops[0]
                            prev_l = isinstance(l, ast.Attribute) and l.attr == 'highest_cleared'
                            prev_r = isinstance(r, ast.Attribute) and r.attr == 'highest_cleared'
                            newv = ast.unparse(v)
                            if prev_r and ast.unparse(l) == newv and isinstance(op, (ast.Gt, ast.GtE)):
                                ok = True
                            if prev_l and ast.unparse(r) == newv and isinstance(op, (ast.Lt, ast.LtE)):
                                ok = True
                        c = p
                        p = getattr(p, '_parent', None)
                    if isinstance(v, ast.IfExp) and isinstance(v.test, ast.Compare):
                        # height if height > self.highest_cleared else self.highest_cleared
                        t = ast.unparse(v.test)
                        b, o = ast.unparse(v.body), ast.unparse(v.orelse)
                        if 'highest_cleared' in o and t in ('%s > %s' % (b, o), '%s >= %s' % (b, o), '%s < %s' % (o, b), '%s <= %s' % (o, b)):
                            ok = True
                        if 'highest_cleared' in b and t in ('%s > %s' % (b, o), '%s >= %s' % (b, o), '%s < %s' % (o, b), '%s <= %s' % (o, b)):
                            ok = True
                    if ok:
                        ctx.ok('R1', 'Jumper.%s: %s keeps the best monotone' % (name, unparse(n)))
                    else:
                        ctx.finding('R1', '%s::Jumper.%s::unguarded store to highest_cleared' % (HJ, name), HJ, n.lineno,
                                    'the best height is overwritten without comparing it with the previous best (%s): '
                                    'the bar may come down in a jump-off, so a later clearance can be lower' % unparse(n),
                                    'jump-off clearance at 1.99 after a best of 2.00')
    ctx.floor('stores to highest_cleared outside __init__', n_sites, 1)

    # ---- R5 the card index of the best moves only when the best rises (strictly): the countback components are read at
    # that index, and in a jump-off the bar comes down, so a clearance at or below the best must leave it alone
    n_idx = 0
    for name, f in J.items():
        if name == '__init__':
            continue
        for n in ast.walk(f):
            if not isinstance(n, (ast.Assign, ast.AugAssign)):
                continue
            tg = n.targets if isinstance(n, ast.Assign) else [n.target]
            flat = []
            for t in tg:
                flat += t.elts if isinstance(t, (ast.Tuple, ast.List)) else [t]
            if not any(isinstance(t, ast.Attribute) and t.attr == 'highest_cleared_index' for t in flat):
                continue
            n_idx += 1

            def strict_rise(test):
                return rise_guard(test, None, strict=True)
            ok = False
            guard = None
            c, p = n, getattr(n, '_parent', None)
            while p is not None and p is not f:
                if isinstance(p, ast.If) and c in p.body and strict_rise(p.test):
                    ok, guard = True, p
                c, p = p, getattr(p, '_parent', None)
            if isinstance(n, ast.Assign) and isinstance(n.value, ast.IfExp) and strict_rise(n.value.test) \
                    and is_attr(n.value.orelse, 'highest_cleared_index'):
                ok, guard = True, n
            if ok:
                # the comparison must see the previous best: no store to the best before the guard in this function
                for m in ast.walk(f):
                    if isinstance(m, (ast.Assign, ast.AugAssign)) and m.lineno < guard.lineno and any(
                            isinstance(t, ast.Attribute) and t.attr == 'highest_cleared'
                            for t in (m.targets if isinstance(m, ast.Assign) else [m.target])):
                        ok = False
            if ok:
                ctx.ok('R5', 'Jumper.%s: the index of the best is stored only under `%s`' % (
                    name, unparse(guard.test if isinstance(guard, ast.If) else guard.value.test)))
            else:
                ctx.finding('R5', '%s::Jumper.%s::index of the best moves without the best rising' % (HJ, name), HJ, n.lineno,
                            'highest_cleared_index is stored (%s) on every clearance; the countback components of ranking_key are read at '
                            'that index, so a jump-off clearance at or below the best moves it to the jump-off entry and the failures of '
                            'the jump-off and of the heights above the best are counted into the totals: a jump-off loser can drop behind '
                            'an athlete who was not tied for first' % unparse(n),
                            {'matrix': [['bib', '1.90', '2.00', '2.03', '2.03', '2.00', '2.01'], ['A', 'o', 'o', 'xxx', 'x', 'o', 'o'],
                                        ['B', 'o', 'o', 'xxx', 'x', 'o', 'x'], ['D', 'xo', 'o', 'xxx']],
                             'expected': 'B (jump-off participant) 2nd, D 3rd'})
    ctx.floor('stores to highest_cleared_index outside __init__', n_idx, 1)
    best_index_beliefs(ctx, mod, J, 'R5')

    # ---- R2 ranking key
    rk = J.get('ranking_key')
    if rk is None:
        raise AnalysisError('anchor vanished: Jumper.ranking_key')
    # a key cached in an attribute (`if self._k is None: self._k = self._make(); return self._k`) is followed to the function
    # that computes it; the completeness of its invalidation is rule HIST (sa/memo.py, derived attribute not invalidated)
    from ..memo import instance_memos
    for _c, holder, _attr, comp, _m, _s in instance_memos(mod):
        if holder is rk and comp and comp[0] is not rk:
            ctx.info('ranking_key is cached in self.%s; the key is computed by %s' % (_attr, comp[0].name))
            rk = comp[0]
    rets = [n for n in ast.walk(rk) if isinstance(n, ast.Return)]
    if len(rets) != 1 or not isinstance(rets[0].value, ast.Tuple) or len(rets[0].value.elts) != 4:
        raise AnalysisError('ranking_key does not return one 4-tuple')
    env = resolve_locals(rk)
    c1, c2, c3, c4 = [subst(e, env) for e in rets[0].value.elts]
    key = '%s::Jumper.ranking_key::' % HJ
    # component 2: negated best
    if isinstance(c2, ast.UnaryOp) and isinstance(c2.op, ast.USub) and is_attr(c2.operand, 'highest_cleared'):
        ctx.ok('R2', 'component 2 is -highest_cleared')
    else:
        ctx.finding('R2', key + 'component 2 is the negated best', HJ, rets[0].lineno,
                    'second component of the ranking key is %s, not -self.highest_cleared (greatest height first)' % unparse(c2))

    def is_count_x_at_best(e):
        return (isinstance(e, ast.Call) and isinstance(e.func, ast.Attribute) and e.func.attr == 'count'
                and len(e.args) == 1 and isinstance(e.args[0], ast.Constant) and e.args[0].value == 'x'
                and isinstance(e.func.value, ast.Subscript) and is_attr(e.func.value.value, 'attempts_by_height')
                and is_attr(e.func.value.slice, 'highest_cleared_index'))
    if is_count_x_at_best(c3):
        ctx.ok('R2', "component 3 counts 'x' in the card entry at the best's index")
    else:
        ctx.finding('R2', key + 'component 3 is failures at the best height', HJ, rets[0].lineno,
                    "third component is %s, not the number of 'x' in the entry at highest_cleared_index" % unparse(c3))

    def is_sum_before(e):
        if not (isinstance(e, ast.Call) and call_name(e) == 'sum' and len(e.args) == 1
                and isinstance(e.args[0], (ast.GeneratorExp, ast.ListComp))):
            return False
        g = e.args[0]
        if len(g.generators) != 1 or g.generators[0].ifs:
            return False
        it = g.generators[0].iter
        tgt = g.generators[0].target
        if not (isinstance(it, ast.Subscript) and is_attr(it.value, 'attempts_by_height') and isinstance(it.slice, ast.Slice)
                and it.slice.lower is None and it.slice.step is None and is_attr(it.slice.upper, 'highest_cleared_index')):
            return False
        el = g.elt
        return (isinstance(el, ast.Call) and isinstance(el.func, ast.Attribute) and el.func.attr == 'count'
                and isinstance(el.func.value, ast.Name) and isinstance(tgt, ast.Name) and el.func.value.id == tgt.id
                and len(el.args) == 1 and isinstance(el.args[0], ast.Constant) and el.args[0].value == 'x')
    ok4 = isinstance(c4, ast.BinOp) and isinstance(c4.op, ast.Add) and (
        (is_count_x_at_best(c4.left) and is_sum_before(c4.right)) or (is_count_x_at_best(c4.right) and is_sum_before(c4.left)))
    if ok4:
        ctx.ok('R2', "component 4 = component 3 + 'x' counts of the entries before the best")
    else:
        ctx.finding('R2', key + 'component 4 is failures up to and including the best height', HJ, rets[0].lineno,
                    "fourth component is %s, not failures at the best height plus the 'x' counts of the entries before it" % unparse(c4))
    # component 1: status; athletes without a clearance sort after those with one
    try:
        vals = {}
        for el, neg in itertools.product((True, False), (True, False)):
            vals[(el, neg)] = eval_status(c1, el, neg)
        if vals[(False, False)] < vals[(False, True)] and vals[(True, False)] < vals[(True, True)] \
                and vals[(False, False)] < vals[(True, False)]:
            ctx.ok('R2', 'status component: athletes with a clearance before those without; still in before eliminated', vals)
        else:
            ctx.finding('R2', key + 'status component order', HJ, rets[0].lineno,
                        'status component %s does not rank athletes with a clearance ahead of those without' % unparse(c1), str(vals))
    except AnalysisError:
        ctx.info('status component of ranking_key not evaluated: %s' % unparse(c1))

    # ---- _rankj: sort key and place numbering
    rj = Cm.get('_rankj')
    if rj is None:
        raise AnalysisError('anchor vanished: HighJumpCompetition._rankj')
    sorts = [n for n in ast.walk(rj) if isinstance(n, ast.Call) and isinstance(n.func, ast.Attribute) and n.func.attr == 'sort']
    if len(sorts) != 1:
        raise AnalysisError('_rankj: expected exactly one sort')
    s = sorts[0]
    kw = {k.arg: k.value for k in s.keywords}
    good = False
    if 'key' in kw and isinstance(kw['key'], ast.Lambda) and isinstance(kw['key'].body, ast.Tuple) and len(kw['key'].body.elts) == 2:
        a, b = kw['key'].body.elts
        arg = kw['key'].args.args[0].arg
        good = (isinstance(a, ast.Attribute) and a.attr == 'ranking_key' and isinstance(a.value, ast.Name) and a.value.id == arg
                and isinstance(b, ast.Attribute) and b.attr == '_old_pos')
    if not good and not kw and not s.args and isinstance(s.func.value, ast.Name):
        # decorate-sort-undecorate: X = [(j.ranking_key, index, j) for index, j in enumerate(...)]; X.sort()
        for n in ast.walk(rj):
            if isinstance(n, ast.Assign) and len(n.targets) == 1 and isinstance(n.targets[0], ast.Name) and n.targets[0].id == s.func.value.id \
                    and isinstance(n.value, ast.ListComp) and isinstance(n.value.elt, ast.Tuple) and len(n.value.elt.elts) >= 2 \
                    and len(n.value.generators) == 1 and not n.value.generators[0].ifs:
                g = n.value.generators[0]
                e0, e1 = n.value.elt.elts[0], n.value.elt.elts[1]
                if isinstance(g.iter, ast.Call) and call_name(g.iter) == 'enumerate' and isinstance(g.target, ast.Tuple) and len(g.target.elts) == 2 \
                        and all(isinstance(x, ast.Name) for x in g.target.elts):
                    iv, jv = g.target.elts[0].id, g.target.elts[1].id
                    good = (isinstance(e0, ast.Attribute) and e0.attr == 'ranking_key' and isinstance(e0.value, ast.Name) and e0.value.id == jv
                            and isinstance(e1, ast.Name) and e1.id == iv)
    if not good and 'key' in kw and isinstance(kw['key'], ast.Lambda) and isinstance(kw['key'].body, ast.Attribute) and kw['key'].body.attr == 'ranking_key' \
            and isinstance(kw['key'].body.value, ast.Name) and kw['key'].body.value.id == kw['key'].args.args[0].arg and isinstance(s.func.value, ast.Name):
        # list.sort is stable: sorting on the key alone keeps equal keys in their previous order, which is what the second component says
        good = True
    if good and 'reverse' not in kw:
        ctx.ok('R2', 'sort key is (ranking_key, previous position), ascending')
    else:
        ctx.finding('R2', '%s::HighJumpCompetition._rankj::sort key' % HJ, HJ, s.lineno,
                    'the ranking sort is %s, not an ascending sort on (ranking_key, previous position)' % unparse(s))
    place_vals = []
    loops = [n for n in ast.walk(rj) if isinstance(n, ast.For) and any(
        isinstance(x, ast.Assign) and any(isinstance(t, ast.Attribute) and t.attr == '_place' for t in x.targets) for x in ast.walk(n))]
    if len(loops) != 1:
        raise AnalysisError('_rankj: place numbering loop not found')
    lp = loops[0]
    if not (isinstance(lp.iter, ast.Call) and call_name(lp.iter) == 'enumerate' and isinstance(lp.target, ast.Tuple)
            and len(lp.iter.args) == 1 and not lp.iter.keywords):
        raise AnalysisError('_rankj: numbering loop is not `for i, j in enumerate(...)`')
    deco_key = set()
    if not isinstance(lp.target.elts[0], ast.Name):
        raise AnalysisError('_rankj: numbering loop index is not a name')
    ivar = lp.target.elts[0].id
    if isinstance(lp.target.elts[1], ast.Name):
        jvar = lp.target.elts[1].id
    elif isinstance(lp.target.elts[1], ast.Tuple) and all(isinstance(x, ast.Name) for x in lp.target.elts[1].elts) and len(lp.target.elts[1].elts) >= 2:
        # decorate-sort-undecorate: the loop runs over (key, ..., jumper) tuples
        jvar = lp.target.elts[1].elts[-1].id
        deco_key = {lp.target.elts[1].elts[0].id}
    else:
        raise AnalysisError('_rankj: numbering loop target not recognised')
    # previous-jumper / previous-key variables: assigned from jvar / key at the end of the body
    def flat_assigns(body):
        for st in body:
            if isinstance(st, ast.Assign):
                for t in st.targets:
                    if isinstance(t, ast.Tuple) and isinstance(st.value, ast.Tuple) and len(t.elts) == len(st.value.elts):
                        for a_, b_ in zip(t.elts, st.value.elts):
                            yield a_, b_
                    else:
                        yield t, st.value
    prev_j = [t.id for t, v in flat_assigns(lp.body) if isinstance(v, ast.Name) and v.id == jvar and isinstance(t, ast.Name)]
    for n in ast.walk(lp):
        if isinstance(n, ast.Assign) and any(isinstance(t, ast.Attribute) and t.attr == '_place' for t in n.targets):
            conds = []
            c, p = n, getattr(n, '_parent', None)
            while p is not None and p is not lp:
                if isinstance(p, ast.If):
                    conds.append((ast.unparse(p.test), c in p.body))
                c, p = p, getattr(p, '_parent', None)
            place_vals.append((ast.unparse(n.value), conds, n))
    # decided as a table over the complete abstract domain the loop can see: the index (0, 1, 2 stand for first, second, later) and
    # whether the key equals the previous key (keys are touched only through ==); the stored place is evaluated on each row
    key_vars = {t.id for t, v in flat_assigns(lp.body) if isinstance(v, ast.Attribute) and v.attr == 'ranking_key' and isinstance(t, ast.Name)} | deco_key
    prev_k = {t.id for t, v in flat_assigns(lp.body) if isinstance(t, ast.Name) and (
        unparse(v) in key_vars or (isinstance(v, ast.Attribute) and v.attr == 'ranking_key'))} - key_vars
    PREV = ('previous place',)

    class _NoEval(Exception):
        pass

    def pe(e, env):
        if isinstance(e, ast.Constant):
            return e.value
        if isinstance(e, ast.Name):
            if e.id == ivar:
                return env['i']
            if e.id in prev_k and env['i'] == 0:
                return None
            if e.id in env.get('loc', {}):
                v_ = env['loc'][e.id]
                if isinstance(v_, _NoEval):
                    raise v_
                return v_
            raise _NoEval(unparse(e))
        if isinstance(e, ast.Attribute) and e.attr == '_place' and isinstance(e.value, ast.Name) and e.value.id in prev_j:
            return PREV
        if isinstance(e, ast.UnaryOp) and isinstance(e.op, ast.Not):
            return not pe(e.operand, env)
        if isinstance(e, ast.BoolOp):
            r = None
            for v in e.values:
                r = pe(v, env)
                if (isinstance(e.op, ast.And) and not r) or (isinstance(e.op, ast.Or) and r):
                    return r
            return r
        if isinstance(e, ast.BinOp) and isinstance(e.op, (ast.Add, ast.Sub)):
            x, y = pe(e.left, env), pe(e.right, env)
            if isinstance(x, int) and isinstance(y, int):
                return x + y if isinstance(e.op, ast.Add) else x - y
            raise _NoEval(unparse(e))
        if isinstance(e, ast.Compare) and len(e.ops) == 1:
            l, r_ = e.left, e.comparators[0]
            names = {unparse(l), unparse(r_)}
            isk = lambda t: t in key_vars or t.endswith('.ranking_key')
            if isinstance(e.ops[0], (ast.Eq, ast.NotEq)) and any(isk(t) for t in names) and (names & prev_k or any(
                    t.split('.')[0] in prev_j and t.endswith('.ranking_key') for t in names)):
                eq = env['eq']
                return eq if isinstance(e.ops[0], ast.Eq) else not eq
            if isinstance(e.ops[0], (ast.Is, ast.IsNot)) and (names & prev_k or names & set(prev_j)) and 'None' in names:
                isn = env['i'] == 0
                return isn if isinstance(e.ops[0], ast.Is) else not isn
            x, y = pe(l, env), pe(r_, env)
            import operator as _o
            opf = {ast.Eq: _o.eq, ast.NotEq: _o.ne, ast.Lt: _o.lt, ast.LtE: _o.le, ast.Gt: _o.gt, ast.GtE: _o.ge}.get(type(e.ops[0]))
            if opf is None or PREV in (x, y):
                raise _NoEval(unparse(e))
            return opf(x, y)
        if isinstance(e, ast.IfExp):
            return pe(e.body if pe(e.test, env) else e.orelse, env)
        raise _NoEval(unparse(e))

    def run_body(body, env, out_):
        for st in body:
            if isinstance(st, ast.If):
                run_body(st.body if pe(st.test, env) else st.orelse, env, out_)
            elif isinstance(st, ast.Assign) and any(isinstance(t, ast.Attribute) and t.attr == '_place' for t in st.targets):
                out_.append(pe(st.value, env))
            elif isinstance(st, ast.Assign) and isinstance(st.targets[0], ast.Tuple) and isinstance(st.value, ast.Tuple):
                for t, v in zip(st.targets[0].elts, st.value.elts):
                    if isinstance(t, ast.Attribute) and t.attr == '_place':
                        out_.append(pe(v, env))
            elif isinstance(st, ast.Assign) and len(st.targets) == 1 and isinstance(st.targets[0], ast.Name) \
                    and st.targets[0].id not in prev_j and st.targets[0].id not in prev_k and st.targets[0].id not in key_vars:
                # a local of the loop body (e.g. `tied = ...`): its value on this row, or the reason it has none
                try:
                    env.setdefault('loc', {})[st.targets[0].id] = pe(st.value, env)
                except _NoEval as ne_:
                    env.setdefault('loc', {})[st.targets[0].id] = ne_
    table, bad_rows = [], []
    try:
        for i_ in (0, 1, 2):
            for eq_ in ((False,) if i_ == 0 else (False, True)):
                got = []
                run_body(lp.body, {'i': i_, 'eq': eq_}, got)
                want = 1 if i_ == 0 else (PREV if eq_ else i_ + 1)
                table.append((i_, eq_, got))
                if not got or got[-1] != want:
                    bad_rows.append(('index %d, key %s the previous one' % (i_, 'equal to' if eq_ else 'different from'), got[-1] if got else None, want))
    except _NoEval as e_:
        bad_rows.append(('not evaluable: %s' % e_, None, None))
    if not bad_rows:
        ctx.ok('R2', 'places: 1 for the first, copied on equal keys, else index+1 (standard competition ranking), decided on the 5 rows of '
                     '(index 0/1/2) x (key equal to the previous one or not)')
    else:
        ctx.finding('R2', '%s::HighJumpCompetition._rankj::place numbering' % HJ, HJ, lp.lineno,
                    'place numbering is wrong for %s: it assigns %s where standard competition ranking needs %s (1 for the first, the previous '
                    'place on an equal key, index+1 otherwise)' % bad_rows[0])
    # the jump-off recall and the drawn / finished decision read has_retired: it must recognise every retired cell ('xr' as well as 'r')
    from .c02 import retired_reader_by_folding
    hr_ = J.get('has_retired')
    if hr_ is not None:
        ctx.rule('R9', 'has_retired (who is recalled into a jump-off, drawn or not) answers `the last cell ends with r` on every reachable cell, by folding')
        res_ = retired_reader_by_folding(hr_)
        if res_ is None:
            ctx.ok('R9', 'has_retired is true exactly for the cards whose last cell ends with the retirement letter (112 cards folded)')
        elif res_ != 'unfoldable':
            ctx.finding('R9', '%s::Jumper.has_retired::retired cell not recognised' % HJ, HJ, hr_.lineno,
                        'has_retired answers %s for the card %r: a leader who retired after a failure is recalled into the jump-off (the tie is left '
                        'standing in a state that never ends), or a retirement is seen where there is none' % (res_[1], res_[0]), res_[0])
    # place property hides unplaced athletes
    pl = J.get('place')
    if pl is None:
        raise AnalysisError('anchor vanished: Jumper.place')
    hides = False
    folded_place = None
    try:
        from .. import fold as _fold
        okp = True
        for hci, plc in ((-1, 1), (-1, 3), (0, 1), (2, 4)):
            me_ = _fold.ObjConst({'highest_cleared_index': hci, '_place': plc, 'highest_cleared': 0, 'order': 1, 'bib': 'A'})
            try:
                out_ = None
                for st_ in pl.body:
                    _fold.Folder().stmt(st_, {pl.args.args[0].arg: me_})
            except _fold._Return as r_:
                out_ = r_.v
            if out_ != ('' if hci < 0 else plc):
                okp = False
        folded_place = okp
    except Exception:
        folded_place = None
    for n in ast.walk(pl):
        if isinstance(n, ast.If) and isinstance(n.test, ast.Compare) and 'highest_cleared_index' in ast.unparse(n.test.left) \
                and isinstance(n.test.ops[0], ast.Lt) and ast.unparse(n.test.comparators[0]) == '0':
            if any(isinstance(r, ast.Return) and isinstance(r.value, ast.Constant) and r.value.value == '' for r in n.body):
                hides = True
    final = [st for st in pl.body if isinstance(st, ast.Return)]
    if folded_place is True or (folded_place is None and hides and final and ast.unparse(final[-1].value) == 'self._place'):
        ctx.ok('R2', "place: '' without a clearance, else _place")
    else:
        ctx.finding('R2', '%s::Jumper.place::hides unplaced athletes' % HJ, HJ, pl.lineno,
                    "Jumper.place no longer returns '' for an athlete without a clearance and _place otherwise")

    # ---- R4 a tie for first never ends the competition: in the tie-for-first branch of _rank only jumpoff / drawn are assigned
    rk_fn = Cm.get('_rank')
    if rk_fn is None:
        raise AnalysisError('anchor vanished: _rank')
    tie_ifs = [n for n in ast.walk(rk_fn) if isinstance(n, ast.If) and '[1]._place == 1' in ast.unparse(n.test)]
    if not tie_ifs:
        ctx.finding('R4', '%s::HighJumpCompetition._rank::tie-for-first detection' % HJ, HJ, rk_fn.lineno,
                    'no branch of _rank tests whether the second-ranked athlete also has place 1: a tie for first is not detected')
    for ti in tie_ifs:
        vals = set()
        for st in ti.body:
            for n in ast.walk(st):
                if isinstance(n, ast.Assign) and any(isinstance(t, ast.Attribute) and t.attr == 'state' for t in n.targets):
                    vals |= {x.value for x in ast.walk(n.value) if isinstance(x, ast.Constant) and isinstance(x.value, str)}
        if vals and vals <= {'jumpoff', 'drawn'}:
            ctx.ok('R4', 'tie for first leads to jumpoff or drawn only (%s)' % sorted(vals))
        else:
            ctx.finding('R4', '%s::HighJumpCompetition._rank::tie for first assigns %s' % (HJ, sorted(vals)), HJ, ti.lineno,
                        'with a tie for first standing, _rank can set the state to %s: a competition must not end (finished / won) while two '
                        'athletes share first place; the tie is broken by a jump-off or declared drawn' % sorted(vals - {'jumpoff', 'drawn'}),
                        'all but one of the tied athletes went out by retiring')
    # ---- R8 every call of _rank works on a freshly sorted order: the sort in the sorter and the sorter call in _rank are unconditional
    def cond_ancestors(n, fn, harmless=lambda t: False):
        out_ = []
        c, p_ = n, getattr(n, '_parent', None)
        while p_ is not None and p_ is not fn:
            if isinstance(p_, (ast.If, ast.While)) and c is not p_.test and not harmless(p_.test):
                out_.append(p_)
            elif isinstance(p_, ast.IfExp) and c is not p_.test:
                out_.append(p_)
            elif isinstance(p_, ast.BoolOp) and c is not p_.values[0]:
                out_.append(p_)
            elif isinstance(p_, (ast.For, ast.Try, ast.ExceptHandler, ast.comprehension, ast.Lambda)):
                out_.append(p_)
            c, p_ = p_, getattr(p_, '_parent', None)
        return out_

    sorted_txt = unparse(s.func.value)

    def emptiness(t):
        # a guard that only skips the sort of an empty / one-element list changes nothing
        tt = unparse(t)
        return tt in (sorted_txt, 'len(%s) > 1' % sorted_txt, 'len(%s) >= 2' % sorted_txt, 'len(%s)' % sorted_txt)
    ca = cond_ancestors(s, rj, emptiness)
    if ca:
        ctx.finding('R8', '%s::HighJumpCompetition._rankj::sort is conditional' % HJ, HJ, s.lineno,
                    'the ranking sort runs only under `%s`: when it is skipped the previous order is kept although a flag that is part of the '
                    'ranking key (eliminated, the best height) may have changed since' % unparse(getattr(ca[0], 'test', ca[0]))[:80],
                    'a retirement or pass changes the status component of the key without adding an attempt')
    else:
        ctx.ok('R8', '_rankj: the sort is unconditional')
    sorter_calls = [c for c in ast.walk(rk_fn) if isinstance(c, ast.Call) and isinstance(c.func, ast.Attribute) and c.func.attr == rj.name]
    if not sorter_calls:
        ctx.finding('R8', '%s::HighJumpCompetition._rank::does not sort' % HJ, HJ, rk_fn.lineno,
                    '_rank never calls %s: the places and the tie-for-first test use an order that is not recomputed from the cards' % rj.name)
    for c in sorter_calls:
        ca = cond_ancestors(c, rk_fn)
        if ca:
            what = ca[0]
            ctx.finding('R8', '%s::HighJumpCompetition._rank::sorter call is conditional' % HJ, HJ, c.lineno,
                        '_rank re-sorts only conditionally (`%s`): on the other path it decides places, winner and tie for first on the order '
                        'left by an earlier call, although the status component of the ranking key (eliminated / retired) or a card may have '
                        'changed since' % unparse(what)[:90],
                        'an athlete ranked ahead of an eliminated one retires or passes: no attempt is added but the order changes')
        else:
            ctx.ok('R8', '_rank: %s is called unconditionally' % unparse(c))
    # ---- R6 the card import recognises every height column: _looks_like_height accepts every plain decimal ('2', '2.0', '2.00', '1.955')
    llh = Cm.get('_looks_like_height')
    if llh is not None:
        uses_float = any(isinstance(c, ast.Call) and call_name(c) in ('float', 'Decimal') for c in ast.walk(llh))
        pats_ = []
        for n in ast.walk(mod.tree):
            if isinstance(n, ast.Assign) and isinstance(n.value, ast.Call) and call_name(n.value) == 'compile' and n.value.args \
                    and isinstance(n.value.args[0], ast.Constant) and isinstance(n.value.args[0].value, str):
                nm = ast.unparse(n.targets[0]).split('.')[-1]
                if any(isinstance(x, (ast.Name, ast.Attribute)) and ast.unparse(x).split('.')[-1] == nm for x in ast.walk(llh)):
                    pats_.append((nm, n.value.args[0].value, n.lineno))
        if uses_float and not pats_:
            ctx.ok('R6', '_looks_like_height converts with float()/Decimal(): every decimal height text is a height column')
        elif pats_:
            from .. import rx
            from ..pats import Pats
            import re._parser as _sp
            P_ = Pats(repo, extra_patterns=[('@HJ_' + nm, p_) for nm, p_, _l in pats_])
            plain = P_.exact(list(_sp.parse(r'[0-9]+(?:\.[0-9]+)?')))
            for nm, p_, ln in pats_:
                lost = rx.diff(plain, P_.dfa('@HJ_' + nm))
                w = P_.wit(lost)
                if w is None:
                    ctx.ok('R6', '_looks_like_height: pattern %s accepts every plain decimal' % nm)
                else:
                    ctx.finding('R6', '%s::HighJumpCompetition._looks_like_height::height headers rejected' % HJ, HJ, ln,
                                'the pattern %r that recognises height columns rejects the height text %r: from_matrix silently drops that column, so '
                                'every best, countback and place is computed without that bar' % (p_, w), w)
        else:
            ctx.info('_looks_like_height: neither a numeric conversion nor a compiled pattern; R6 not decided')
    # ---- R7 observers change nothing (alias-aware purity, shared with C08): a card padded by an export changes has_retired and the ranking
    from ..purity import impure_methods
    imp_ = impure_methods(mod)
    for q_ in ('HighJumpCompetition.to_matrix', 'HighJumpCompetition.print_ranking', 'Jumper.place', 'Jumper.ranking_key', 'Jumper.has_retired'):
        if q_ in imp_ and q_ in mod.functions:
            ln_, why_ = imp_[q_][0]
            ctx.finding('R7', '%s::%s::observer changes the cards' % (HJ, q_), HJ, ln_,
                        '%s only reports, but %s: the card is what has_retired, the countback and the tie test read, so looking at a competition '
                        'changes its standings' % (q_, why_), 'to_matrix() during a jump-off with a retired athlete tied for first')
    # ---- R3 _old_pos unobservable
    n_uses = 0
    for n in ast.walk(mod.tree):
        if isinstance(n, ast.Attribute) and n.attr == '_old_pos':
            n_uses += 1
            if isinstance(n.ctx, (ast.Store, ast.Del)):
                continue
            p = getattr(n, '_parent', None)
            inside_key = False
            while p is not None:
                if isinstance(p, ast.Lambda) and isinstance(getattr(p, '_parent', None), ast.keyword) and p._parent.arg == 'key':
                    inside_key = True
                p = getattr(p, '_parent', None)
            if not inside_key:
                ctx.finding('R3', '%s::_old_pos read outside the sort key::%s' % (HJ, stmt_key(n._parent)), HJ, n.lineno,
                            'the previous position (a tie-break that must stay unobservable) is read outside the sort key')
    for n in ast.walk(mod.tree):
        if isinstance(n, ast.Constant) and n.value == '_old_pos':
            ctx.finding('R3', '%s::_old_pos accessed by name' % HJ, HJ, n.lineno, "'_old_pos' is accessed through a string")
    if n_uses:
        ctx.ok('R3', '_old_pos: %d uses, loads only inside the sort key' % n_uses)
    else:
        ctx.info('_old_pos no longer exists (stable sort without an explicit tie-break)')


def eval_status(e, eliminated, neg):
    if isinstance(e, ast.Constant):
        return e.value
    if isinstance(e, ast.IfExp):
        t = e.test
        if isinstance(t, ast.Attribute) and t.attr == 'eliminated':
            v = eliminated
        elif isinstance(t, ast.UnaryOp) and isinstance(t.op, ast.Not) and isinstance(t.operand, ast.Attribute) and t.operand.attr == 'eliminated':
            v = not eliminated
        elif isinstance(t, ast.Compare) and len(t.ops) == 1 and 'highest_cleared_index' in ast.unparse(t.left) \
                and ast.unparse(t.comparators[0]) == '0' and isinstance(t.ops[0], (ast.Lt, ast.GtE)):
            v = neg if isinstance(t.ops[0], ast.Lt) else not neg
        else:
            raise AnalysisError('status test')
        return eval_status(e.body if v else e.orelse, eliminated, neg)
    raise AnalysisError('status expr')
