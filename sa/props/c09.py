"""C09 — performance-needed is the inverse of the score (structural part: rounding duality and inverse shape)."""
import ast

from ..core import AnalysisError
from ..src import call_name, unparse
from .c01 import dispatch_arms, sym_eval, Sym, ATH, score_roles

LEVEL = 'other'
DUAL = {'floor': 'ceil', 'ceil': 'floor'}


def run(ctx, repo):
    mod = repo.module(ATH)
    score = mod.func('score')
    perf = mod.func('performance')
    ctx.explanation = (
        'Structural part only: per kind arm the rounding of performance() is the dual of the rounding of score() on '
        'the same 0.01 grid, the inverse formula has the shape (target/A)**(1/X) combined with Z in the orientation '
        'opposite to score(), both functions read the same coefficient object, the negative-target clamp precedes use '
        'and the unknown-key guard dominates the lookups.  The two-sided optimality at each target depends on float pow '
        'at the boundary and is not decided.')
    ctx.rule('R1', 'rounding duality per arm (score floors a distance => performance ceils it; score ceils a time => '
                   'performance floors it) on the same 0.01 grid')
    ctx.rule('R2', 'inverse shape: (score / A) ** (1.0 / X), Z added for distances and subtracted-from for times; same table')
    ctx.rule('R3', 'negative targets are clamped to 0 before use')
    ctx.rule('R4', 'unknown key -> None guard dominates the table subscripts')
    # the key itself is built without error whatever the arguments are (an unknown pair may well be None or a number)
    from ..src import raw_param_text_ops
    _m = repo.module(ATH)
    if _m.has_func('scoring_key'):
        _ops = raw_param_text_ops(_m.func('scoring_key'))
        for _n, _msg in _ops:
            ctx.finding('R4', '%s::scoring_key::key construction may raise' % ATH, ATH, _n.lineno,
                        'scoring_key: %s, so an unknown gender / event pair that is not text is answered with an error, not with None' % _msg,
                        "('M', None)")
        if not _ops:
            ctx.ok('R4', 'scoring_key builds the key with operations that accept any argument')

    ctx.rule('R5', 'GRID on score() and performance(): the forward function is exact on the 0.01 grid')
    ctx.rule('R6', 'no history: memo transparency; the shared coefficient rows are never changed in place')
    ctx.rule('R7', 'score() and performance() resolve every row of the table to the same coefficient row (hurdles remap on both sides or on neither)')
    sarms, _ = dispatch_arms(score)
    parms, pchain = dispatch_arms(perf)
    if sarms is None or parms is None:
        raise AnalysisError('score()/performance(): dispatch chain not found')
    from .c01 import dispatch_case_rule
    dispatch_case_rule(ctx, repo, mod, score, 'R2')
    dispatch_case_rule(ctx, repo, mod, perf, 'R2')
    markname = score.args.args[2].arg
    target = perf.args.args[2].arg
    SR, PR = score_roles(score), score_roles(perf)
    for kind in ('jumps', 'throws', 'time'):
        # rounding used by score
        env = {markname: Sym(1.0)}
        srnd = None
        for st in sarms[kind]:
            if isinstance(st, ast.Assign) and isinstance(st.targets[0], ast.Name):
                v = sym_eval(st.value, env, markname, SR['age'])
                if v.scale is not None:
                    env[st.targets[0].id] = v
                    if v.rnd and srnd is None:
                        srnd = v.rnd
        if srnd is None:
            raise AnalysisError('score(): no rounding found in the %s arm' % kind)
        # rounding used by performance
        rcalls = [c for st in parms[kind] for c in ast.walk(st) if isinstance(c, ast.Call) and call_name(c) in ('floor', 'ceil')]
        key = '%s::performance::%s arm::' % (ATH, kind)
        if len(rcalls) != 1:
            ctx.finding('R1', key + 'rounding to the grid', ATH, pchain.lineno,
                        'the %s arm of performance() has %d floor/ceil calls; exactly one is needed' % (kind, len(rcalls)))
            continue
        rc = rcalls[0]
        if call_name(rc) != DUAL[srnd]:
            ctx.finding('R1', key + 'rounding duality', ATH, rc.lineno,
                        'score() rounds %s marks with %s, so the least demanding mark reaching a target needs %s here, not %s'
                        % (kind, srnd, DUAL[srnd], call_name(rc)))
        else:
            ctx.ok('R1', '%s arm: score %s / performance %s' % (kind, srnd, call_name(rc)))
        # grid: 0.01 m / s ; jumps are computed in cm (grid 1 cm) and scaled by 0.01 afterwards
        arg = rc.args[0]
        scale_in = [c.value for c in ast.walk(arg) if isinstance(c, ast.Constant) and isinstance(c.value, (int, float))
                    and float(c.value) == 100.0]
        par = getattr(rc, '_parent', None)
        while isinstance(par, ast.Call) and call_name(par) in ('int', 'float'):
            par = getattr(par, '_parent', None)
        scale_out = isinstance(par, ast.BinOp) and isinstance(par.op, ast.Div) and isinstance(par.right, ast.Constant) \
            and float(par.right.value) == 100.0
        if kind == 'jumps':
            later = [n for n in ast.walk(perf) if isinstance(n, ast.Assign) and isinstance(n.value, ast.BinOp)
                     and isinstance(n.value.op, ast.Mult) and any(isinstance(x, ast.Constant) and x.value == 0.01
                                                                 for x in (n.value.left, n.value.right))]
            guarded = any('PAT_JUMPS.match' in ast.unparse(getattr(n, '_parent', None).test)
                          for n in later if isinstance(getattr(n, '_parent', None), ast.If))
            # the same conversion written inside the arm itself (`return 0.01 * centimetres`): the arm is the PAT_JUMPS guard
            in_arm = [b for st in parms[kind] for b in ast.walk(st) if isinstance(b, ast.BinOp) and isinstance(b.op, ast.Mult)
                      and any(isinstance(x, ast.Constant) and x.value == 0.01 for x in (b.left, b.right))
                      and not any(x is rc for x in ast.walk(b.left if isinstance(b.right, ast.Constant) else b.right)
                                  if False)]
            if in_arm and not later:
                later, guarded = in_arm, True
            if not scale_in and later and guarded:
                ctx.ok('R1', 'jumps arm rounds in centimetres and converts with 0.01 under the PAT_JUMPS guard')
            else:
                ctx.finding('R1', key + 'grid', ATH, rc.lineno,
                            'the jumps arm must round the centimetre value and convert to metres with 0.01 afterwards')
        else:
            if scale_in and scale_out:
                ctx.ok('R1', '%s arm rounds on the 0.01 grid (x100 inside, /100 outside)' % kind)
            else:
                ctx.finding('R1', key + 'grid', ATH, rc.lineno,
                            'the %s arm does not round on the 0.01 grid (x100 inside the rounding, /100 outside)' % kind)
        # ---- R2 inverse shape
        pows = [b for b in ast.walk(arg) if isinstance(b, ast.BinOp) and isinstance(b.op, ast.Pow)]
        if len(pows) != 1:
            ctx.finding('R2', key + 'inverse power law', ATH, rc.lineno, 'no single power in the %s arm' % kind)
            continue
        pw = pows[0]
        base_ok = isinstance(pw.left, ast.BinOp) and isinstance(pw.left.op, ast.Div) and ast.unparse(pw.left.left) == target \
            and "'A'" in ast.unparse(pw.left.right) and (PR['coeffs'] in ast.unparse(pw.left.right) or '_scoring_objects[' in ast.unparse(pw.left.right))
        exp_ok = isinstance(pw.right, ast.BinOp) and isinstance(pw.right.op, ast.Div) and isinstance(pw.right.left, ast.Constant) \
            and float(pw.right.left.value) == 1.0 and "'X'" in ast.unparse(pw.right.right)
        if base_ok and exp_ok:
            ctx.ok('R2', '%s arm: (target / A) ** (1.0 / X)' % kind)
        else:
            ctx.finding('R2', key + 'inverse power law', ATH, pw.lineno,
                        'the %s arm computes %s, not (target / A) ** (1.0 / X)' % (kind, unparse(pw)))
        comb = getattr(pw, '_parent', None)
        while comb is not None and not (isinstance(comb, ast.BinOp) and isinstance(comb.op, (ast.Add, ast.Sub))):
            comb = getattr(comb, '_parent', None)
        if comb is None or "'Z'" not in ast.unparse(comb):
            ctx.finding('R2', key + 'Z offset', ATH, pw.lineno, 'the zero-point mark Z is not combined with the power in the %s arm' % kind)
        else:
            z_left = "'Z'" in ast.unparse(comb.left)
            if kind == 'time':
                good = isinstance(comb.op, ast.Sub) and z_left
            else:
                good = isinstance(comb.op, ast.Add)
            if good:
                ctx.ok('R2', '%s arm: %s' % (kind, 'Z - power' if kind == 'time' else 'power + Z'))
            else:
                ctx.finding('R2', key + 'Z orientation', ATH, comb.lineno,
                            'the %s arm combines Z as %s; score() uses %s, so the inverse is %s' % (
                                kind, unparse(comb), 'Z - t' if kind == 'time' else 'd - Z', 'Z - power' if kind == 'time' else 'power + Z'))
    # same coefficient object
    for fn in (score, perf):
        subs = [n for n in ast.walk(fn) if isinstance(n, ast.Assign) and isinstance(n.value, ast.Subscript) and ast.unparse(n.value.value) == '_scoring_objects']
        if not subs:
            # the row is not held in a local: the table itself is subscripted where the coefficients are used
            subs = [n for n in ast.walk(fn) if isinstance(n, ast.Subscript) and isinstance(n.ctx, ast.Load) and ast.unparse(n.value) == '_scoring_objects']
        if not subs:
            ctx.finding('R2', '%s::%s::reads _scoring_objects[key]' % (ATH, fn.name), ATH, fn.lineno,
                        '%s() no longer reads its coefficients from the shared table' % fn.name)
    keyasg = [n for n in ast.walk(perf) if isinstance(n, ast.Assign) and ast.unparse(n.targets[0]) == PR['key']]
    if keyasg and ast.unparse(keyasg[0].value) == 'scoring_key(%s, %s)' % (perf.args.args[0].arg, perf.args.args[1].arg):
        ctx.ok('R2', 'performance() looks up scoring_key(gender, event_code)')
    else:
        ctx.finding('R2', '%s::performance::key' % ATH, ATH, perf.lineno, 'performance() does not look up scoring_key(gender, event_code)')
    # ---- R3 clamp
    clamp = None
    for i, st in enumerate(perf.body):
        if isinstance(st, ast.If) and isinstance(st.test, ast.Compare) and ast.unparse(st.test) in ('%s < 0' % target, '0 > %s' % target) \
                and any(isinstance(s, ast.Assign) and ast.unparse(s) == '%s = 0' % target for s in st.body):
            clamp = i
        if isinstance(st, ast.Assign) and ast.unparse(st) in ('%s = max(0, %s)' % (target, target), '%s = max(%s, 0)' % (target, target)):
            clamp = i
    first_use = None
    for i, st in enumerate(perf.body):
        if any(isinstance(b, ast.BinOp) and isinstance(b.op, ast.Pow) for b in ast.walk(st)):
            first_use = i
            break
    if clamp is not None and first_use is not None and clamp < first_use:
        ctx.ok('R3', 'negative targets are clamped before the power law')
    else:
        ctx.finding('R3', '%s::performance::negative-target clamp' % ATH, ATH, perf.lineno,
                    'a negative target is not clamped to 0 before the power law: (negative / A) ** (1/X) is complex or raises')
    # ---- R4 guard: every subscript of the table is reached only when `key in table` is known (an if arm or a guard clause)
    from ..src import guards_of
    subs_ = [n for n in ast.walk(perf) if isinstance(n, ast.Subscript) and ast.unparse(n.value) == '_scoring_objects' and isinstance(n.ctx, ast.Load)]

    def member_known(n):
        k = ast.unparse(n.slice)
        for t, holds in guards_of(n, perf):
            if isinstance(t, ast.Compare) and len(t.ops) == 1 and ast.unparse(t.left) == k and '_scoring_objects' in ast.unparse(t.comparators[0]):
                if (isinstance(t.ops[0], ast.NotIn) and not holds) or (isinstance(t.ops[0], ast.In) and holds):
                    return True
        return False
    unguarded = [n for n in subs_ if not member_known(n)]
    if subs_ and not unguarded:
        ctx.ok('R4', 'unknown key -> None precedes the lookup (%d subscript(s) of the table, each under `key in table`)' % len(subs_))
    elif not subs_:
        ctx.finding('R4', '%s::performance::unknown-pair guard' % ATH, ATH, perf.lineno,
                    'performance() has no guarded subscript of the shared table: an unknown gender/event pair is not answered with None')
    else:
        ctx.finding('R4', '%s::performance::unknown-pair guard' % ATH, ATH, unguarded[0].lineno,
                    'performance() looks the key up without the `key not in _scoring_objects: return None` guard in front')
    ctx.floor('kind arms compared between score() and performance()', 3, 3)
    # ---- R5: the forward function must be exact on the grid, else no inverse exists (shared with C01.R3)
    from ..grid import FnGrid
    from ..src import stmt_key
    occ = {}
    for node, status, desc in FnGrid(score).sites():
        k = stmt_key(node)
        occ[k] = occ.get(k, 0) + 1
        if status == 'hazard':
            ctx.finding('R5', '%s::score::%s#%d' % (ATH, k, occ[k]), ATH, node.lineno,
                        '%s: the mark that performance() reports no longer reaches its target when scored (100*4.1 = 409.99999999999994)' % desc,
                        "performance('M','LJ',221) = 4.1 but score('M','LJ',4.1) = 220")
        else:
            ctx.ok('R5', '%s guarded (%s)' % (k[:50], desc))
    # ---- R6: no history: memo transparency and no in-place change of the shared coefficient rows
    from ..memo import analyse as memo_analyse, shared_alias_mutations
    from ..props.c19 import module_mutables
    mm = set(module_mutables(mod)) | {'_scoring_objects'}
    for fn in (score, perf):
        res, memos = memo_analyse(fn, mm)
        for rule, msg, node in res:
            ctx.finding('R6', '%s::%s::memo %s' % (ATH, fn.name, rule), ATH, node.lineno, msg, 'the same query asked twice in one process')
        for msg, node in shared_alias_mutations(fn, mm):
            ctx.finding('R6', '%s::%s::shared row changed in place' % (ATH, fn.name), ATH, node.lineno, msg, 'one esaa=True call, then a plain M-800 call')
        if not res:
            ctx.ok('R6', '%s: %d memo(s), transparent; no shared row changed in place' % (fn.name, len(memos)))
    # ---- R7 the two directions resolve an event code to the same row: every code that score() rewrites before its lookup (the veterans'
    # hurdles remap) is rewritten by performance() too, or is not a row of the table (then performance() answers None for it)
    def remaps(fn_):
        out = {}
        evp_ = fn_.args.args[1].arg
        for n in ast.walk(fn_):
            if isinstance(n, ast.If):
                t = ast.unparse(n.test)
                asg = [s_ for s_ in n.body if isinstance(s_, ast.Assign) and ast.unparse(s_.targets[0]) == evp_ and isinstance(s_.value, ast.Constant)]
                if asg and evp_ in t:
                    gs = [c.value for c in ast.walk(n.test) if isinstance(c, ast.Constant) and c.value in ('M', 'F')] or ['M', 'F']
                    evs = [c.value for c in ast.walk(n.test) if isinstance(c, ast.Constant) and isinstance(c.value, str) and c.value not in ('M', 'F')]
                    for g_ in gs:
                        for e_ in evs:
                            out['%s-%s' % (g_, e_)] = asg[0].value.value
        return out
    rs, rp = remaps(score), remaps(perf)
    tkeys = {'%s-%s' % (r['gender'], r['event_code']) for r in repo.const(ATH, '_scoring_table') if isinstance(r, dict)}
    diff = sorted(k for k in set(rs) | set(rp) if rs.get(k) != rp.get(k) and k in tkeys)
    if diff:
        ctx.finding('R7', '%s::score/performance::codes resolved to different rows' % ATH, ATH, perf.lineno,
                    'for %s score() uses the row of %s while performance() uses the row of %s: the performance reported for a target is scored with '
                    'other coefficients, so it is not the inverse' % (diff, [rs.get(k, k.split('-')[1]) for k in diff], [rp.get(k, k.split('-')[1]) for k in diff]), diff[0])
    else:
        ctx.ok('R7', 'score() and performance() resolve every table row to the same coefficients (remaps: %s / %s)' % (rs, rp))

