"""C08 — replaying the log or the card rebuilds the competition (structural part)."""
import ast
import json
import os

from ..core import AnalysisError, VERIF
from ..ebr import EBR
from ..src import call_name, unparse

LEVEL = 'other'
HJ = 'athlib/highjump.py'
COMP = 'HighJumpCompetition'
MUTATORS = ['add_jumper', 'set_bar_height', 'cleared', 'failed', 'passed', 'retired']
TRIALS = ['cleared', 'failed', 'passed', 'retired']


def run(ctx, repo):
    mod = repo.module(HJ)
    comp = mod.cls(COMP)
    jumper = mod.cls('Jumper')
    Cm = {f.name: f for f in comp.body if isinstance(f, ast.FunctionDef)}
    Jm = {f.name: f for f in jumper.body if isinstance(f, ast.FunctionDef)}
    with open(os.path.join(VERIF, 'spec', 'hj_admission.json')) as f:
        letters = json.load(f)['letters']
    ctx.explanation = (
        'Structural necessary conditions of replayability: the log is complete (each of the six mutators appends '
        'exactly one record naming itself with its own argument on its success path, and no other public method '
        'changes observable state, decided with the effect summaries of the call graph), the three letter tables '
        '(action_letter, the letters the Jumper methods write, bib_trial\'s dispatch) are mutually inverse, the '
        'derived views read only the log.  Equality of replayed and original competitions and order independence '
        'are statements about histories and are not decided.')
    ctx.rule('R1', 'log completeness: one record (own name, own argument) per mutator; no other public method writes state; '
                   'from_actions dispatches by name with the logged argument')
    ctx.rule('R2', "three-way letter agreement: action_letter == letters written by Jumper.* == bib_trial dispatch ('-' is a no-op)")
    ctx.rule('R3', 'trials / trial_objs read only the log')
    ctx.rule('R6', 'every trial mutator re-ranks unconditionally (top-level self._rank())')
    ctx.rule('R7', '_rank takes no decision from the dismissed flag (set by a clearance and by a pass alike)')
    ctx.rule('R5', 'a refused trial changes nothing on the card (effect-before-raise on the Jumper trial methods)')
    ctx.rule('R4', 'to_matrix exports every bar position: its header iterates self.heights unsliced and unfiltered')

    # ---- R1
    for m in MUTATORS:
        f = Cm.get(m)
        if f is None:
            raise AnalysisError('anchor vanished: %s.%s' % (COMP, m))
        params = [a.arg for a in f.args.args[1:]] + ([f.args.kwarg.arg] if f.args.kwarg else [])
        appends_top = []
        appends_all = []
        for n in ast.walk(f):
            if isinstance(n, ast.Call) and call_name(n) == 'append' and isinstance(n.func, ast.Attribute) \
                    and ast.unparse(n.func.value) == 'self.actions':
                appends_all.append(n)
        for st in f.body:
            if isinstance(st, ast.Expr) and isinstance(st.value, ast.Call) and st.value in appends_all:
                appends_top.append(st.value)
        if len(appends_all) == 1 and len(appends_top) == 1:
            rec = appends_top[0].args[0] if appends_top[0].args else None
            if isinstance(rec, ast.Tuple) and len(rec.elts) == 2 and isinstance(rec.elts[0], ast.Constant) \
                    and rec.elts[0].value == m and isinstance(rec.elts[1], ast.Name) and rec.elts[1].id in params:
                ctx.ok('R1', '%s logs (%r, %s) once, unconditionally' % (m, m, rec.elts[1].id))
            else:
                ctx.finding('R1', '%s::%s.%s::log record' % (HJ, COMP, m), HJ, appends_top[0].lineno,
                            '%s logs %s; replay needs (%r, <its own argument>)' % (m, unparse(rec) if rec is not None else '?', m))
        else:
            ctx.finding('R1', '%s::%s.%s::exactly one unconditional log record' % (HJ, COMP, m), HJ, f.lineno,
                        '%s appends %d records (%d unconditionally at the top level of its body); replay needs exactly one per '
                        'successful call' % (m, len(appends_all), len(appends_top)))
        # the record is written only after everything that can refuse the call has run
        if appends_top:
            ai = [i for i, st in enumerate(f.body) if isinstance(st, ast.Expr) and st.value is appends_top[0]][0]
            later_refusal = None
            for st in f.body[ai + 1:]:
                for x in ast.walk(st):
                    if isinstance(x, ast.Raise):
                        later_refusal = x
                    if isinstance(x, ast.Call) and (call_name(x) == 'check_started' or (call_name(x) == m and isinstance(x.func, ast.Attribute)
                                                                                     and not (isinstance(x.func.value, ast.Name) and x.func.value.id == 'self'))):
                        later_refusal = x
            if later_refusal is not None:
                ctx.finding('R1', '%s::%s.%s::log record written before %s' % (HJ, COMP, m, unparse(later_refusal)[:40]), HJ, appends_top[0].lineno,
                            '%s appends its log record before %s, which can still refuse the call: a refused call leaves a phantom record, '
                            'so replaying the log raises and .trials shows a trial that is on no card' % (m, unparse(later_refusal)[:60]),
                            'a pass refused at athlete level (height already cleared), then from_actions()')
            else:
                ctx.ok('R1', '%s: nothing can refuse the call after the log record is written' % m)
        # nothing may return before the log on the success path
        early = [n for n in ast.walk(f) if isinstance(n, ast.Return) and appends_top and n.lineno < appends_top[0].lineno]
        if early:
            ctx.finding('R1', '%s::%s.%s::return before the log append' % (HJ, COMP, m), HJ, early[0].lineno,
                        '%s can return successfully without logging the action' % m)
    # argument form: add_jumper takes **kwargs and logs the dict; from_actions re-applies dicts with ** and others positionally
    fa = Cm.get('from_actions')
    if fa is None:
        raise AnalysisError('anchor vanished: from_actions')
    src = ast.unparse(fa)
    disp = [n for n in ast.walk(fa) if isinstance(n, ast.Call) and call_name(n) == 'getattr']
    if disp and 'isinstance' in src and '**' in src:
        ctx.ok('R1', 'from_actions dispatches getattr(hj, name) and re-applies dict arguments with **')
    else:
        ctx.finding('R1', '%s::%s.from_actions::dispatch by name' % (HJ, COMP), HJ, fa.lineno,
                    'from_actions no longer dispatches each record by method name with the logged argument')
    # every record is re-applied: the replay loop has no break / continue / return and its dispatch call is not conditional on the
    # state reached so far (a finished-looking state such as 'won' still accepts the winner's further trials)
    loops = [n for n in ast.walk(fa) if isinstance(n, ast.For) and any(isinstance(c, ast.Call) and call_name(c) == 'getattr' for c in ast.walk(n))]
    if not loops:
        ctx.finding('R1', '%s::%s.from_actions::replay loop' % (HJ, COMP), HJ, fa.lineno, 'from_actions has no loop over the records')
    for lp in loops:
        skips = [n for n in ast.walk(lp) if isinstance(n, (ast.Break, ast.Continue, ast.Return))]
        tgt_names = {x.id for x in ast.walk(lp.target) if isinstance(x, ast.Name)}
        cond_state = []
        for n in ast.walk(lp):
            if isinstance(n, ast.If):
                tn = {x.id for x in ast.walk(n.test) if isinstance(x, ast.Name)}
                if not (tn <= tgt_names | {'isinstance', 'dict', 'type', 'len', 'tuple', 'list', 'str'}):
                    cond_state.append(n)
        if skips or cond_state:
            bad = (skips + cond_state)[0]
            ctx.finding('R1', '%s::%s.from_actions::records skipped' % (HJ, COMP), HJ, bad.lineno,
                        'from_actions does not re-apply every record: `%s` makes the replay of a record depend on the state reached so far '
                        '(after a win the winner may go on jumping; those trials are in the log and on the card)' % unparse(bad)[:70],
                        'winner clears another height after the competition is won, then from_actions()')
        else:
            ctx.ok('R1', 'from_actions re-applies every record (no break/continue/return, no state-dependent branch in the loop)')
    new_obj = [n for n in ast.walk(fa) if isinstance(n, ast.Assign) and isinstance(n.value, ast.Call)
               and ast.unparse(n.value.func) in ('self.__class__', COMP, 'type(self)')]
    if not new_obj:
        ctx.finding('R1', '%s::%s.from_actions::fresh competition' % (HJ, COMP), HJ, fa.lineno,
                    'from_actions does not replay into a fresh competition object')
    # no other public method writes observable state
    A = EBR(mod.tree)
    n_other = 0
    for name, f in Cm.items():
        if name in MUTATORS or name.startswith('_') or name in ('bib_trial',):
            continue
        if any(isinstance(d, ast.Name) and d.id in ('classmethod', 'staticmethod') for d in f.decorator_list):
            continue
        if name == 'from_actions':
            continue       # replays into a fresh object
        n_other += 1
        out = A.analyse((COMP, name))
        if any(w for w, e in out):
            # writes to `self`-rooted state only matter; a write through a parameter default is C16's concern
            selfw = [r for r in ast.walk(f) if isinstance(r, (ast.Assign, ast.AugAssign)) and any(
                isinstance(t, (ast.Attribute, ast.Subscript)) and ast.unparse(t).startswith('self.')
                for t in (r.targets if isinstance(r, ast.Assign) else [r.target]))]
            mut = [c for c in ast.walk(f) if isinstance(c, ast.Call) and isinstance(c.func, ast.Attribute)
                   and c.func.attr in ('append', 'extend', 'insert', 'pop', 'remove', 'clear', 'sort', 'update')
                   and ast.unparse(c.func.value).startswith('self.')]
            callsmut = [c for c in ast.walk(f) if isinstance(c, ast.Call) and isinstance(c.func, ast.Attribute)
                        and isinstance(c.func.value, ast.Name) and c.func.value.id == 'self'
                        and (COMP, c.func.attr) in A.summaries and any(w for w, e in A.summaries[(COMP, c.func.attr)])]
            if selfw or mut or callsmut:
                ctx.finding('R1', '%s::%s.%s::unlogged state change' % (HJ, COMP, name), HJ, f.lineno,
                            'public method %s changes competition state without logging it: the action log no longer '
                            'rebuilds the competition' % name)
                continue
        ctx.ok('R1', '%s.%s does not change competition state' % (COMP, name))
    ctx.floor('other public methods examined for unlogged writes', n_other, 6)
    # alias-aware second opinion (sa/purity.py): observers of both classes, properties included; a change made through a local alias
    # of a state object (`card = j.attempts_by_height; card += [...]`) is a change of the competition
    from ..purity import impure_methods
    imp = impure_methods(mod)
    n_obs = 0
    for q, fn in mod.functions.items():
        cls_, _, name = q.partition('.')
        if cls_ not in (COMP, 'Jumper') or not name or name.startswith('_'):
            continue
        if cls_ == COMP and (name in MUTATORS or name in ('bib_trial', 'from_actions', 'from_matrix')):
            continue
        if cls_ == 'Jumper' and name in ('cleared', 'failed', 'passed', 'retired'):
            continue
        if any(isinstance(d, ast.Name) and d.id in ('classmethod', 'staticmethod') for d in fn.decorator_list):
            continue
        n_obs += 1
        if q in imp:
            ln, why = imp[q][0]
            ctx.finding('R1', '%s::%s::unlogged state change' % (HJ, q), HJ, ln,
                        '%s is an observer (it writes no log record) but changes the competition: %s. Reading a competition must not change '
                        'it: the original and its replay differ after the first export' % (q, why),
                        'to_matrix() on a competition where an athlete has fewer card entries than there are heights, then compare with from_actions()')
    ctx.floor('observers examined with alias tracking', n_obs, 10)
    if not any('unlogged state change' in f.construct for f in ctx.findings):
        ctx.ok('R1', '%d observers (methods and properties of both classes) change no state, aliases included' % n_obs)

    # ---- R5 a refused trial leaves no trace on the card either (the log records nothing for it, so the card must not change): the
    # effect-before-raise analysis of C02 on the four trial methods of Jumper and what they call
    A5 = EBR(mod.tree)
    for k in [('Jumper', m_) for m_ in ('cleared', 'failed', 'passed', 'retired')]:
        if k not in A5.methods:
            raise AnalysisError('anchor vanished: Jumper.%s' % k[1])
        A5.analyse(k)
    seen5 = set()
    for r in A5.reports:
        key5 = (r['entry'], r['write'])
        if key5 in seen5:
            continue
        seen5.add(key5)
        ctx.finding('R5', '%s::%s.%s::%s before a refusal' % (HJ, r['entry'][0], r['entry'][1], r['write']), HJ, r['line'],
                    '%s.%s: %s happens before the call is refused: the card changes although nothing is logged, so the replayed competition and the '
                    're-imported card differ from the original' % (r['entry'][0], r['entry'][1], r['write']), {'path': r['trace']})
    if not A5.reports:
        ctx.ok('R5', 'the trial methods of Jumper change nothing before a refusal (%d abstract states)' % A5.states_explored)
    # ---- R6 order independence needs the standing to be recomputed after every trial: each trial mutator ends with an unconditional
    # self._rank() at the top level of its body (a re-rank skipped "because nothing moved" also skips the state transition)
    for m_ in ('cleared', 'failed', 'passed', 'retired'):
        f_ = Cm.get(m_)
        if f_ is None:
            raise AnalysisError('anchor vanished: %s.%s' % (COMP, m_))
        top = [st for st in f_.body if isinstance(st, ast.Expr) and isinstance(st.value, ast.Call) and call_name(st.value) == '_rank']
        anyw = [c for c in ast.walk(f_) if isinstance(c, ast.Call) and call_name(c) == '_rank']
        if top:
            ctx.ok('R6', '%s re-ranks unconditionally' % m_)
        else:
            ctx.finding('R6', '%s::%s.%s::re-rank is conditional' % (HJ, COMP, m_), HJ, (anyw[0].lineno if anyw else f_.lineno),
                        '%s calls _rank() only under a condition (or not at all): _rank also moves the competition state, so whether the '
                        'competition ends depends on which athlete of a round jumped last - two orders of the same trials end in different states' % m_,
                        'jump-off at a bar not above the best: loser fails first, then winner clears')
    # ---- R7 the flag `dismissed` means "done at this bar" - set by a clearance AND by a pass: no decision of _rank may read it as a
    # clearance (the card of the current bar is what says whether it was cleared)
    rk_ = Cm.get('_rank')
    if rk_ is None:
        raise AnalysisError('anchor vanished: _rank')
    set_by = {m_ for m_, f_ in Jm.items() for a in ast.walk(f_) if isinstance(a, ast.Assign) and isinstance(a.value, ast.Constant) and a.value.value is True
              and any(isinstance(t, ast.Attribute) and t.attr == 'dismissed' for t in a.targets)}
    reads = [n for n in ast.walk(rk_) if isinstance(n, ast.Attribute) and n.attr == 'dismissed' and isinstance(n.ctx, ast.Load)]
    if reads and {'passed', 'cleared'} <= set_by:
        ctx.finding('R7', '%s::%s._rank::decision reads the dismissed flag' % (HJ, COMP), HJ, reads[0].lineno,
                    '_rank decides on `%s`, but dismissed is set by %s alike: a pass by the last athlete standing counts as the winning clearance, '
                    'and since the card import skips pass marks the re-imported competition is in another state' % (
                        unparse(reads[0]), sorted(set_by)), 'sole survivor passes at the bar where the last rival goes out')
    else:
        ctx.ok('R7', '_rank does not read the dismissed flag (set by %s)' % sorted(set_by))
    # ---- R4 the exported card names every bar position: the header of to_matrix iterates self.heights itself (no slice, no filter);
    # a height that nobody has tried yet is state (bar_height, dismissed flags, 'started') and must survive export / import
    tm = Cm.get('to_matrix')
    if tm is None:
        raise AnalysisError('anchor vanished: to_matrix')
    class _Loop:          # a for statement over the heights, seen as a one-generator comprehension
        def __init__(self, f):
            self.generators = [type('G', (), {'iter': f.iter, 'ifs': []})()]
            self.lineno = f.lineno
    hdr = [g for g in ast.walk(tm) if isinstance(g, (ast.ListComp, ast.GeneratorExp)) and any(
        isinstance(x, ast.Attribute) and x.attr == 'heights' for x in ast.walk(g.generators[0].iter))]
    hdr += [_Loop(f) for f in ast.walk(tm) if isinstance(f, ast.For) and any(
        isinstance(x, ast.Attribute) and x.attr == 'heights' for x in ast.walk(f.iter))]
    if not hdr:
        ctx.finding('R4', '%s::%s.to_matrix::header of heights' % (HJ, COMP), HJ, tm.lineno, 'to_matrix no longer builds its header from self.heights')
    for g in hdr:
        it = g.generators[0].iter
        if isinstance(it, ast.Attribute) and it.attr == 'heights' and isinstance(it.value, ast.Name) and it.value.id == 'self' and not g.generators[0].ifs:
            ctx.ok('R4', 'to_matrix: the header iterates self.heights, every bar position is exported')
        else:
            ctx.finding('R4', '%s::%s.to_matrix::header of heights' % (HJ, COMP), HJ, g.lineno,
                        'the header of the exported card iterates `%s`%s, not all of self.heights: a bar position without marks (the bar just set, the '
                        'first height, a lowered jump-off bar) is dropped, and the re-imported competition has the old bar, stale dismissed flags and '
                        'possibly the state scheduled' % (unparse(it), ' with a filter' if g.generators[0].ifs else ''),
                        'to_matrix() right after set_bar_height(), then from_matrix()')
    # ---- R2 letters
    al = None
    for st in comp.body:
        if isinstance(st, ast.Assign) and isinstance(st.targets[0], ast.Name) and st.targets[0].id == 'action_letter':
            al = st.value
    if al is None:
        raise AnalysisError('anchor vanished: action_letter')
    table = None
    if isinstance(al, ast.Call) and call_name(al) == 'dict' and not al.args:
        table = {k.arg: k.value.value for k in al.keywords if isinstance(k.value, ast.Constant)}
    elif isinstance(al, ast.Dict):
        table = {k.value: v.value for k, v in zip(al.keys, al.values) if isinstance(k, ast.Constant) and isinstance(v, ast.Constant)}
    if not table:
        # not a literal of constants: the value of the expression with the module's folded constants (T-FOLD)
        from ..fold import Folder
        try:
            table = Folder().expr(al, dict(repo.folded(HJ)[0]))
        except Exception as e:
            raise AnalysisError('action_letter is not a dict literal and does not fold (%s)' % e)
        if not isinstance(table, dict):
            raise AnalysisError('action_letter does not fold to a dict')
    written = {}
    for m in TRIALS:
        f = Jm.get(m)
        if f is None:
            raise AnalysisError('anchor vanished: Jumper.%s' % m)
        ls = [n.value.value for n in ast.walk(f) if isinstance(n, ast.AugAssign) and isinstance(n.op, ast.Add)
              and 'attempts_by_height' in ast.unparse(n.target) and isinstance(n.value, ast.Constant)]
        written[m] = ls
    bt = Cm.get('bib_trial')
    if bt is None:
        raise AnalysisError('anchor vanished: bib_trial')
    dispatch = {}
    cur = [st for st in bt.body if isinstance(st, ast.If)]
    node = cur[0] if cur else None
    # decided by folding bib_trial over the letters (and one letter that is none of them) with the four trial methods replaced by
    # recorders; the reading of the if-chain below is the fallback
    try:
        from .. import fold as _fold

        class _Rec(_fold.Folder):
            def __init__(self):
                _fold.Folder.__init__(self)
                self.called = []

            def call(self, fc, args, kw):
                if fc.node.name in TRIALS:
                    self.called.append(fc.node.name)
                    return None
                return _fold.Folder.call(self, fc, args, kw)
        menv_ = dict(repo.folded(HJ)[0])
        meths_ = {m_: _fold.FuncConst(Cm[m_], menv_) for m_ in TRIALS if m_ in Cm}
        fdisp = {}
        for letter in ('o', 'x', 'r', '-', '?'):
            F_ = _Rec()
            me_ = _fold.ObjConst({}, meths_)
            try:
                F_.call(_fold.FuncConst(bt, menv_), [me_, 'A', letter], {})
                fdisp[letter] = F_.called[0] if len(F_.called) == 1 else ('pass' if not F_.called else 'several')
            except _fold._Raise as ex_:
                fdisp[letter] = 'raises'
        if fdisp.get('?') == 'raises' and fdisp.get('-') == 'pass':
            dispatch = {k: (None if v == 'pass' else v) for k, v in fdisp.items() if k != '?'}
            node = None
    except Exception:
        pass
    while node is not None:
        t = node.test
        if isinstance(t, ast.Compare) and isinstance(t.ops[0], ast.Eq) and isinstance(t.comparators[0], ast.Constant):
            letter = t.comparators[0].value
            calls = [call_name(c) for st in node.body for c in ast.walk(st) if isinstance(c, ast.Call)]
            dispatch[letter] = calls[0] if calls else None
        nxt = node.orelse
        node = nxt[0] if len(nxt) == 1 and isinstance(nxt[0], ast.If) else None
    ctx.sample({'action_letter': table, 'written_by_Jumper': written, 'bib_trial': dispatch})
    for m in TRIALS:
        want = letters[m]
        if table.get(m) != want:
            ctx.finding('R2', '%s::%s.action_letter::%s' % (HJ, COMP, m), HJ, comp.lineno,
                        'action_letter[%r] is %r; the card letter for it is %r' % (m, table.get(m), want))
        elif written[m] != [want]:
            ctx.finding('R2', '%s::Jumper.%s::card letter' % (HJ, m), HJ, Jm[m].lineno,
                        'Jumper.%s writes %s on the card; action_letter says %r' % (m, written[m], want))
        elif want == '-':
            if dispatch.get('-', 'missing') is None:
                ctx.ok('R2', "'-' on import is a no-op (explicit pass marks aside)")
            else:
                ctx.finding('R2', "%s::%s.bib_trial::'-'" % (HJ, COMP), HJ, bt.lineno,
                            "bib_trial('-') dispatches to %s; a pass mark must be a no-op on import" % dispatch.get('-'))
        elif dispatch.get(want) != m:
            ctx.finding('R2', '%s::%s.bib_trial::%s' % (HJ, COMP, want), HJ, bt.lineno,
                        'bib_trial(%r) calls %s; the letter is written by %s' % (want, dispatch.get(want), m))
        else:
            ctx.ok('R2', '%s <-> %r agree in action_letter, Jumper.%s and bib_trial' % (m, want, m))
    # explicit pass marks aside: the card import skips '-', so a live pass may leave nothing behind that the import would not
    # reproduce: only the card letter and the per-height flag `dismissed` (which set_bar_height resets)
    pw = set()
    for n in ast.walk(Jm['passed']):
        if isinstance(n, (ast.Assign, ast.AugAssign)):
            for t in (n.targets if isinstance(n, ast.Assign) else [n.target]):
                for x in (t.elts if isinstance(t, ast.Tuple) else [t]):
                    if isinstance(x, ast.Attribute):
                        pw.add(x.attr)
                    elif isinstance(x, ast.Subscript) and isinstance(x.value, ast.Attribute):
                        pw.add(x.value.attr + '[]')
    extra = pw - {'dismissed', 'attempts_by_height[]'}
    if extra:
        ctx.finding('R2', '%s::Jumper.passed::writes %s' % (HJ, sorted(extra)), HJ, Jm['passed'].lineno,
                    "Jumper.passed changes %s besides the card letter and the per-height flag: importing the exported card skips '-' marks, "
                    'so the re-imported competition differs (e.g. the count of consecutive failures across a pass)' % sorted(extra),
                    'xx- then x at the next height, to_matrix() then from_matrix()')
    else:
        ctx.ok('R2', "Jumper.passed writes only the card letter and dismissed (what a card import with '-' skipped reproduces)")
    # to_matrix exports the card entries as they are; from_matrix replays through bib_trial
    tm, fm = Cm.get('to_matrix'), Cm.get('from_matrix')
    if tm is None or fm is None:
        raise AnalysisError('anchor vanished: to_matrix/from_matrix')
    if 'attempts_by_height' in ast.unparse(tm) and any(call_name(c) == 'bib_trial' for c in ast.walk(fm) if isinstance(c, ast.Call)):
        ctx.ok('R2', 'to_matrix exports attempts_by_height; from_matrix replays each letter through bib_trial')
    else:
        ctx.finding('R2', '%s::%s::card export/import path' % (HJ, COMP), HJ, tm.lineno,
                    'to_matrix no longer exports the card entries or from_matrix no longer replays them through bib_trial')

    # ---- R3 derived views
    for name, allowed in (('trials', {'actions', 'action_letter'}), ('trial_objs', {'trials'})):
        f = Cm.get(name)
        if f is None:
            raise AnalysisError('anchor vanished: %s' % name)
        reads = {n.attr for n in ast.walk(f) if isinstance(n, ast.Attribute) and isinstance(n.value, ast.Name) and n.value.id == 'self'}
        extra = reads - allowed
        if extra:
            ctx.finding('R3', '%s::%s.%s::reads %s' % (HJ, COMP, name, sorted(extra)), HJ, f.lineno,
                        '%s reads %s besides the action log: it would differ between an original and a replayed competition' % (name, sorted(extra)))
        else:
            ctx.ok('R3', '%s reads only %s' % (name, sorted(reads)))
