"""C13 — UK age groups follow the cut-off dates (decision table vs. the rule text; complete modulo the date library)."""
import ast
import json
import os

from .. import fold
from ..core import AnalysisError, VERIF
from ..src import call_name, unparse

LEVEL = 'other'
UKA = 'athlib/uka/agegroups.py'
MAXAGE = 130


def spec():
    with open(os.path.join(VERIF, 'spec', 'uka_agegroups.json')) as f:
        return json.load(f)


def spec_label(clauses, vals):
    for c in clauses:
        ok = True
        for k, cond in c['when'].items():
            if isinstance(cond, bool):
                ok = ok and (vals[k] == cond)
            else:
                lo, hi = cond
                ok = ok and (lo is None or vals[k] >= lo) and (hi is None or vals[k] <= hi)
        if ok:
            if c['label'] == 'V':
                return 'V%02d' % (5 * (vals['am'] // 5))
            return c['label']
    return None


def const_date_args(e):
    """(year expression text, month, day) of a date(y, m, d) call with constant month/day"""
    if isinstance(e, ast.Call) and call_name(e) == 'date' and len(e.args) == 3 \
            and all(isinstance(a, ast.Constant) for a in e.args[1:]):
        return ast.unparse(e.args[0]), e.args[1].value, e.args[2].value
    return None


_MODENV = {}


def calendar_role(ctx, fn, idx, cut, kind, key, name, st, match, birth):
    import datetime as _dt
    env0 = _MODENV.get('env')
    if env0 is None or not isinstance(cut, ast.Name):
        return None
    days = []
    for y in (2015, 2016):
        d = _dt.date(y, 1, 1)
        while d.year == y:
            days.append(d)
            d += _dt.timedelta(days=1)

    def rule(role, D):
        if role == 'am':
            return D
        if role == 'a12':
            return _dt.date(D.year, 12, 31)
        if kind == 'TF':
            return _dt.date(D.year, 8, 31)
        x = _dt.date(D.year, 8, 31)
        return x if x <= D else _dt.date(D.year - 1, 8, 31)
    got = {}
    for D in days:
        env = dict(env0)
        env.update({match: D, birth: _dt.date(2000, 6, 15)})
        F = fold.Folder(importer=_MODENV.get('importer'))
        try:
            for s_ in fn.body[:idx]:
                if isinstance(s_, ast.Expr) and isinstance(s_.value, ast.Constant):
                    continue
                if isinstance(s_, ast.If) and birth in ast.unparse(s_.test):
                    continue            # string parsing of the birth date
                if any(isinstance(c, ast.Call) and call_name(c) == 'relativedelta' for c in ast.walk(s_)):
                    continue
                F.stmt(s_, env)
        except Exception:
            return None
        if not isinstance(env.get(cut.id), _dt.date):
            return None
        got[D] = env[cut.id]
    best = None
    for role in (['a8', 'a12', 'am'] if kind == 'TF' else ['a8', 'am']):
        wrong = [D for D in days if got[D] != rule(role, D)]
        if best is None or len(wrong) < len(best[1]):
            best = (role, wrong)
    role, wrong = best
    if len(wrong) > len(days) // 2:
        return None
    if wrong:
        D = wrong[0]
        ctx.finding('R1', key + ' cut-off date', UKA, st.lineno,
                    '%s is measured at `%s`, which for a competition on %s is %s; the rule\'s date is %s (%d of the %d calendar days of a common and a '
                    'leap year give another date than the rule)' % (name, unparse(cut), D.isoformat(), got[D].isoformat(), rule(role, D).isoformat(),
                                                                    len(wrong), len(days)), D.isoformat())
    return role


def age_variables(fn, kind, SP, ctx):
    """{role: variable name}, index of the last defining statement"""
    birth, match = fn.args.args[0].arg, fn.args.args[1].arg
    defs = {}
    for st in fn.body:
        if isinstance(st, ast.Assign) and isinstance(st.targets[0], ast.Name):
            defs[st.targets[0].id] = st.value
    roles = {}
    last = -1
    for i, st in enumerate(fn.body):
        if not (isinstance(st, ast.Assign) and isinstance(st.targets[0], ast.Name)):
            continue
        v = st.value
        if isinstance(v, ast.Attribute) and isinstance(v.value, ast.Call) and call_name(v.value) == 'relativedelta':
            call = v.value
            name = st.targets[0].id
            key = '%s::%s::%s' % (UKA, fn.name, name)
            if v.attr != 'years':
                ctx.finding('R1', key + ' uses .%s' % v.attr, UKA, st.lineno,
                            '%s is relativedelta(...).%s, not the completed years' % (name, v.attr))
            if len(call.args) != 2 or call.keywords or ast.unparse(call.args[1]) != birth:
                ctx.finding('R1', key + ' argument order', UKA, st.lineno,
                            '%s = %s: the age is relativedelta(<cut-off>, birth_date).years' % (name, unparse(v)))
                continue
            cut = call.args[0]
            cexpr = defs.get(cut.id) if isinstance(cut, ast.Name) and cut.id != match else cut
            role = None
            if isinstance(cexpr, ast.Name) and cexpr.id == match:
                role = 'am'
            else:
                d = const_date_args(cexpr)
                if d is not None and d[0] == '%s.year' % match:
                    for r, (m_, d_) in SP['cutoffs'].get(kind, {}).items():
                        if (d[1], d[2]) == (m_, d_):
                            role = r
                    if role is None:
                        ctx.finding('R1', key + ' cut-off date', UKA, st.lineno,
                                    '%s uses the cut-off %s; the rules use 31 August%s' % (
                                        name, unparse(cexpr), ' and 31 December' if kind == 'TF' else ''), (d[1], d[2]))
                        # classify anyway so that the table can be compared
                        role = 'a8' if d[1] <= 8 else 'a12'
                elif isinstance(cexpr, ast.Call) and call_name(cexpr) == 'prior_date':
                    args = [ast.unparse(a) for a in cexpr.args]
                    folded_args = None
                    if len(cexpr.args) == 3 and args[0] == match and args[1:] != ['8', '31']:
                        # month and day written as named constants: their values by folding
                        try:
                            from .. import fold as _f2
                            folded_args = [_f2.Folder().expr(a, dict(_MODENV.get('env') or {})) for a in cexpr.args[1:]]
                        except Exception:
                            folded_args = None
                    if args == [match, '8', '31'] or folded_args == [8, 31]:
                        role = 'a8'
                    else:
                        ctx.finding('R1', key + ' cut-off date', UKA, st.lineno,
                                    '%s uses prior_date(%s); the rule is the last 31 August on or before the day' % (name, ', '.join(args)))
                        role = 'a8'
            if role is None:
                # not one of the recognised constructions: decide the cut-off over the calendar - the statements before this one are
                # folded for every day of a common and a leap year (the functions depend on the year only through +-1) and the date
                # obtained is compared with the rule's date
                role = calendar_role(ctx, fn, i, cut, kind, key, name, st, match, birth)
            if role is None:
                raise AnalysisError('%s: cannot classify the cut-off of %s (%s)' % (fn.name, name, unparse(v)))
            if role in roles:
                roles.setdefault('dup:' + role, name)     # a second variable with the same cut-off: some role is missing
            else:
                roles[role] = name
            last = i
    return roles, last


def run(ctx, repo):
    mod = repo.module(UKA)
    SP = spec()
    ctx.explanation = (
        'The age variables are identified structurally by their cut-off (relativedelta(<cut-off>, birth).years) and '
        'checked against the rule\'s dates; the statements after them form a pure decision chain, which is evaluated by '
        'the constant folder for every feasible combination of ages 0..%d x vets x underage and compared cell by cell with '
        'spec/uka_agegroups.json, a clause-by-clause transcription of Rules 107/507.  Only feasible cells are compared, '
        'so edits of dead combinations stay silent.' % MAXAGE)
    ctx.rule('R1', 'age variables are completed years at 31 Aug / 31 Dec of the competition year / the day (TF) and at the last '
                   '31 Aug on or before the day / the day (XC, ROAD); prior_date steps back exactly when the cut-off is after the day')
    ctx.rule('R2', 'decision chain = rule table on every feasible cell')
    ctx.rule('R3', 'every path returns a str (total)')
    ctx.rule('R4', 'string birth dates are parsed before any use (str/date parity)')
    ctx.rule('R5', 'category dispatch = {TF, ROAD, XC, ESAA -> NotImplementedError, else ValueError}, options passed through')
    F = fold.Folder()
    cells_total = 0
    _MODENV['env'], _fld = repo.folded(UKA)
    _MODENV['importer'] = _fld.importer if _fld is not None else None
    for fname, kind in (('rule107_agegroups_trackandfield', 'TF'), ('rule507_agegroups_crosscountry', 'XC')):
        fn = mod.func(fname)
        if len(fn.args.args) < 4:
            raise AnalysisError('%s: expected (birth_date, match_date, vets, underage)' % fname)
        vets_n, under_n = fn.args.args[2].arg, fn.args.args[3].arg
        before = len(ctx.findings)
        roles, last = age_variables(fn, kind, SP, ctx)
        need = {'TF': {'a8', 'a12', 'am'}, 'XC': {'a8', 'am'}}[kind]
        if {r for r in roles if not r.startswith('dup:')} != need:
            missing = need - set(roles)
            if missing:
                ctx.finding('R1', '%s::%s::age variables %s' % (UKA, fname, sorted(missing)), UKA, fn.lineno,
                            'no variable holds the completed years for %s' % sorted(missing))
                continue
        if len(ctx.findings) == before:
            ctx.ok('R1', '%s: %s' % (fname, roles))
        # ---- R4 parse dominance
        birth = fn.args.args[0].arg
        parse_idx = None
        for i, st in enumerate(fn.body):
            if isinstance(st, ast.If) and call_name(st.test) in ('isStr', 'isinstance') and birth in ast.unparse(st.test) \
                    and any(isinstance(s, ast.Assign) and ast.unparse(s.targets[0]) == birth and 'parse' in ast.unparse(s.value)
                            for s in st.body):
                parse_idx = i
        first_use = None
        for i, st in enumerate(fn.body):
            if i != parse_idx and any(isinstance(n, ast.Call) and call_name(n) == 'relativedelta' for n in ast.walk(st)):
                first_use = i
                break
        extra = None
        if parse_idx is not None:
            for c in ast.walk(fn.body[parse_idx]):
                if isinstance(c, ast.Call) and 'parse' in (call_name(c) or '') and (len(c.args) != 1 or c.keywords):
                    extra = unparse(c)
        if extra:
            ctx.finding('R4', '%s::%s::birth date parser options' % (UKA, fname), UKA, fn.body[parse_idx].lineno,
                        '%s parses a string birth date with options (%s): an ISO date string is then read differently from the date '
                        'it denotes (dayfirst swaps day and month whenever the day is 12 or less)' % (fname, extra), "'2002-09-01'")
        elif parse_idx is not None and first_use is not None and parse_idx < first_use:
            ctx.ok('R4', '%s parses string birth dates before use' % fname)
        else:
            ctx.finding('R4', '%s::%s::string birth date parsed before use' % (UKA, fname), UKA, fn.lineno,
                        '%s no longer converts an ISO string birth date before computing ages: a str birth date raises or differs' % fname)
        # ---- R2/R3 table
        chain = fn.body[last + 1:]
        for st in chain:
            for n in ast.walk(st):
                if isinstance(n, ast.Call) and call_name(n) not in ('int', 'str', 'format') and not (
                        isinstance(n.func, ast.Name) and mod.has_func(n.func.id)):      # helpers of the module are folded with the chain
                    raise AnalysisError('%s: call %s in the decision chain' % (fname, unparse(n)))
        clauses = SP[kind]
        mism = {}
        # module-level constants the chain may consult (lookup tables), obtained by constant folding
        modconsts = {k: v for k, v in repo.folded(UKA)[0].items() if isinstance(v, (list, tuple, dict, str, int, float, fold.FuncConst))}
        n_cells = 0
        for a8 in range(0, MAXAGE + 1):
            if kind == 'TF':
                combos = [(a8, a12, am) for a12 in (a8, a8 + 1) for am in (a8 - 1, a8, a8 + 1) if 0 <= am <= a12]
            else:
                combos = [(a8, None, am) for am in (a8, a8 + 1)]
            for (x8, x12, xm) in combos:
                for vets in (True, False):
                    for under in (True, False):
                        env = dict(modconsts)
                        env.update({roles['a8']: x8, roles['am']: xm, vets_n: vets, under_n: under})
                        if kind == 'TF':
                            env[roles['a12']] = x12
                        try:
                            for st in chain:
                                F.stmt(st, env)
                            got = None
                        except fold._Return as r:
                            got = r.v
                        except fold._Raise:
                            got = '<raise>'
                        except (IndexError, KeyError, ZeroDivisionError, TypeError, ValueError) as e:
                            got = '<raise %s>' % type(e).__name__      # a pure operation of the chain fails on these ages
                        except fold.Unfoldable as e:
                            raise AnalysisError('%s: decision chain not evaluable: %s' % (fname, e))
                        vals = {'a8': x8, 'a12': x12, 'am': xm, 'vets': vets, 'underage': under}
                        want = spec_label(clauses, vals)
                        n_cells += 1
                        if not isinstance(got, str) or got.startswith('<raise'):
                            mism.setdefault(('R3', repr(got), want), []).append(vals)
                        elif got != want:
                            g = 'V' if got.startswith('V') else got
                            w = 'V' if want.startswith('V') else want
                            mism.setdefault(('R2', g if g != w else got, w if g != w else want), []).append(vals)
        cells_total += n_cells
        ctx.count('feasible cells compared (%s)' % kind, n_cells)
        for (rule, got, want), cells in sorted(mism.items(), key=lambda kv: str(kv[0])):
            ex = cells[0]
            if rule == 'R3':
                ctx.finding('R3', '%s::%s::returns %s where the rule gives %s' % (UKA, fname, got, want), UKA, fn.lineno,
                            '%s returns %s (not an age-group label) for %d feasible combinations, e.g. %s' % (fname, got, len(cells), ex), ex)
            else:
                ctx.finding('R2', '%s::%s::%s instead of %s' % (UKA, fname, got, want), UKA, fn.lineno,
                            '%s gives %s where Rule %s gives %s for %d feasible age combinations, e.g. %s' % (
                                fname, got, '107' if kind == 'TF' else '507', want, len(cells), ex), ex)
        if not mism:
            ctx.ok('R2', '%s: all %d feasible cells equal the rule table' % (fname, n_cells))
            ctx.ok('R3', '%s: every feasible cell returns a label' % fname)
    ctx.floor('feasible cells compared', cells_total, 3000)
    ctx.extra['exhaustive'] = True

    # ---- prior_date
    pd = mod.func('prior_date')
    ifs = [n for n in pd.body if isinstance(n, ast.If)]
    ok = False
    if len(ifs) == 1 and isinstance(ifs[0].test, ast.Compare) and len(ifs[0].test.ops) == 1 and not ifs[0].orelse:
        t = ifs[0].test
        l, r, op = ast.unparse(t.left), ast.unparse(t.comparators[0]), t.ops[0]
        mname = pd.args.args[0].arg
        xs = [s for s in pd.body if isinstance(s, ast.Assign) and isinstance(s.value, ast.Call) and call_name(s.value) == 'date']
        if xs:
            xname = ast.unparse(xs[-1].targets[0])
            strict_after = (l == xname and r == mname and isinstance(op, ast.Gt)) or (l == mname and r == xname and isinstance(op, ast.Lt))
            steps = [s for s in ifs[0].body if isinstance(s, ast.Assign) and isinstance(s.value, ast.Call) and call_name(s.value) == 'date']
            yname = None
            for s in pd.body:
                if isinstance(s, ast.Assign) and ast.unparse(s.value) == '%s.year' % mname:
                    yname = ast.unparse(s.targets[0])
            first = xs[0].value
            if strict_after and steps and yname and ast.unparse(steps[0].value.args[0]) in ('%s - 1' % yname, '%s.year - 1' % mname) \
                    and [ast.unparse(a) for a in steps[0].value.args[1:]] == [ast.unparse(a) for a in first.args[1:]] \
                    and ast.unparse(first.args[0]) in (yname, '%s.year' % mname) \
                    and [ast.unparse(a) for a in first.args[1:]] == [a.arg for a in pd.args.args[1:3]]:
                rets = [s for s in pd.body if isinstance(s, ast.Return)]
                ok = bool(rets) and ast.unparse(rets[-1].value) == xname
    if ok:
        ctx.ok('R1', 'prior_date: this year\'s cut-off unless it is strictly after the day, then last year\'s')
    else:
        ctx.finding('R1', '%s::prior_date::last cut-off on or before the day' % UKA, UKA, pd.lineno,
                    'prior_date no longer returns the cut-off of the competition year unless that is strictly after the day '
                    '(then the previous year\'s): the 31 August boundary day itself is misclassified', '31 Aug of any year')

    # ---- R5 dispatch
    calc = mod.func('calc_uka_age_group')
    # decided by folding the dispatcher over the complete domain category x vets x underage (all given explicitly) with the two
    # rule functions replaced by recorders of what reaches them; the reading of the if-chain below is the fallback
    got = None
    try:
        from .. import fold as _fold
        RULEFN = {'rule107_agegroups_trackandfield': 'TF', 'rule507_agegroups_crosscountry': 'XC'}

        class _Rec(_fold.Folder):
            def call(self, fc, args, kw):
                if fc.node.name in RULEFN:
                    e_ = self.bind_call(fc, args, kw)
                    ps = [a.arg for a in fc.node.args.args]
                    return ('reached', RULEFN[fc.node.name], e_.get(ps[0]), e_.get(ps[1]), e_.get('vets'), e_.get('underage'))
                return _fold.Folder.call(self, fc, args, kw)
        menv = dict(repo.folded(UKA)[0])
        fgot, fbad = {}, []
        pn = [a.arg for a in calc.args.args]
        for cat in ('TF', 'ROAD', 'XC', 'ESAA', 'NO-SUCH-CATEGORY'):
            for v_ in (True, False):
                for u_ in (True, False):
                    F_ = _Rec()
                    fc_ = _fold.FuncConst(calc, menv)
                    try:
                        r_ = F_.call(fc_, ['<birth>', '<match>', cat], {'vets': v_, 'underage': u_})
                    except _fold._Raise as ex_:
                        r_ = ('raise', ex_.name)
                    key_ = cat if cat != 'NO-SUCH-CATEGORY' else '*'
                    if isinstance(r_, tuple) and r_[0] == 'reached':
                        fgot[key_] = r_[1]
                        if r_[2:] != ('<birth>', '<match>', v_, u_):
                            fbad.append((cat, v_, u_, r_[2:]))
                    elif isinstance(r_, tuple) and r_[0] == 'raise':
                        fgot[key_] = r_[1]
                    else:
                        fgot[key_] = 'returns'
        got = fgot
        for cat, v_, u_, seen in fbad[:1]:
            ctx.finding('R5', '%s::calc_uka_age_group::%s arguments' % (UKA, cat), UKA, calc.lineno,
                        'calc_uka_age_group(.., %r, vets=%r, underage=%r) hands (birth date, match date, vets, underage) = %r to the rule function: '
                        'the options given by the caller do not reach the rule unchanged' % (cat, v_, u_, seen), (cat, v_, u_))
        ctx.count('dispatcher calls folded (category x vets x underage)', 20)
    except _fold.Unfoldable:
        got = None
    folded_dispatch = got is not None
    if got is None:
        got = {}
    cur = [s for s in calc.body if isinstance(s, ast.If)] if not folded_dispatch else []
    node = cur[0] if cur else None
    catn = calc.args.args[2].arg if len(calc.args.args) > 2 else 'category'
    while node is not None:
        t = node.test
        cats = []
        if isinstance(t, ast.Compare) and ast.unparse(t.left) == catn:
            c = t.comparators[0]
            if isinstance(t.ops[0], ast.Eq) and isinstance(c, ast.Constant):
                cats = [c.value]
            elif isinstance(t.ops[0], ast.In) and isinstance(c, (ast.List, ast.Tuple, ast.Set)):
                cats = [x.value for x in c.elts if isinstance(x, ast.Constant)]
        act = None
        last = node.body[-1]
        if isinstance(last, ast.Return) and isinstance(last.value, ast.Call):
            cn = call_name(last.value)
            act = 'TF' if cn == 'rule107_agegroups_trackandfield' else 'XC' if cn == 'rule507_agegroups_crosscountry' else cn
            kws = {k.arg: ast.unparse(k.value) for k in last.value.keywords}
            pos = [ast.unparse(a) for a in last.value.args]
            names = [a.arg for a in calc.args.args]
            if pos[:2] != names[:2] or not ((kws.get('vets') == 'vets' and kws.get('underage') == 'underage') or pos[2:4] == ['vets', 'underage']):
                ctx.finding('R5', '%s::calc_uka_age_group::%s arguments' % (UKA, '/'.join(cats)), UKA, last.lineno,
                            'the %s arm does not pass birth date, match date, vets and underage through unchanged: %s' % ('/'.join(cats), unparse(last.value)))
        elif isinstance(last, ast.Raise):
            act = call_name(last.exc) if isinstance(last.exc, ast.Call) else (last.exc.id if isinstance(last.exc, ast.Name) else '?')
        for c in cats:
            got[c] = act
        if len(node.orelse) == 1 and isinstance(node.orelse[0], ast.If):
            node = node.orelse[0]
        else:
            if node.orelse:
                l2 = node.orelse[-1]
                if isinstance(l2, ast.Raise):
                    got['*'] = call_name(l2.exc) if isinstance(l2.exc, ast.Call) else getattr(l2.exc, 'id', '?')
                else:
                    got['*'] = 'returns'
            node = None
    if got == SP['dispatch']:
        ctx.ok('R5', 'dispatch %s' % got)
    else:
        ctx.finding('R5', '%s::calc_uka_age_group::dispatch table' % UKA, UKA, calc.lineno,
                    'category dispatch is %s; the documented one is %s' % (got, SP['dispatch']))
