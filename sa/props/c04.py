"""C04 — event-code families: unions exact, kinds disjoint (decision procedure on automata)."""
import ast
import re._constants as sc

from .. import rx
from ..core import AnalysisError
from ..pats import Pats, top_alternatives
from ..src import call_name, unparse, stmt_key

LEVEL = 'proof'

# the property's own statement of which parts make which composite (names of athlib.codes exports)
UNIONS = [
    ('PAT_EVENT_CODE', ['PAT_MULTI', 'PAT_TRACK', 'PAT_ROAD', 'PAT_RELAYS', 'PAT_THROWS', 'PAT_JUMPS', 'PAT_HURDLES',
                        'PAT_RACES_FOR_DISTANCE', 'PAT_HIGHSCORING_EVENT', 'PAT_LOWSCORING_EVENT']),
    ('PAT_RUN', ['PAT_TRACK', 'PAT_ROAD', 'PAT_RELAYS']),
    ('PAT_FIELD', ['PAT_THROWS', 'PAT_JUMPS']),
    ('PAT_JUMPS', ['PAT_VERTICAL_JUMPS', 'PAT_HORIZONTAL_JUMPS']),
    ('PAT_LENGTH_EVENT', ['PAT_HORIZONTAL_JUMPS', 'PAT_THROWS']),
    ('PAT_TIMED_EVENT', ['PAT_TRACK', 'PAT_HURDLES', 'PAT_ROAD', 'PAT_RELAYS']),
    ('PAT_FINISH_RECORD', ['PAT_PERF', 'PAT_FINISHED', 'PAT_NOT_FINISHED']),
]
# measurement kinds: each is the union of the listed families
KINDS = {
    'timed': ['PAT_TIMED_EVENT', 'PAT_RUN', 'PAT_TRACK', 'PAT_HURDLES', 'PAT_ROAD', 'PAT_RELAYS'],
    'field': ['PAT_FIELD', 'PAT_THROWS', 'PAT_JUMPS', 'PAT_VERTICAL_JUMPS', 'PAT_HORIZONTAL_JUMPS', 'PAT_LENGTH_EVENT'],
    'multi': ['PAT_MULTI'],
    'duration': ['PAT_RACES_FOR_DISTANCE'],
}
CLASSIFIER_FILES = ['athlib/athlon_score.py', 'athlib/wma/agegrader.py', 'athlib/utils.py', 'athlib/tyrving_score.py',
                    'athlib/qkids_score.py', 'athlib/hungarian_score.py', 'athlib/bulgarian_score.py',
                    'athlib/sportshall_score.py', 'athlib/implements.py']


def union_of(P, names):
    d = P.EMPTY
    for n in names:
        d = rx.union(d, P.dfa(n))
    return d


def pattern_test(test):
    """(pattern name, method, argument text) if `test` is PAT_X.match(v) / .search(v), else None"""
    if isinstance(test, ast.Call) and isinstance(test.func, ast.Attribute) and test.func.attr in ('match', 'search') \
            and isinstance(test.func.value, ast.Name) and test.func.value.id.startswith('PAT_') and len(test.args) == 1:
        return test.func.value.id, test.func.attr, ast.unparse(test.args[0])
    return None


def if_chains(fn):
    """first-match dispatch chains: lists of (pattern name | None for else, body statements, node)"""
    chains = []
    seen = set()
    for n in ast.walk(fn):
        if isinstance(n, ast.If) and id(n) not in seen:
            arms = []
            cur = n
            arg = None
            while True:
                pt = pattern_test(cur.test)
                if pt is None:
                    break
                if arg is None:
                    arg = pt[2]
                elif pt[2] != arg:
                    break
                seen.add(id(cur))
                arms.append((pt[0], cur.body, cur))
                if len(cur.orelse) == 1 and isinstance(cur.orelse[0], ast.If):
                    cur = cur.orelse[0]
                    continue
                if cur.orelse:
                    arms.append((None, cur.orelse, cur))
                break
            if len([a for a in arms if a[0]]) >= 2:
                chains.append(('if-chain', arg, arms, n))
    # sequences of `m = PAT.search(x); if m: ... return` at the same block level
    for blk in ast.walk(fn):
        body = getattr(blk, 'body', None)
        if not isinstance(body, list):
            continue
        arms = []
        arg = None
        i = 0
        while i < len(body) - 1:
            st, nx = body[i], body[i + 1]
            if isinstance(st, ast.Assign) and len(st.targets) == 1 and isinstance(st.targets[0], ast.Name) \
                    and pattern_test(st.value) and isinstance(nx, ast.If) and isinstance(nx.test, ast.Name) \
                    and nx.test.id == st.targets[0].id and not nx.orelse \
                    and isinstance(nx.body[-1], (ast.Return, ast.Raise)):
                pt = pattern_test(st.value)
                if arg is None or pt[2] == arg:
                    arg = pt[2]
                    arms.append((pt[0], nx.body, nx))
                i += 2
                continue
            i += 1
        if len(arms) >= 2:
            chains.append(('match-return sequence', arg, arms, arms[0][2]))
    # for n, p in ((name, PAT), ...): if p.match(code): return n
    for n in ast.walk(fn):
        if isinstance(n, ast.For) and isinstance(n.iter, (ast.Tuple, ast.List)) and isinstance(n.target, ast.Tuple) \
                and all(isinstance(x, ast.Tuple) and len(x.elts) == 2 for x in n.iter.elts):
            arms = []
            for tup in n.iter.elts:
                pn = [e.id for e in tup.elts if isinstance(e, ast.Name) and e.id.startswith('PAT_')]
                cn = [e for e in tup.elts if isinstance(e, ast.Constant)]
                if len(pn) == 1 and len(cn) == 1:
                    arms.append((pn[0], [ast.Return(value=cn[0])], n))
            if len(arms) >= 2:
                chains.append(('loop classifier', 'code', arms, n))
    return chains


def result_classes(repo, fn_name):
    """equivalence of string results of a classifier derived from how its consumers compare them:
    two constants are equivalent iff every membership/equality test on a variable bound to the classifier's
    result contains both or neither."""
    tests = []
    for mod in repo.all_python():
        for fn in mod.functions.values():
            bound = set()
            for n in ast.walk(fn):
                if isinstance(n, ast.Assign) and isinstance(n.value, ast.Call) and call_name(n.value) == fn_name \
                        and len(n.targets) == 1 and isinstance(n.targets[0], ast.Name):
                    bound.add(n.targets[0].id)
            for n in ast.walk(fn):
                if isinstance(n, ast.Compare) and isinstance(n.left, ast.Name) and n.left.id in bound and len(n.ops) == 1:
                    r = n.comparators[0]
                    if isinstance(r, (ast.List, ast.Tuple, ast.Set)) and all(isinstance(x, ast.Constant) for x in r.elts):
                        tests.append(frozenset(x.value for x in r.elts))
                    elif isinstance(r, ast.Constant):
                        tests.append(frozenset([r.value]))
                    else:
                        tests.append(None)
    return tests


def numbered_references(ctx, repo):
    """O-embed: the composites are built by pasting pattern TEXT into one another (_orjoin, %-splices), which renumbers groups.  A numbered
    backreference or a conditional on a numbered group therefore means one thing in the family pattern and another in every composite
    that embeds it.  Decided on CPython's sre parse tree of every folded pattern, before any automaton is built."""
    import re._constants as _sc
    import re._parser as _sp
    from .. import fold as _fold
    env, _f = repo.folded('athlib/codes.py')
    n = 0
    for name, v in sorted(env.items()):
        if not isinstance(v, _fold.RegexConst):
            continue
        n += 1
        try:
            tree = _sp.parse(v.pattern)
        except Exception:
            continue

        def walk(nodes):
            for op, av in nodes:
                if op is _sc.GROUPREF or op is _sc.GROUPREF_EXISTS:
                    yield op, av
                if op is _sc.SUBPATTERN:
                    yield from walk(av[3])
                elif op is _sc.BRANCH:
                    for alt in av[1]:
                        yield from walk(alt)
                elif op in (_sc.MAX_REPEAT, _sc.MIN_REPEAT):
                    yield from walk(av[2])
                elif op is _sc.GROUPREF_EXISTS:
                    pass
                if op is _sc.GROUPREF_EXISTS:
                    yield from walk(av[1])
                    if av[2] is not None:
                        yield from walk(av[2])
        refs = list(walk(list(tree)))
        if refs:
            op, av = refs[0]
            gid = av if op is _sc.GROUPREF else av[0]
            ctx.finding('O-embed', 'athlib/codes.py::%s::numbered group reference' % name, 'athlib/codes.py', None,
                        '%s refers to group %s by number (%s).  Its text is pasted into the composites, where the groups before it shift the '
                        'numbering: there the reference points at another group, so the composite accepts strings that %s itself rejects (or the '
                        'reverse) and is no longer the union of its parts' % (name, gid, 'conditional (?(n)...)' if op is _sc.GROUPREF_EXISTS else 'backreference', name),
                        name)
    ctx.count('patterns scanned for numbered group references', n)
    if not any(f.rule == 'O-embed' for f in ctx.findings):
        ctx.ok('O-embed', 'no pattern of codes.py refers to a group by number (%d patterns)' % n)


def run(ctx, repo):
    ctx.rule('O-embed', 'no pattern refers to a group by number (textual embedding renumbers groups)')
    numbered_references(ctx, repo)
    P = Pats(repo)
    A = P.A
    ctx.explanation = (
        'Decision procedure: every pattern of athlib/codes.py is obtained by constant-folding the module (so _orjoin, '
        '%-splices and re.sub are interpreted from their AST), parsed by CPython\'s sre parser and compiled to a DFA '
        'of the whole-string language of re.match over a finite partition of all of Unicode that refines every '
        'character class used. Equalities / disjointness / inclusions are emptiness checks with shortest witnesses; '
        'no length bound.')
    ctx.rule('O-union', 'each published composite accepts exactly the union of its parts (two inclusions each)')
    ctx.rule('O-disjoint', 'timed, field, multi and fixed-duration kinds are pairwise disjoint')
    ctx.rule('O-dispatch', 'in every first-match classifier, two arms with non-equivalent results have disjoint '
                           'languages or the earlier is included in the later (specific before general)')
    ctx.rule('O-search', 'every .search call site uses a pattern all of whose top-level alternatives start with ^')
    ctx.note('patterns folded', len(P.patterns))
    ctx.note('alphabet blocks', A.n)
    ctx.floor('patterns folded from codes.py', len(P.patterns), 20)
    ctx.extra['trusted_base'] = ['CPython sre parser (re._parser)', 'sa/rx.py + sa/regops.py automata engine '
                                 '(cross-validated against re.match in selftest)', 'sa/fold.py constant folder',
                                 'the part lists UNIONS/KINDS transcribed from the property statement']
    ctx.extra['exhaustive'] = True
    codes = 'athlib/codes.py'
    for nm in sorted(P.ignorecase):
        ctx.info('%s is compiled with re.IGNORECASE; composites are built from .pattern text, which drops the flag' % nm)
        ctx.assume('re.IGNORECASE is modelled by closing character sets under the case partners of their explicit members')

    # ---- O1..O7 unions
    for comp, parts in UNIONS:
        L = P.dfa(comp)
        U = union_of(P, parts)
        ok1, w1 = P.subset(L, U)
        ok2, w2 = P.subset(U, L)
        desc = '%s == %s' % (comp, ' | '.join(parts))
        if ok1 and ok2:
            ctx.ok('O-union', desc, {'dfa_states': L.nstates})
        else:
            if not ok1:
                ctx.finding('O-union', '%s accepts more than its parts' % comp, codes, None,
                            '%s accepts %r which none of %s accepts' % (comp, w1, ', '.join(parts)), w1)
            if not ok2:
                lost = [p for p in parts if w2 is not None and rx.accepts(P.dfa(p), w2)]
                ctx.finding('O-union', '%s lost part of %s' % (comp, '/'.join(lost) or 'its parts'), codes, None,
                            '%s rejects %r which %s accepts' % (comp, w2, ', '.join(lost)), w2)
    # ---- O8..O13 kinds pairwise disjoint
    kinds = {k: union_of(P, v) for k, v in KINDS.items()}
    names = sorted(kinds)
    for i, a in enumerate(names):
        for b in names[i + 1:]:
            w = P.wit(rx.inter(kinds[a], kinds[b]))
            if w is None:
                ctx.ok('O-disjoint', '%s ∩ %s = ∅' % (a, b))
            else:
                fa = [p for p in KINDS[a] if rx.accepts(P.dfa(p), w)]
                fb = [p for p in KINDS[b] if rx.accepts(P.dfa(p), w)]
                ctx.finding('O-disjoint', 'kinds %s and %s overlap (%s vs %s)' % (a, b, '/'.join(fa), '/'.join(fb)),
                            codes, None, '%r is both a %s event (%s) and a %s event (%s)' % (
                                w, a, ', '.join(fa), b, ', '.join(fb)), w)
    # every family of the general pattern belongs to exactly one kind or is a custom-scoring family
    ctx.sample({'kinds': {k: P.wit(v) for k, v in kinds.items()}})

    # ---- O14.. dispatch order of classifiers
    n_chains = 0
    n_search = 0
    for rel in CLASSIFIER_FILES:
        mod = repo.module(rel)
        for q, fn in mod.functions.items():
            # .search call sites
            for n in ast.walk(fn):
                pt = pattern_test(n) if isinstance(n, ast.Call) else None
                if pt and pt[1] == 'search':
                    n_search += 1
                    alts = top_alternatives(P.need(pt[0]))
                    anchored = alts is not None
                    if not anchored:
                        # fall back: every alternative of a top-level branch begins with AT_BEGINNING
                        top = list(P.need(pt[0]))
                        anchored = bool(top) and top[0][0] is sc.AT
                    if anchored:
                        ctx.ok('O-search', '%s::%s %s.search ≡ match' % (rel, q, pt[0]))
                    else:
                        ctx.finding('O-search', '%s::%s::%s.search' % (rel, q, pt[0]), rel, n.lineno,
                                    '%s.search() on a pattern that is not anchored at the start: search and match differ' % pt[0])
            chains_here = list(if_chains(fn))
            if not chains_here and 1 <= len([a for a in fn.args.args if a.arg not in ('self', 'cls')]) <= 1:
                # a classifier not written as an if-chain / loop over a literal table (a named table, next(...), tests merged with `or`):
                # its decision list is reconstructed by probing the folded function
                try:
                    from .. import fold as _fold2
                    tab_, none_out = _fold2.probe_first_match(fn, dict(repo.folded(rel)[0]), None)
                except Exception:
                    tab_ = []
                if len(tab_) >= 2 and all(isinstance(nm_, str) and nm_ in P.parsed for nm_, _r, _o in tab_):
                    n_chains += 1
                    tests_ = result_classes(repo, fn.name)
                    for i in range(len(tab_)):
                        for j in range(i + 1, len(tab_)):
                            (pi, _ri, oi), (pj, _rj, oj) = tab_[i], tab_[j]
                            if oi == oj:
                                continue
                            if tests_ and None not in tests_ and oi[0] == oj[0] == 'returns' and all((oi[1] in t) == (oj[1] in t) for t in tests_):
                                continue        # the callers treat the two answers alike (e.g. track and road are both timed)
                            Li, Lj = P.dfa(pi), P.dfa(pj)
                            w = P.wit(rx.inter(Li, Lj))
                            desc = '%s::%s probed classifier: %s before %s' % (rel, q, pi, pj)
                            if w is None:
                                ctx.ok('O-dispatch', desc, 'disjoint')
                                continue
                            sub, w2 = P.subset(Li, Lj)
                            if sub:
                                ctx.ok('O-dispatch', desc, 'earlier ⊆ later (specific before general)')
                            else:
                                ctx.finding('O-dispatch', '%s::%s::%s/%s' % (rel, q, pi, pj), rel, fn.lineno,
                                            'arms %s and %s give different results but both match %r, and %s is not the more specific one '
                                            '(%r is only in %s): the answer depends on the order' % (pi, pj, w, pi, w2, pi), w)
            for kind, arg, arms, node in chains_here:
                n_chains += 1
                tests = result_classes(repo, fn.name) if kind == 'loop classifier' else []

                def equivalent(b1, b2):
                    d1 = [ast.dump(s) for s in b1]
                    d2 = [ast.dump(s) for s in b2]
                    if d1 == d2:
                        return True
                    if kind == 'loop classifier' and tests and None not in tests:
                        c1, c2 = b1[0].value.value, b2[0].value.value
                        return all((c1 in t) == (c2 in t) for t in tests)
                    return False
                for i in range(len(arms)):
                    for j in range(i + 1, len(arms)):
                        pi, bi, ni = arms[i]
                        pj, bj, nj = arms[j]
                        if pi is None or pj is None or equivalent(bi, bj):
                            continue
                        Li, Lj = P.dfa(pi), P.dfa(pj)
                        w = P.wit(rx.inter(Li, Lj))
                        desc = '%s::%s %s: %s before %s' % (rel, q, kind, pi, pj)
                        if w is None:
                            ctx.ok('O-dispatch', desc, 'disjoint')
                            continue
                        sub, w2 = P.subset(Li, Lj)
                        if sub:
                            ctx.ok('O-dispatch', desc, 'earlier ⊆ later (specific before general)')
                        else:
                            ctx.finding('O-dispatch', '%s::%s::%s/%s' % (rel, q, pi, pj), rel, ni.lineno,
                                        'arms %s and %s give different results but both match %r, and %s is not the '
                                        'more specific one (%r is only in %s): the answer depends on the order' % (
                                            pi, pj, w, pi, w2, pi), w)
    ctx.note('first-match classifier chains analysed', n_chains)
    ctx.note('.search call sites', n_search)
    ctx.floor('first-match classifier chains', n_chains, 4)

    if ctx.tier == 'thorough':
        from ..xval import cross_validate
        n = cross_validate(P, sorted(P.patterns), ctx)
        ctx.assume('thorough: the automata agree with re.match on %d strings derived from the automata themselves '
                   '(validates the trusted base, not the property)' % n)
