"""C11 — table-based junior scoring reproduces the published tables (internal consistency, exact reading)."""
import ast

from .. import rx, regops as ro, tables
from ..core import AnalysisError
from ..grid import FnGrid
from ..normint import NormInterp
from ..pats import Pats, find_group
from ..src import call_name, stmt_key, unparse
from . import c07

LEVEL = 'other'
TYR = 'athlib/tyrving_score.py'
QK = 'athlib/qkids_score.py'
SH = 'athlib/sportshall_score.py'
BUL = 'athlib/bulgarian_score.py'
UTILS = 'athlib/utils.py'
GRID_FUNCS = [(BUL, 'score'), (SH, 'score_high_event'), (SH, 'score_low_event'), (SH, 'sportshall_score'), (QK, 'qkids_score'),
              (TYR, 'TyrvingCalculator.race_points'), (TYR, 'TyrvingCalculator.jump_points'), (TYR, 'TyrvingCalculator.stav_points')]
PURE_STR = {'replace', 'strip', 'lstrip', 'rstrip', 'upper', 'lower', 'title', 'format', 'join', 'split', 'zfill', 'casefold', 'capitalize'}


def run(ctx, repo):
    P = Pats(repo)
    ctx.explanation = (
        'GRID float-grid hazard lint on every junior scoring function (no floor/int of an unguarded float scaling of the '
        'mark; accepted guards: round(.,n), additive epsilon <= 1e-4, Decimal arithmetic), exhaustive order/bounds checks of '
        'every table (shared with C05), membership of every table key in L(PAT_EVENT_CODE) and in the image of the '
        'normaliser (so the entry is reachable through the public function, which normalises first), input-form parity of '
        'the sibling *_points methods, and value-correctness of the unit conversions of load_data for every literal.  '
        'Equality with the published tables cannot be decided offline.')
    ctx.rule('R1', 'every table column is ordered / bounded (Sportshall Decimals, Bulgarian integer keys)')
    ctx.rule('R2', 'GRID: no floor/int/floor-division of an unguarded float scaling of the mark')
    ctx.rule('R3', 'every Tyrving / QuadKids table key is an accepted event code in normal form; Sportshall dispatch list within the table')
    ctx.rule('R4', 'input-form parity: no discarded result of a pure str method; text marks get the same conversions in sibling methods')
    ctx.rule('R5', 'unit conversions of load_data are value-correct for every literal')
    ctx.rule('R6', '(cross-reference) dead definitions')
    ctx.rule('R7', 'the Tyrving race / jump / piecewise formulas (hand-timing adjustment included) and the QuadKids formula have the reference '
                   'symbolic normal form (spec/junior_formulas.json): constants, branches, clamps and operands')
    # ---- R1
    probs, n_sh, db, high = tables.sportshall_problems(repo)
    seen = set()
    for kind, code, msg, w in probs:
        if kind == 'dispatch':
            ctx.finding('R3', '%s::sportshall_score::dispatch list %s' % (SH, code), SH, None, msg, w)
        elif (kind, code) not in seen:
            seen.add((kind, code))
            ctx.finding('R1', '%s::table %s::%s' % (SH, code, kind), SH, None, msg, w)
    bprobs, n_b, scores = tables.bulgarian_problems(repo)
    for kind, key, msg, w in bprobs:
        if kind != 'dead' and (kind, key) not in seen:
            seen.add((kind, key))
            ctx.finding('R1', '%s::scores %s::%s' % (BUL, key, kind), BUL, None, msg, w)
    try:
        for msg in tables.bulgarian_clamps(repo):
            ctx.finding('R1', '%s::score::clamp orientation' % BUL, BUL, None, msg)
    except AnalysisError as e_:
        ctx.info('clamp arms not in the recognised shape (%s); decided by the decision table below' % e_)
    # decision table of score() over the complete tabulated domain and the marks beyond both ends (the function is folded)
    dt, n_dt = tables.bulgarian_decision_table(repo)
    ctx.count('Bulgarian (table, mark) cells folded through score()', n_dt)
    ctx.floor('Bulgarian decision-table cells', n_dt, 3000)
    for key_, msg_, w_ in dt:
        ctx.finding('R1', '%s::score::decision table %s' % (BUL, key_), BUL, None, msg_, w_)
    if not dt:
        ctx.ok('R1', 'score() equals the table on all %d tabulated marks and is 0 / 150 beyond the worst / best end' % n_dt)
    if not seen:
        ctx.ok('R1', 'Sportshall (%d cells) and Bulgarian (%d cells) tables ordered and bounded' % (n_sh, n_b))
    ctx.count('table cells checked', n_sh + n_b)
    ctx.floor('table cells checked', n_sh + n_b, 30000)
    # ---- R2 GRID
    n_sites = 0
    for rel, q in GRID_FUNCS:
        mod = repo.module(rel)
        fn = mod.func(q)
        occ = {}
        for node, status, desc in FnGrid(fn).sites():
            n_sites += 1
            k = stmt_key(node)
            occ[k] = occ.get(k, 0) + 1
            if status == 'hazard':
                ctx.finding('R2', '%s::%s::%s#%d' % (rel, q, k, occ[k]), rel, node.lineno,
                            '%s: whether the mark lands on the right table row / step depends on its binary representation '
                            '(int(100*x) is one less than 100x for about 1 decimal in 12)' % desc)
            else:
                ctx.ok('R2', '%s::%s: %s guarded (%s)' % (rel, q, k[:50], desc))
    ctx.floor('rounding sites in the junior scoring functions', n_sites, 4)
    # Decimal(<the mark as passed in>): exact for text, but for a float it is the exact value of the BINARY number (Decimal(2.4) is
    # 2.399999999999999911182158029987...), so a mark on a table threshold falls on the wrong side of it when it is given as a number
    n_dec = 0
    for rel_ in sorted({r for r, _q in GRID_FUNCS}):
        m_ = repo.module(rel_)
        for q_, f_ in m_.functions.items():
            if q_.startswith('_'):
                continue
            params_ = {a.arg for a in f_.args.args + f_.args.kwonlyargs} - {'self'}
            rebound_ = {}
            for n_ in ast.walk(f_):
                if isinstance(n_, ast.Assign) and len(n_.targets) == 1 and isinstance(n_.targets[0], ast.Name) and n_.targets[0].id in params_:
                    rebound_.setdefault(n_.targets[0].id, []).append(n_)
            for c_ in ast.walk(f_):
                if isinstance(c_, ast.Call) and call_name(c_) in ('Decimal', 'D') and len(c_.args) == 1 and isinstance(c_.args[0], ast.Name) \
                        and c_.args[0].id in params_:
                    nm_ = c_.args[0].id
                    # the parameter was turned into text before (perf = str(perf) / '%s' % perf / repr)?
                    texted = any(a_.lineno < c_.lineno and isinstance(a_.value, (ast.Call, ast.BinOp, ast.JoinedStr)) and (
                        (isinstance(a_.value, ast.Call) and call_name(a_.value) in ('str', 'repr', 'format')) or isinstance(a_.value, ast.JoinedStr) or (
                            isinstance(a_.value, ast.BinOp) and isinstance(a_.value.op, ast.Mod) and isinstance(a_.value.left, ast.Constant)))
                        for a_ in rebound_.get(nm_, []))
                    n_dec += 1
                    if texted:
                        ctx.ok('R2', '%s::%s: Decimal(%s) of the mark as text' % (rel_, q_, nm_))
                    else:
                        ctx.finding('R2', '%s::%s::Decimal of the raw mark' % (rel_, q_), rel_, c_.lineno,
                                    '%s converts the mark with Decimal(%s) as it was passed in: for a float this is the exact binary value, so a mark on a '
                                    'threshold (2.4 m) is below it as a number and on it as text - the points depend on the input form'
                                    % (q_, nm_), "sportshall_score('SLJ', 2.4) vs '2.40'")
    # ---- R3 keys: accepted and in normal form
    D = P.dfa('PAT_EVENT_CODE')
    D_REL = P.dfa('PAT_RELAYS')
    utils = repo.module(UTILS)
    gn = c07.read_gnorms(utils)
    EC = P.need('PAT_EVENT_CODE')
    gidx = dict(EC.state.groupdict)
    fns = {q: f for q, f in utils.functions.items() if '.' not in q}
    ni = NormInterp(P, fns)
    S = c07.read_slots(P, utils)
    N = {}
    for g, fname in gn.items():
        if g in gidx:
            GL = P.exact(find_group(list(EC), gidx[g]))
            N[g] = ni.apply(fname, rx.diff(ro.strip_both(GL, P.WS), P.EPS))
    names = {v: k for k, v in gidx.items()}
    OUT = c07.out_lang(P, list(EC), names, N, S.removed)
    keys = []
    for g, t in repo.const(TYR, '_tyrvingTables').items():
        keys += [('tyrving %s' % g, TYR, k) for k in t]
    for c, t in repo.const(QK, '_qkidsTables').items():
        keys += [('qkids %s' % c, QK, k) for k in t]
    done = set()
    for lab, rel, k in keys:
        if (rel, k) in done:
            continue
        done.add((rel, k))
        if not rx.accepts(D, k):
            ctx.finding('R3', '%s::table key %s not an event code' % (rel, k), rel, None,
                        'the %s key %r is not an accepted event code: normalize_event_code refuses it and the entry is unreachable' % (lab, k), k)
        elif rx.accepts(D_REL, k):
            head, _, leg = k.partition('x') if 'x' in k else k.partition('X')
            if 'X' in k.split(leg)[0] or leg != leg.upper():
                ctx.finding('R3', '%s::table key %s not normalised' % (rel, k), rel, None,
                            'the %s relay key %r is not in normal form (NxLEG with upper-case leg)' % (lab, k), k)
        elif not rx.accepts(OUT, k):
            ctx.finding('R3', '%s::table key %s not normalised' % (rel, k), rel, None,
                        'the %s key %r is an event code but not in normal form: the public function normalises the code before '
                        'the lookup, so the entry is never found' % (lab, k), k)
    ctx.count('scoring-table keys checked for reachability', len(done))
    ctx.floor('scoring-table keys checked', len(done), 80)
    if not any(f.rule == 'R3' for f in ctx.findings):
        ctx.ok('R3', 'all %d Tyrving / QuadKids keys are accepted and in normal form' % len(done))
    # the alias map of qkids points at existing tables
    cmap = repo.const(QK, '_compTypeMap')
    qt = repo.const(QK, '_qkidsTables')
    for a, t in cmap.items():
        if t not in qt:
            ctx.finding('R3', '%s::_compTypeMap::%s' % (QK, a), QK, None, 'competition type alias %r points at %r, which is not a table' % (a, t))
    # ---- R4 discarded pure str results; sibling parity of the text conversion
    n_expr = 0
    for rel in (TYR, QK, SH, BUL):
        mod = repo.module(rel)
        for q, fn in mod.functions.items():
            for st in ast.walk(fn):
                if isinstance(st, ast.Expr) and isinstance(st.value, ast.Call) and isinstance(st.value.func, ast.Attribute) \
                        and st.value.func.attr in PURE_STR:
                    n_expr += 1
                    ctx.finding('R4', '%s::%s::discarded %s' % (rel, q, stmt_key(st)), rel, st.lineno,
                                'the result of the pure string method %s is discarded: the conversion has no effect '
                                "(a mark typed with a decimal comma, '12,5', is not converted here but is in the sibling methods)" % unparse(st.value),
                                "'12,5'")
    cls = repo.module(TYR).cls('TyrvingCalculator')
    conv = {}
    for f in cls.body:
        if isinstance(f, ast.FunctionDef) and f.name.endswith('_points') and f.name != 'bad_points':
            has = any(isinstance(n, ast.Assign) and isinstance(n.value, ast.Call) and "replace(',', '.')" in ast.unparse(n.value) for n in ast.walk(f)) \
                or any(isinstance(n, ast.Call) and call_name(n) == 'float' and "replace(',', '.')" in ast.unparse(n) for n in ast.walk(f))
            conv[f.name] = has
    if conv and all(conv.values()):
        ctx.ok('R4', 'every *_points method converts a decimal comma in text marks: %s' % sorted(conv))
    elif conv and not any(f.rule == 'R4' for f in ctx.findings):
        ctx.finding('R4', '%s::TyrvingCalculator::decimal comma parity' % TYR, TYR, cls.lineno,
                    'the *_points methods disagree on converting a decimal comma in text marks: %s' % conv)
    # the mark (a Decimal) is compared only with Decimals: a comparison with the raw table text is always False / raises
    shmod = repo.module(SH)
    for q in ('score_high_event', 'score_low_event'):
        fn = shmod.func(q)
        dec = {a.arg for a in fn.args.args if a.annotation is not None and ast.unparse(a.annotation) == 'Decimal'}
        for n in ast.walk(fn):
            if isinstance(n, ast.Assign) and isinstance(n.value, ast.Call) and call_name(n.value) == 'Decimal':
                for t in n.targets:
                    if isinstance(t, ast.Name):
                        dec.add(t.id)
        for n in ast.walk(fn):
            if isinstance(n, ast.Compare) and len(n.ops) == 1:
                l, r = n.left, n.comparators[0]
                for a, b in ((l, r), (r, l)):
                    if isinstance(a, ast.Name) and a.id in dec and a.id == fn.args.args[0].arg:
                        b_ok = (isinstance(b, ast.Name) and b.id in dec) or (isinstance(b, ast.Call) and call_name(b) == 'Decimal')
                        if not b_ok:
                            ctx.finding('R4', '%s::%s::%s compares the mark with a non-Decimal' % (SH, q, unparse(n)), SH, n.lineno,
                                        '%s compares the Decimal mark with %s, which is not a Decimal (the table cells are text): the comparison '
                                        'is never true, so a mark exactly on that threshold takes the wrong branch' % (q, unparse(b)), 'the 80-point mark itself')
                        else:
                            ctx.ok('R4', '%s: %s compares Decimals' % (q, unparse(n)))
    # ---- R5 conversions
    cprobs, n_conv = tables.sportshall_conversions(repo, db)
    by_code = {}
    for code, msg, w in cprobs:
        by_code.setdefault(code, []).append((msg, w))
    for code, ms in sorted(by_code.items()):
        ctx.finding('R5', '%s::load_data::conversion of %s' % (SH, code), SH, None,
                    '%s (%d cells of this column)' % (ms[0][0], len(ms)), ms[0][1])
    ctx.count('converted literals compared with the raw table', n_conv)
    ctx.floor('converted literals', n_conv, 700)
    if not cprobs:
        ctx.ok('R5', 'all %d converted cells equal the raw literals in their units' % n_conv)
    # ---- R6 dead definitions (information only)
    for rel in (SH, BUL, QK, TYR):
        mod = repo.module(rel)
        assigned = {t.id: st for st in mod.tree.body if isinstance(st, ast.Assign) for t in st.targets if isinstance(t, ast.Name)}
        used = {n.id for n in ast.walk(mod.tree) if isinstance(n, ast.Name) and isinstance(n.ctx, ast.Load)}
        for nm in sorted(set(assigned) - used):
            if nm.startswith('__') or nm in ('RAWDATA',):
                continue
            ctx.info('%s: module-level %s is defined and never used (cross-reference)' % (rel, nm))

    # ---- R4b the m:ss.xx text form: every system whose tables hold times of a minute or more converts the mark of its timed events
    # with parse_hms (float() refuses a colon).  Which functions must do so is read from the data: Bulgarian timed tables reach 60 s,
    # QuadKids run rows do, Tyrving race standards do
    need = []
    bsc = repo.const(BUL, 'scores')
    if any(isinstance(t, dict) and isinstance(t.get('min'), int) and isinstance(t.get('max'), int) and t['min'] > t['max'] and t['min'] >= 6000
           for t in bsc.values()):
        need.append((BUL, 'score'))
    need += [(QK, 'qkids_score'), (TYR, 'TyrvingCalculator.race_points')]
    for rel_, q_ in need:
        f_ = repo.module(rel_).func(q_)
        marks = {a.arg for a in f_.args.args} - {'self'}
        # names derived from the parameters by plain re-binding (v = perf; v = v.replace(...))
        derived = set(marks)
        for _ in range(3):
            for n in ast.walk(f_):
                if isinstance(n, ast.Assign) and len(n.targets) == 1 and isinstance(n.targets[0], ast.Name) \
                        and any(isinstance(x, ast.Name) and x.id in derived for x in ast.walk(n.value)):
                    derived.add(n.targets[0].id)
        calls = [c for c in ast.walk(f_) if isinstance(c, ast.Call) and call_name(c) == 'parse_hms' and c.args
                 and any(isinstance(x, ast.Name) and x.id in derived for x in ast.walk(c.args[0]))]
        if calls:
            ctx.ok('R4', '%s: the mark of a timed event goes through parse_hms (m:ss.xx text is a documented form)' % q_)
        else:
            ctx.finding('R4', '%s::%s::timed marks not parsed as m:ss' % (rel_, q_), rel_, f_.lineno,
                        '%s no longer converts the mark of its timed events with parse_hms; its tables hold times of a minute and more, and the '
                        "documented text form '1:55.31' is refused by float()" % q_, "'1:55.31'")
    from .c06 import parse_value_guards
    parse_value_guards(ctx, repo, 'R4')
    # ---- R7 formula shape: the symbolic normal form of each linear / piecewise-linear formula equals the reference form
    import json as _json
    import os as _os
    from .. import symx
    from ..core import VERIF as _V
    with open(_os.path.join(_V, 'spec', 'junior_formulas.json')) as f_:
        ref = _json.load(f_)['formulas']
    n_f = 0
    for key, want in sorted(ref.items()):
        rel, q = key.split('::')
        fn_ = repo.module(rel).func(q)
        eff = []
        got = symx.py_returns(fn_, eff)
        texts = [x[1] for x in got]
        if None in texts:
            raise AnalysisError('%s: a return is outside the symbolic fragment (%s)' % (q, [x[2] for x in got if x[1] is None][0]))
        n_f += len(texts)
        eff = sorted(list(x) for x in eff)
        if texts != want['returns']:
            ctx.finding('R7', '%s::%s::formula' % (rel, q), rel, fn_.lineno,
                        '%s no longer computes the reference formula: it returns %s; the reference is %s' % (
                            q, [t for t in texts if t not in want['returns']] or texts, [t for t in want['returns'] if t not in texts] or want['returns']),
                        {'returns': texts})
        elif eff != want['effects']:
            ctx.finding('R7', '%s::%s::conditional adjustments' % (rel, q), rel, fn_.lineno,
                        '%s adjusts the mark differently from the reference: now %s; reference %s' % (
                            q, [e for e in eff if e not in want['effects']], [e for e in want['effects'] if e not in eff]))
        else:
            ctx.ok('R7', '%s: %d return form(s), %d conditional adjustment(s) equal the reference normal form' % (q, len(texts), len(eff)))
    ctx.floor('reference formulas compared', n_f, 5)
    # the kinds that share the piecewise formula still do
    tc = repo.module('athlib/tyrving_score.py').cls('TyrvingCalculator')
    alias = {st.targets[0].id: st.value.id for st in tc.body if isinstance(st, ast.Assign) and isinstance(st.targets[0], ast.Name)
             and isinstance(st.value, ast.Name)}
    if alias.get('throw_points') == 'stav_points' and alias.get('pv_points') == 'stav_points':
        ctx.ok('R7', 'throw and pole-vault kinds use the piecewise (stav) formula')
    else:
        defined = {f.name for f in tc.body if isinstance(f, ast.FunctionDef)}
        if not {'throw_points', 'pv_points'} <= defined | set(alias):
            ctx.finding('R7', 'athlib/tyrving_score.py::TyrvingCalculator::kind dispatch', 'athlib/tyrving_score.py', tc.lineno,
                        'the throw / pv kinds no longer have a points method (%s)' % alias)
        else:
            ctx.info('throw / pv kinds have their own methods now: %s' % alias)

