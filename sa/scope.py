"""Scope of rule HIST per property: the functions whose answers the property speaks about, i.e. the call-graph closure of the
property's entry points.  An entry is a whole file (the file is dedicated to the subject) or `file::qualname`.  The closure
follows resolved calls (sa/callgraph.py) and, conservatively, every load of a name that denotes a function (a function passed
as `key=`, stored in a dispatch table, ...), and takes in every method of a class one of whose methods is reached."""
import ast

from .callgraph import Graph

U = 'athlib/utils.py'
AG = 'athlib/wma/agegrader.py'
INIT = 'athlib/__init__.py'
ATH = 'athlib/athlon_score.py'
HJ = 'athlib/highjump.py'

ROOTS = {
    'C01': [ATH + '::score', AG + '::AthlonsAgeGrader.calculate_factor', INIT + '::wma_athlon_age_factor'],
    'C02': [HJ],
    'C03': [HJ],
    'C04': ['athlib/codes.py'],
    'C05': [ATH, 'athlib/hungarian_score.py', 'athlib/tyrving_score.py', 'athlib/qkids_score.py', 'athlib/sportshall_score.py',
            'athlib/bulgarian_score.py'],
    'C06': [U + '::round_up_str_num', U + '::format_seconds_as_time', U + '::parse_hms', U + '::str2num'],
    'C07': [U + '::normalize_event_code', U + '::check_event_code', U + '::_norm_tzeroes', U + '::_norm_cm', U + '::_norm_m',
            U + '::_norm_kg', U + '::_norm_g', 'athlib/codes.py'],
    'C08': [HJ],
    'C09': [ATH],
    'C10': [U + '::discipline_sort_key', U + '::text_discipline_sort_key', U + '::sort_by_discipline', U + '::get_distance',
            U + '::get_duration_event_time', '?' + U + '::_field_sort_order', AG + '::AgeGrader.event_code_to_kind', 'athlib/codes.py'],
    'C11': ['athlib/tyrving_score.py', 'athlib/qkids_score.py', 'athlib/sportshall_score.py', 'athlib/bulgarian_score.py'],
    'C12': [U + '::check_performance_for_discipline', U + '::parse_hms', U + '::get_distance', U + '::field_event_record',
            U + '::format_seconds_as_time', 'athlib/codes.py'],
    'C13': ['athlib/uka/agegroups.py'],
    'C14': [AG, INIT],
    'C15': [AG, U + '::get_distance', INIT + '::wma_age_factor', INIT + '::wma_world_best'],
    'C17': ['athlib/implements.py', U + '::check_event_code', U + '::normalize_event_code', 'athlib/uka/agegroups.py', 'athlib/codes.py'],
    'C18': [U + '::round_up_str_num', U + '::format_seconds_as_time', U + '::parse_hms', U + '::str2num', U + '::is_hand_timing',
            U + '::normalize_event_code', U + '::get_distance', 'athlib/tyrving_score.py', 'athlib/qkids_score.py'],
    'C19': [U + '::schema_valid', U + '::valid_against_schema', U + '::_add_to_cache', U + '::localpath', U + '::LocalFileResolver.resolve_from_url'],
}


def hist_scope(repo, pid):
    """{(rel, qualname)} or None when the property has no table (then the caller falls back to whole anchor files)"""
    roots = ROOTS.get(pid)
    if roots is None:
        return None
    rels = [m.rel for m in repo.all_python() if m.rel.startswith('athlib/')]
    g = Graph(repo, rels)
    entries = []
    missing = []
    for r in roots:
        optional = r.startswith('?')        # a helper that exists only on some trees (reached through the closure anyway when it exists)
        r = r.lstrip('?')
        if optional and ('::' in r) and not (r.split('::')[0] in g.mods and r.split('::')[1] in g.mods[r.split('::')[0]].functions):
            continue
        if '::' in r:
            rel, q = r.split('::')
            if rel in g.mods and q in g.mods[rel].functions:
                entries.append((rel, q))
            else:
                missing.append(r)
        elif r in g.mods:
            entries += [(r, q) for q in g.mods[r].functions]
        else:
            missing.append(r)
    scope = set()
    work = list(entries)
    while work:
        key = work.pop()
        if key in scope:
            continue
        scope.add(key)
        rel, q = key
        fn = g.mods[rel].functions[q]
        cls = q.split('.')[0] if '.' in q else None
        nxt = []
        resolved = set()
        try:
            for (ck, _c, _k, _n) in g.callees(key, cls, None):
                nxt.append(ck)
                resolved.add(id(_n))
        except Exception:
            pass
        # every load of a name that denotes a function or class (function values, dispatch tables, constructors)
        for n in ast.walk(fn):
            if isinstance(n, ast.Name) and isinstance(n.ctx, ast.Load):
                r = g.resolve_name(rel, n.id)
                if r is None:
                    continue
                if r[1] in g.mods.get(r[0], g.mods[rel]).functions:
                    nxt.append(r)
                if r[1] in g.classes:
                    crel, cnode = g.classes[r[1]]
                    nxt += [(crel, '%s.%s' % (r[1], f.name)) for f in cnode.body if isinstance(f, ast.FunctionDef)]
            # attribute calls on unresolved receivers: any method of that name in a class already in scope's modules
            if isinstance(n, ast.Call) and isinstance(n.func, ast.Attribute) and id(n) not in resolved and not (
                    isinstance(n.func.value, ast.Name) and n.func.value.id in ('self', 'cls')):      # self.m() is resolved by class above
                for cn, (crel, cnode) in g.classes.items():
                    for f in cnode.body:
                        if isinstance(f, ast.FunctionDef) and f.name == n.func.attr and (crel == rel or (crel, cn) in {(k[0], k[1].split('.')[0]) for k in scope}):
                            nxt.append((crel, '%s.%s' % (cn, f.name)))
        # module-level tables of functions defined in the same module and read by this function (e.g. _gnorms)
        m = g.mods[rel]
        loads = {n.id for n in ast.walk(fn) if isinstance(n, ast.Name) and isinstance(n.ctx, ast.Load)}
        for st in m.tree.body:
            if isinstance(st, ast.Assign) and any(isinstance(t, ast.Name) and t.id in loads for t in st.targets):
                for x in ast.walk(st.value):
                    if isinstance(x, ast.Name) and x.id in m.functions:
                        nxt.append((rel, x.id))
        for k in nxt:
            if k not in scope and k[0] in g.mods and k[1] in g.mods[k[0]].functions:
                work.append(k)
    return scope, missing
