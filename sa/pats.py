"""Pattern context: the compiled patterns of athlib/codes.py obtained by T-FOLD, parsed with CPython's
sre parser, over one shared alphabet partition; DFAs (whole-string language of re.match) built lazily."""
import re._parser as sp
import re._constants as sc

from . import rx, regops as ro, fold
from .core import AnalysisError

CODES = 'athlib/codes.py'
INT_PATTERN = r'^\s*[+-]?\d+(?:_\d+)*\s*$'          # domain of int(str)  (ASCII sign, Unicode decimals, underscores)
FLOAT_PATTERN = r'^\s*[+-]?(?:\d+(?:_\d+)*\.?(?:\d+(?:_\d+)*)?|\.\d+(?:_\d+)*)(?:[eE][+-]?\d+(?:_\d+)*)?\s*$'


class Pats:
    def __init__(self, repo, extra_patterns=(), extra_chars=''):
        self.repo = repo
        env, folder = repo.folded(CODES)
        self.env = env
        self.patterns = {k: v.pattern for k, v in env.items() if isinstance(v, fold.RegexConst)}
        self.flags = {k: v.flags for k, v in env.items() if isinstance(v, fold.RegexConst)}
        self.unfolded = dict(folder.unfolded)
        import re as _re
        self.ignorecase = set()
        for k, fl in list(self.flags.items()):
            if not fl:
                continue
            val = self._flag_value(fl)
            if val is None or val & ~(_re.IGNORECASE | _re.UNICODE):
                raise AnalysisError('pattern %s compiled with flags %r: outside the modelled semantics' % (k, fl))
            if val & _re.IGNORECASE:
                self.ignorecase.add(k)
        self.parsed = {}
        for k, p in self.patterns.items():
            try:
                self.parsed[k] = sp.parse(p)
            except Exception as e:
                raise AnalysisError('pattern %s does not parse: %s' % (k, e))
        self.extra = {}
        for name, p in list(extra_patterns) + [('@INT', INT_PATTERN), ('@FLOAT', FLOAT_PATTERN)]:
            self.extra[name] = sp.parse(p)
        try:
            self.A = rx.Alphabet(list(self.parsed.values()) + list(self.extra.values()),
                                 extra_chars=extra_chars + 'MILEmileXx .0123456789cmKkGgHhWwYySCsc:;,-+_eE')
        except rx.Unsupported as e:
            raise AnalysisError('unsupported regex construct: %s' % e)
        self._dfa = {}
        A = self.A
        self.ALLB = frozenset(range(A.n))
        self.WS = frozenset(b for b in range(A.n) if A.reps[b].isspace())
        self.DIG = frozenset(b for b in range(A.n) if A.reps[b].isdecimal())
        self.UM = A.upper_map()
        self.LM = self._lower_map()
        # residual blocks must be case-invariant for the upper homomorphism to be a block map
        self.ANY = ro.sigma_star_set(A, self.ALLB)
        self.EMPTY = ro.empty_lang(A)
        self.EPS = ro.const_lang(A, '')

    @staticmethod
    def _flag_value(fl):
        import re as _re
        if isinstance(fl, int):
            return fl
        if isinstance(fl, tuple) and fl[:2] == ('modattr', 're') and hasattr(_re, fl[2]):
            v = getattr(_re, fl[2])
            return int(v) if isinstance(v, (int, _re.RegexFlag)) else None
        return None

    def _lower_map(self):
        A = self.A
        m = {}
        for i, r in enumerate(A.reps):
            if A.sizes[i] == 1:
                u = r.lower()
                m[i] = A.block_of(u) if len(u) == 1 else None
            else:
                m[i] = i
        return m

    def _casemap(self, lang, mp, what):
        used = ro.used_blocks(lang)
        A = self.A
        for b in used:
            if mp[b] is None:
                raise AnalysisError('str.%s is not a letter-to-letter map on block %s' % (what, A.names[b]))
            if A.sizes[b] > 1 and not (b in self.DIG or b in self.WS):
                # residual letters may change block under case mapping (e.g. U+017F -> S): not representable
                if 'word=True' in A.names[b]:
                    raise AnalysisError('str.%s applied to a language containing unclassified letters (%s)' % (what, A.names[b]))
        return ro.relabel(lang, mp)

    def upper(self, lang):
        return self._casemap(lang, self.UM, 'upper')

    def lower(self, lang):
        return self._casemap(lang, self.LM, 'lower')

    def UM_total(self):
        return {b: (t if t is not None else b) for b, t in self.UM.items()}

    def need(self, name):
        if name not in self.parsed:
            why = self.unfolded.get(name, 'not defined in codes.py')
            raise AnalysisError('anchor vanished: pattern %s (%s)' % (name, why))
        return self.parsed[name]

    def dfa(self, name):
        """DFA of {s : PAT.match(s)} (prefix match, $ semantics) for a codes.py pattern or an extra one"""
        if name not in self._dfa:
            p = self.extra[name] if name in self.extra else self.need(name)
            try:
                if name in self.ignorecase:
                    # re.IGNORECASE: every character set is closed under the case partners of its explicit members
                    # (the handful of special Unicode foldings, U+0131 U+0130 U+017F U+212A, is not modelled)
                    n = CaseNFA(self.A, self.UM, self.LM)
                    n.final = n.build(list(p), n.start)
                    self._dfa[name] = rx.determinize(n)
                else:
                    self._dfa[name] = rx.determinize(rx.nfa_of(p, self.A))
            except rx.Unsupported as e:
                raise AnalysisError('unsupported regex construct in %s: %s' % (name, e))
        return self._dfa[name]

    def dfa_of_pattern(self, text):
        """DFA for an ad-hoc pattern whose character classes are already refined by the alphabet"""
        return rx.determinize(rx.nfa_of(sp.parse(text), self.A))

    # ---- small helpers
    def is_empty(self, d):
        return rx.witness(d) is None

    def wit(self, d):
        w = rx.witness(d)
        return None if w is None else rx.show(self.A, w)

    def const(self, s):
        return ro.const_lang(self.A, s)

    def finite(self, strings):
        lang = self.EMPTY
        for s in strings:
            lang = rx.union(lang, ro.const_lang(self.A, s))
        return lang

    def blocks_of(self, chars):
        return frozenset(self.A.block_of(c) for c in chars)

    def subset(self, a, b):
        """(holds, witness in a \\ b)"""
        w = rx.witness(rx.diff(a, b))
        return (w is None), (None if w is None else rx.show(self.A, w))

    def equal(self, a, b):
        ok1, w1 = self.subset(a, b)
        ok2, w2 = self.subset(b, a)
        return ok1 and ok2, w1, w2

    def exact(self, nodes):
        """language of an sre node list matched exactly (anchors treated as epsilon)"""
        n = rx.NFA(self.A)
        f = n.build(list(nodes), n.start)
        return self.to_enfa(n, f).determinize()

    def to_enfa(self, n, final, start=None):
        e = ro.ENFA(self.A)
        for _ in n.eps:
            e.new()
        for s in range(len(n.eps)):
            for t in n.eps[s] + n.bol[s] + n.eol[s] + n.eos[s]:
                e.edge(s, None, t)
            for blocks, t in n.trans[s]:
                for b in blocks:
                    e.edge(s, b, t)
        e.starts.add(n.start if start is None else start)
        e.accepts.add(final)
        return e

    def group_index(self, pat, k):
        p = self.need(pat)
        if isinstance(k, str):
            if k not in p.state.groupdict:
                raise AnalysisError('group %r not in %s' % (k, pat))
            return p.state.groupdict[k]
        return k


class CaseNFA(rx.NFA):
    def __init__(self, alpha, um, lm):
        super().__init__(alpha)
        self.um, self.lm = um, lm

    def build1(self, node, s):
        op, av = node
        if op in (sc.LITERAL, sc.NOT_LITERAL, sc.IN, sc.ANY):
            t = self.new()
            blocks = set(self.alpha.blocks_of_set(rx.charset_of(node)))
            for b in list(blocks):
                for mp in (self.um, self.lm):
                    if mp.get(b) is not None:
                        blocks.add(mp[b])
            self.trans[s].append((frozenset(blocks), t))
            return t
        return super().build1(node, s)


def find_group(nodes, gid):
    for op, av in nodes:
        if op is sc.SUBPATTERN:
            if av[0] == gid:
                return av[3]
            r = find_group(av[3], gid)
            if r is not None:
                return r
        elif op is sc.BRANCH:
            for alt in av[1]:
                r = find_group(alt, gid)
                if r is not None:
                    return r
        elif op in (sc.MAX_REPEAT, sc.MIN_REPEAT):
            r = find_group(av[2], gid)
            if r is not None:
                return r
    return None


def replace_group(nodes, gid, repl):
    out = []
    for op, av in nodes:
        if op is sc.SUBPATTERN:
            if av[0] == gid:
                out.append(repl)
            else:
                out.append((op, (av[0], av[1], av[2], replace_group(av[3], gid, repl))))
        elif op is sc.BRANCH:
            out.append((op, (av[0], [replace_group(a, gid, repl) for a in av[1]])))
        elif op in (sc.MAX_REPEAT, sc.MIN_REPEAT):
            out.append((op, (av[0], av[1], replace_group(av[2], gid, repl))))
        else:
            out.append((op, av))
    return out


# a node that matches nothing: [^\d\D]
NOTHING = (sc.IN, [(sc.NEGATE, None), (sc.CATEGORY, sc.CATEGORY_DIGIT), (sc.CATEGORY, sc.CATEGORY_NOT_DIGIT)])


def top_alternatives(parsed):
    """top-level alternatives of '^(?:a|b|...)$' shaped patterns, or None"""
    top = list(parsed)
    if len(top) >= 2 and top[0][0] is sc.AT and top[-1][0] is sc.AT:
        inner = top[1:-1]
    else:
        return None
    while len(inner) == 1 and inner[0][0] is sc.SUBPATTERN and inner[0][1][0] is None:
        inner = list(inner[0][1][3])
    if len(inner) == 1 and inner[0][0] is sc.BRANCH:
        return inner[0][1][1]
    return [inner]
