"""Symbolic normal form of the arithmetic a function returns, for Python (ast) and JavaScript (ESTree) alike.

Front ends translate expressions into a small IR; `canon` turns the IR into a polynomial over atoms with exact rational
coefficients (decimal literals are read as the decimals they spell), where an atom is a plain name, `name[k]`, or the canonical
text of something that is not polynomial: trunc(.), max(.), min(.), abs(.), a conditional ite(cond; a; b), a call.  Conditions
are normalised too (p > 0 / p >= 0 with a positive leading coefficient; negations pushed into the branches), so two programs
that compute the same piecewise-polynomial function through different temporaries, operand orders or comparison spellings get
the same text.  Local names are replaced by their definitions along straight-line code; a name assigned inside a compound
statement is an atom afterwards (its own name), which is how 'the mark after text conversion' is named on both sides.

This decides equality of formulas, not of floating-point results: + and * are treated as the exact operations."""
import ast
from fractions import Fraction

from . import jsast


class Unsupported(Exception):
    pass


# ---------------------------------------------------------------- polynomials
class Poly:
    __slots__ = ('t',)

    def __init__(self, terms=None):
        self.t = {k: v for k, v in (terms or {}).items() if v != 0}

    @staticmethod
    def const(c):
        return Poly({(): Fraction(c)})

    @staticmethod
    def atom(name):
        return Poly({((name, 1),): Fraction(1)})

    def __add__(self, o):
        t = dict(self.t)
        for k, v in o.t.items():
            t[k] = t.get(k, 0) + v
        return Poly(t)

    def scale(self, c):
        return Poly({k: v * c for k, v in self.t.items()})

    def __neg__(self):
        return self.scale(-1)

    def __sub__(self, o):
        return self + (-o)

    def __mul__(self, o):
        t = {}
        for k1, v1 in self.t.items():
            for k2, v2 in o.t.items():
                m = dict(k1)
                for a, e in k2:
                    m[a] = m.get(a, 0) + e
                k = tuple(sorted((a, e) for a, e in m.items() if e != 0))
                t[k] = t.get(k, 0) + v1 * v2
        return Poly(t)

    def is_const(self):
        return all(k == () for k in self.t)

    def value(self):
        return self.t.get((), Fraction(0))

    def inverse(self):
        if len(self.t) != 1:
            return None
        (k, v), = self.t.items()
        return Poly({tuple(sorted((a, -e) for a, e in k)): 1 / v})

    def lead(self):
        return self.t[sorted(self.t)[-1]] if self.t else Fraction(0)

    def show(self):
        if not self.t:
            return '0'
        parts = []
        for k in sorted(self.t):
            v = self.t[k]
            mono = '*'.join(a if e == 1 else '%s^%d' % (a, e) for a, e in k)
            c = str(v.numerator) if v.denominator == 1 else '%d/%d' % (v.numerator, v.denominator)
            parts.append(c if not mono else (mono if v == 1 else '%s*%s' % (c, mono)))
        return ' + '.join(parts)

    def __eq__(self, o):
        return isinstance(o, Poly) and self.t == o.t

    def __hash__(self):
        return hash(tuple(sorted(self.t.items())))


# ---------------------------------------------------------------- canonical form of the IR
FLIP = {'>': '<', '<': '>', '>=': '<=', '<=': '>=', '==': '==', '!=': '!='}
NEG = {'>': '<=', '<': '>=', '>=': '<', '<=': '>', '==': '!=', '!=': '=='}


def canon(ir):
    k = ir[0]
    if k == 'num':
        return Poly.const(ir[1])
    if k == 'sym':
        return Poly.atom(ir[1])
    if k == 'add':
        return canon(ir[1]) + canon(ir[2])
    if k == 'sub':
        return canon(ir[1]) - canon(ir[2])
    if k == 'neg':
        return -canon(ir[1])
    if k == 'mul':
        return canon(ir[1]) * canon(ir[2])
    if k == 'div':
        a, b = canon(ir[1]), canon(ir[2])
        inv = b.inverse()
        if inv is not None:
            return a * inv
        return Poly.atom('div(%s; %s)' % (a.show(), b.show()))
    if k == 'idx':
        base = ir[1]
        if base[0] == 'tuple' and isinstance(ir[2], int) and -len(base[1]) <= ir[2] < len(base[1]):
            return canon(base[1][ir[2]])
        b = canon(base)
        return Poly.atom('%s[%s]' % (b.show(), ir[2] if not isinstance(ir[2], tuple) else canon(ir[2]).show()))
    if k == 'tuple':
        return Poly.atom('(%s)' % ', '.join(canon(x).show() for x in ir[1]))
    if k == 'ite':
        # ite(a, ite(b, X, Y), Y) is ite(a and b, X, Y); ite(a, X, ite(b, X, Y)) is ite(a or b, X, Y)
        if ir[2][0] == 'ite' and canon(ir[2][3]) == canon(ir[3]):
            return canon(('ite', ('and', [ir[1], ir[2][1]]), ir[2][2], ir[3]))
        if ir[3][0] == 'ite' and canon(ir[3][2]) == canon(ir[2]):
            return canon(('ite', ('or', [ir[1], ir[3][1]]), ir[2], ir[3][3]))
        c = ccanon(ir[1])
        a, b = canon(ir[2]), canon(ir[3])
        if c == 'true':
            return a
        if c == 'false':
            return b
        if a == b:
            return a
        if isinstance(c, tuple) and c[0] == 'swap':
            c, a, b = c[1], b, a
        return Poly.atom('ite(%s; %s; %s)' % (c, a.show(), b.show()))
    if k == 'call':
        name, args = ir[1], [canon(x) for x in ir[2]]
        if name == 'id':
            return args[0]
        if name in ('max', 'min'):
            flat = sorted({a.show() for a in args})
            if len(flat) == 1:
                return args[0]
            return Poly.atom('%s(%s)' % (name, ', '.join(flat)))
        if name == 'trunc' and args[0].is_const():
            v = args[0].value()
            return Poly.const(int(v))
        return Poly.atom('%s(%s)' % (name, ', '.join(a.show() for a in args)))
    if k == 'str':
        return Poly.atom(repr(ir[1]))
    if k == 'bool':
        c = ccanon(ir[1])
        return Poly.atom('bool(%s)' % ('not(%s)' % c[1] if isinstance(c, tuple) else c))
    raise Unsupported('ir %s' % k)


def ccanon(c):
    """canonical text of a condition; ('swap', text) when the canonical condition is the negation of the given one"""
    k = c[0]
    if k == 'cmp':
        op, a, b = c[1], c[2], c[3]
        if a[0] == 'str' or b[0] == 'str':
            x, y = canon(a).show(), canon(b).show()
            if op == '!=':
                return ('swap', '%s == %s' % tuple(sorted((x, y))))
            return '%s %s %s' % (tuple(sorted((x, y)))[0], op, tuple(sorted((x, y)))[1]) if op == '==' else '%s %s %s' % (x, op, y)
        p = canon(a) - canon(b)
        if p.is_const():
            v = p.value()
            return 'true' if {'>': v > 0, '<': v < 0, '>=': v >= 0, '<=': v <= 0, '==': v == 0, '!=': v != 0}[op] else 'false'
        swap = False
        if op in ('<', '<='):
            p, op = -p, FLIP[op]
        if op == '!=':
            op, swap = '==', True
        lead = p.lead()
        p = p.scale(1 / abs(lead))
        if lead < 0:
            if op == '==':
                p = -p
            else:
                # -q > 0  ==  not (q >= 0)
                p, op, swap = -p, {'>': '>=', '>=': '>'}[op], not swap
        txt = '%s %s 0' % (p.show(), op)
        return ('swap', txt) if swap else txt
    if k == 'truthy':
        return 'truthy(%s)' % canon(c[1]).show()
    if k == 'not':
        r = ccanon(c[1])
        if r == 'true':
            return 'false'
        if r == 'false':
            return 'true'
        return r[1] if isinstance(r, tuple) else ('swap', r)
    if k in ('and', 'or'):
        parts = []
        for x in c[1]:
            r = ccanon(x)
            parts.append('not(%s)' % r[1] if isinstance(r, tuple) else r)
        return '%s(%s)' % (k, ', '.join(sorted(parts)))
    if k == 'in':
        return '%s in {%s}' % (canon(c[1]).show(), ', '.join(sorted(canon(x).show() for x in c[2])))
    raise Unsupported('cond %s' % k)


def num(v):
    if isinstance(v, bool):
        raise Unsupported('bool')
    if isinstance(v, int):
        return ('num', Fraction(v))
    if isinstance(v, float):
        return ('num', Fraction(repr(v)))
    raise Unsupported('number %r' % (v,))


# ---------------------------------------------------------------- Python front end
PY_CALLS = {'int': 'trunc', 'float': 'id', 'max': 'max', 'min': 'min', 'abs': 'abs', 'parse_hms': 'hms', 'len': 'len', 'round': 'round',
            'floor': 'floor', 'ceil': 'ceil'}
PY_CMP = {ast.Gt: '>', ast.GtE: '>=', ast.Lt: '<', ast.LtE: '<=', ast.Eq: '==', ast.NotEq: '!=', ast.Is: '==', ast.IsNot: '!='}


def py_ir(e, env):
    if isinstance(e, ast.Constant):
        if isinstance(e.value, str):
            return ('str', e.value)
        if e.value is None:
            return ('sym', 'null')
        return num(e.value)
    if isinstance(e, ast.Name):
        return env.get(e.id, ('sym', jsast.camel(e.id)))
    if isinstance(e, ast.Attribute):
        base = 'self' if isinstance(e.value, ast.Name) and e.value.id == 'self' else None
        if base:
            return ('sym', 'self.' + jsast.camel(e.attr))
        raise Unsupported('attribute')
    if isinstance(e, ast.BinOp):
        ops = {ast.Add: 'add', ast.Sub: 'sub', ast.Mult: 'mul', ast.Div: 'div'}
        if type(e.op) not in ops:
            raise Unsupported('operator')
        return (ops[type(e.op)], py_ir(e.left, env), py_ir(e.right, env))
    if isinstance(e, ast.UnaryOp):
        if isinstance(e.op, ast.USub):
            return ('neg', py_ir(e.operand, env))
        if isinstance(e.op, ast.UAdd):
            return py_ir(e.operand, env)
        if isinstance(e.op, ast.Not):
            return ('bool', py_cond(e, env))
        raise Unsupported('unary')
    if isinstance(e, ast.IfExp):
        return ('ite', py_cond(e.test, env), py_ir(e.body, env), py_ir(e.orelse, env))
    if isinstance(e, ast.BoolOp) or (isinstance(e, ast.UnaryOp) and isinstance(e.op, ast.Not)) or isinstance(e, ast.Compare):
        # a condition held in a temporary (`hand_timed = a and b`): kept as a condition, read back where the temporary is tested
        return ('bool', py_cond(e, env))
    if isinstance(e, ast.Tuple):
        return ('tuple', [py_ir(x, env) for x in e.elts])
    if isinstance(e, ast.Subscript):
        if isinstance(e.slice, ast.Constant) and isinstance(e.slice.value, int):
            return ('idx', py_ir(e.value, env), e.slice.value)
        return ('idx', py_ir(e.value, env), py_ir(e.slice, env))
    if isinstance(e, ast.Call):
        if isinstance(e.func, ast.Name) and e.func.id in PY_CALLS and not e.keywords:
            return ('call', PY_CALLS[e.func.id], [py_ir(a, env) for a in e.args])
        if isinstance(e.func, ast.Attribute) and e.func.attr == 'get' and 1 <= len(e.args) <= 2 and not e.keywords \
                and (len(e.args) == 1 or (isinstance(e.args[1], ast.Constant) and e.args[1].value is None)):
            k = e.args[0]
            return ('idx', py_ir(e.func.value, env), k.value if isinstance(k, ast.Constant) and isinstance(k.value, int) else py_ir(k, env))
        if isinstance(e.func, ast.Attribute) and e.func.attr in ('match', 'search') and len(e.args) == 1 and isinstance(e.func.value, ast.Name):
            return ('call', e.func.attr, [('sym', e.func.value.id), py_ir(e.args[0], env)])
        if any(isinstance(a, ast.Starred) for a in e.args) or any(k.arg is None for k in e.keywords):
            raise Unsupported('call %s' % ast.unparse(e.func))
        allargs = list(e.args) + [k.value for k in e.keywords]        # keyword arguments in the order written (ports pass them by position)
        if isinstance(e.func, ast.Name):
            return ('call', jsast.camel(e.func.id), [py_ir(a, env) for a in allargs])
        if isinstance(e.func, ast.Attribute) and isinstance(e.func.value, ast.Name) and e.func.value.id == 'self':
            return ('call', 'self.' + jsast.camel(e.func.attr), [py_ir(a, env) for a in allargs])
        if isinstance(e.func, ast.Attribute) and isinstance(e.func.value, ast.Call):
            return ('call', '.' + jsast.camel(e.func.attr), [py_ir(e.func.value, env)] + [py_ir(a, env) for a in allargs])
        raise Unsupported('call %s' % ast.unparse(e.func))
    if isinstance(e, ast.ListComp) and len(e.generators) == 1 and not e.generators[0].ifs and isinstance(e.generators[0].target, ast.Name):
        g = e.generators[0]
        inner = dict(env)
        inner[g.target.id] = ('sym', '_')
        return ('call', 'map', [py_ir(e.elt, inner), py_ir(g.iter, env)])
    raise Unsupported(type(e).__name__)


def py_cond(t, env):
    if isinstance(t, ast.Compare):
        items = [t.left] + list(t.comparators)
        parts = []
        for l, op, r in zip(items, t.ops, items[1:]):
            if isinstance(op, (ast.In, ast.NotIn)) and isinstance(r, (ast.Tuple, ast.List, ast.Set)):
                c = ('in', py_ir(l, env), [py_ir(x, env) for x in r.elts])
                parts.append(c if isinstance(op, ast.In) else ('not', c))
            elif isinstance(op, (ast.Is, ast.IsNot, ast.Eq, ast.NotEq)) and isinstance(r, ast.Constant) and r.value is None:
                c = ('truthy', py_ir(l, env))
                parts.append(c if isinstance(op, (ast.IsNot, ast.NotEq)) else ('not', c))
            elif type(op) in PY_CMP:
                parts.append(('cmp', PY_CMP[type(op)], py_ir(l, env), py_ir(r, env)))
            else:
                raise Unsupported('comparison')
        return parts[0] if len(parts) == 1 else ('and', parts)
    if isinstance(t, ast.BoolOp):
        return ('and' if isinstance(t.op, ast.And) else 'or', [py_cond(v, env) for v in t.values])
    if isinstance(t, ast.UnaryOp) and isinstance(t.op, ast.Not):
        return ('not', py_cond(t.operand, env))
    v = py_ir(t, env)
    if v[0] == 'bool':
        return v[1]
    return ('truthy', v)


def _assigned(stmts):
    out = set()
    for st in stmts:
        for n in ast.walk(st):
            if isinstance(n, ast.Name) and isinstance(n.ctx, ast.Store):
                out.add(n.id)
    return out


def _merge(env, e1, e2, cond, names, nm, hint=None):
    """after a compound statement: a name assigned in it is ite(cond; then-value; else-value) when the condition and both values are
    known (an if / else chain that only selects a value), otherwise an atom named after what it held before: phi(previous value)"""
    opaque = set()
    for n in sorted(names):
        prev = env.get(n, ('sym', nm(n)))
        if cond is not None and e1 is not None and n in e1 and n in e2 and (e1[n] != prev or e2[n] != prev):
            env[n] = ('ite', cond, e1[n], e2[n])
            continue
        opaque.add(n)
        if n not in env and hint:
            # a name first bound inside the statement: the atom is named after the one parameter the statement reads
            # (`v = perf; if text: v = convert(v)` and `if text: v = convert(perf) else: v = perf` are the same conversion of perf)
            env[n] = ('sym', 'phi(%s)' % hint)
            continue
        try:
            env[n] = ('sym', 'phi(%s)' % canon(prev).show())
        except Unsupported:
            env[n] = ('sym', 'phi(?)')
    return opaque


def _interesting(txt):
    return any(ch in txt for ch in '+*(/') or (txt[:1] in '\'"' and txt[-1:] in '\'"')     # arithmetic, or a string constant (a mode flag)


def py_returns(fn, effects=None):
    """[(lineno, canonical text | None, reason)] for every return of fn, in source order.  `effects`, if given, collects the
    conditional effects: (guard, op, canonical value) for every arithmetic assignment / augmented assignment made inside an
    if-statement (e.g. the hand-timing increment), names left out"""
    out = []
    pending = []

    def flush(opaque):
        # keep the conditional effects on names that could not be folded into the value (they are atoms now)
        if effects is not None:
            effects.extend(e_ for n_, e_ in pending if n_ in opaque)
        del pending[:]

    def block(stmts, env, guards):
        for i_st, st in enumerate(stmts):
            # a name that nothing reads after the statement is a dead temporary: its conditional effect cannot reach the result
            live = lambda names, _later=stmts[i_st + 1:]: {n for n in names if any(
                isinstance(x, ast.Name) and x.id == n and isinstance(x.ctx, ast.Load) for s_ in _later for x in ast.walk(s_))}
            if isinstance(st, ast.Assign) and len(st.targets) == 1 and isinstance(st.targets[0], ast.Name):
                try:
                    env[st.targets[0].id] = py_ir(st.value, env)
                    if effects is not None and guards:
                        txt = canon(env[st.targets[0].id]).show()
                        if _interesting(txt):
                            pending.append((st.targets[0].id, (' & '.join(guards), '=', txt)))
                except Unsupported:
                    env.pop(st.targets[0].id, None)
            elif isinstance(st, ast.Assign) and len(st.targets) == 1 and isinstance(st.targets[0], (ast.Tuple, ast.List)) \
                    and all(isinstance(x, ast.Name) for x in st.targets[0].elts):
                # a, b, c = X   ->   a = X[0], b = X[1], c = X[2]
                try:
                    base = py_ir(st.value, env)
                    for i_, x in enumerate(st.targets[0].elts):
                        env[x.id] = ('idx', base, i_)
                except Unsupported:
                    for n in _assigned([st]):
                        env.pop(n, None)
            elif isinstance(st, ast.Assign):
                for n in _assigned([st]):
                    env.pop(n, None)
            elif isinstance(st, ast.AugAssign) and isinstance(st.target, ast.Name) and isinstance(st.op, (ast.Add, ast.Sub, ast.Mult, ast.Div)):
                try:
                    cur = env.get(st.target.id, ('sym', jsast.camel(st.target.id)))
                    val = py_ir(st.value, env)
                    env[st.target.id] = ({ast.Add: 'add', ast.Sub: 'sub', ast.Mult: 'mul', ast.Div: 'div'}[type(st.op)], cur, val)
                    if effects is not None and guards:
                        pending.append((st.target.id, (' & '.join(guards), {ast.Add: '+=', ast.Sub: '-=', ast.Mult: '*=', ast.Div: '/='}[type(st.op)], canon(val).show())))
                except Unsupported:
                    env.pop(st.target.id, None)
            elif isinstance(st, ast.Return):
                if st.value is None:
                    out.append((st.lineno, None, 'bare return'))
                else:
                    try:
                        out.append((st.lineno, canon(py_ir(st.value, env)).show(), None))
                    except Unsupported as e:
                        out.append((st.lineno, None, str(e)))
            elif isinstance(st, ast.If):
                try:
                    g = ccanon(py_cond(st.test, env))
                    g, ng = ('not(%s)' % g[1], g[1]) if isinstance(g, tuple) else (g, 'not(%s)' % g)
                except Unsupported:
                    g = ng = '?'
                e1, e2 = dict(env), dict(env)
                block(st.body, e1, guards + [g])
                block(st.orelse, e2, guards + [ng])
                try:
                    cond = py_cond(st.test, env)
                except Unsupported:
                    cond = None
                op_ = _merge(env, e1, e2, cond, _assigned([st]), jsast.camel, _hint(st))
                if not guards:
                    flush(live(op_))
            elif isinstance(st, (ast.For, ast.While, ast.Try, ast.With)):
                inner = [st.body, getattr(st, 'orelse', [])] + [h.body for h in getattr(st, 'handlers', [])] + [getattr(st, 'finalbody', [])]
                for b in inner:
                    block(b, dict(env), guards + ['?'])
                op_ = _merge(env, None, None, None, _assigned([st]), jsast.camel, _hint(st))
                if not guards:
                    flush(live(op_))
    params = {a.arg for a in fn.args.args + fn.args.kwonlyargs} - {'self', 'cls'}

    def _hint(st):
        reads = {n.id for n in ast.walk(st) if isinstance(n, ast.Name) and isinstance(n.ctx, ast.Load) and n.id in params}
        return jsast.camel(sorted(reads)[0]) if len(reads) == 1 else None
    block(fn.body, {}, [])
    return out


# ---------------------------------------------------------------- JavaScript front end
JS_CALLS = {'Math.trunc': 'trunc', 'parseInt': 'trunc', 'parseFloat': 'id', 'Number': 'id', 'Math.max': 'max', 'Math.min': 'min',
            'Math.abs': 'abs', 'parseHms': 'hms', 'Math.floor': 'floor', 'Math.ceil': 'ceil', 'Math.round': 'round'}
JS_CMP = {'>': '>', '>=': '>=', '<': '<', '<=': '<=', '===': '==', '==': '==', '!==': '!=', '!=': '!='}


def js_ir(e, env):
    t = e['type']
    if t == 'Literal':
        v = e.get('value')
        if isinstance(v, str):
            return ('str', v)
        if v is None and 'regex' not in e:
            return ('sym', 'null')
        if 'regex' in e:
            raise Unsupported('regex literal')
        return num(v)
    if t == 'Identifier':
        return env.get(e['name'], ('sym', e['name']))
    if t == 'ThisExpression':
        return ('sym', 'self')
    if t == 'MemberExpression':
        if e['object']['type'] == 'ThisExpression' and not e['computed']:
            return ('sym', 'self.' + e['property']['name'])
        if e['computed']:
            p = e['property']
            if p['type'] == 'Literal' and isinstance(p.get('value'), int):
                return ('idx', js_ir(e['object'], env), p['value'])
            return ('idx', js_ir(e['object'], env), js_ir(p, env))
        if e['property'].get('name') == 'length':
            return ('call', 'len', [js_ir(e['object'], env)])
        raise Unsupported('member')
    if t == 'BinaryExpression':
        ops = {'+': 'add', '-': 'sub', '*': 'mul', '/': 'div'}
        if e['operator'] in ops:
            return (ops[e['operator']], js_ir(e['left'], env), js_ir(e['right'], env))
        raise Unsupported('operator %s' % e['operator'])
    if t == 'UnaryExpression':
        if e['operator'] == '-':
            return ('neg', js_ir(e['argument'], env))
        if e['operator'] == '+':
            return js_ir(e['argument'], env)
        raise Unsupported('unary')
    if t == 'ConditionalExpression':
        return ('ite', js_cond(e['test'], env), js_ir(e['consequent'], env), js_ir(e['alternate'], env))
    if t == 'ArrayExpression':
        return ('tuple', [js_ir(x, env) for x in e['elements']])
    if t == 'CallExpression':
        nm = jsast.js_name(e['callee'])
        if nm in JS_CALLS:
            args = e['arguments'][:1] if nm == 'parseInt' else e['arguments']
            return ('call', JS_CALLS[nm], [js_ir(a, env) for a in args])
        c = e['callee']
        if c['type'] == 'MemberExpression' and not c['computed'] and c['property'].get('name') in ('match', 'search') and len(e['arguments']) == 1 \
                and e['arguments'][0]['type'] == 'Identifier':
            return ('call', c['property']['name'], [('sym', e['arguments'][0]['name']), js_ir(c['object'], env)])
        # xs.map(function (x) { return E; })  /  xs.map(x => E)
        if c['type'] == 'MemberExpression' and not c['computed'] and c['property'].get('name') == 'map' and len(e['arguments']) == 1 \
                and e['arguments'][0]['type'] in ('FunctionExpression', 'ArrowFunctionExpression') and len(e['arguments'][0]['params']) == 1 \
                and e['arguments'][0]['params'][0]['type'] == 'Identifier':
            f = e['arguments'][0]
            body = f['body']
            if body['type'] == 'BlockStatement':
                if len(body['body']) != 1 or body['body'][0]['type'] != 'ReturnStatement':
                    raise Unsupported('map callback')
                body = body['body'][0]['argument']
            inner = dict(env)
            inner[f['params'][0]['name']] = ('sym', '_')
            return ('call', 'map', [js_ir(body, inner), js_ir(c['object'], env)])
        if c['type'] == 'Identifier':
            return ('call', c['name'], [js_ir(a, env) for a in e['arguments']])
        # m.get(k) on a Map is the lookup m[k] on an object: undefined when the key is missing on both
        if c['type'] == 'MemberExpression' and not c['computed'] and c['property'].get('name') == 'get' and len(e['arguments']) == 1:
            a0 = e['arguments'][0]
            if a0['type'] == 'Literal' and isinstance(a0.get('value'), int) and not isinstance(a0.get('value'), bool):
                return ('idx', js_ir(c['object'], env), a0['value'])
            return ('idx', js_ir(c['object'], env), js_ir(a0, env))
        if c['type'] == 'MemberExpression' and not c['computed'] and c['object']['type'] == 'CallExpression':
            return ('call', '.' + c['property']['name'], [js_ir(c['object'], env)] + [js_ir(a, env) for a in e['arguments']])
        if c['type'] == 'MemberExpression' and not c['computed'] and c['object']['type'] in ('ThisExpression', 'Identifier') and (
                c['object']['type'] == 'ThisExpression' or env.get(c['object'].get('name')) == ('sym', 'self')):
            return ('call', 'self.' + c['property']['name'], [js_ir(a, env) for a in e['arguments']])
        raise Unsupported('call %s' % nm)
    raise Unsupported(t)


def js_cond(t, env):
    if t['type'] == 'BinaryExpression' and t['operator'] in JS_CMP:
        l, r = t['left'], t['right']
        # [a, b].indexOf(x) >= 0   ==   x in {a, b}
        if l['type'] == 'CallExpression' and l['callee']['type'] == 'MemberExpression' and l['callee']['property'].get('name') == 'indexOf' \
                and l['callee']['object']['type'] == 'ArrayExpression' and r['type'] in ('Literal', 'UnaryExpression'):
            rv = r['value'] if r['type'] == 'Literal' else -r['argument']['value']
            op = JS_CMP[t['operator']]
            pos = (op == '>=' and rv == 0) or (op == '>' and rv == -1) or (op == '!=' and rv == -1)
            neg = (op == '<' and rv == 0) or (op == '==' and rv == -1) or (op == '<=' and rv == -1)
            if pos or neg:
                c = ('in', js_ir(l['arguments'][0], env), [js_ir(x, env) for x in l['callee']['object']['elements']])
                return c if pos else ('not', c)
        isnull = lambda x: (x['type'] == 'Literal' and x.get('value') is None and 'regex' not in x) or (x['type'] == 'Identifier' and x['name'] == 'undefined')
        if isnull(r) or isnull(l):
            c = ('truthy', js_ir(l if isnull(r) else r, env))
            return c if JS_CMP[t['operator']] == '!=' else ('not', c)
        return ('cmp', JS_CMP[t['operator']], js_ir(l, env), js_ir(r, env))
    if t['type'] == 'LogicalExpression':
        return ('and' if t['operator'] == '&&' else 'or', [js_cond(t['left'], env), js_cond(t['right'], env)])
    if t['type'] == 'UnaryExpression' and t['operator'] == '!':
        return ('not', js_cond(t['argument'], env))
    return ('truthy', js_ir(t, env))


def _js_assigned(node):
    out = set()
    for n in jsast.jwalk(node):
        if n['type'] == 'AssignmentExpression' and n['left']['type'] == 'Identifier':
            out.add(n['left']['name'])
        if n['type'] == 'VariableDeclarator' and n['id']['type'] == 'Identifier':
            out.add(n['id']['name'])
        if n['type'] == 'VariableDeclarator' and n['id']['type'] == 'ArrayPattern':
            out |= {el['name'] for el in n['id']['elements'] if el is not None and el['type'] == 'Identifier'}
        if n['type'] == 'UpdateExpression' and n['argument']['type'] == 'Identifier':
            out.add(n['argument']['name'])
    return out


def js_returns(fn, effects=None):
    out = []
    pending = []

    def flush(opaque):
        if effects is not None:
            effects.extend(e_ for n_, e_ in pending if n_ in opaque)
        del pending[:]

    def assign(name, op, value, env, guards):
        try:
            v = js_ir(value, env)
            if op == '=':
                env[name] = v
                if effects is not None and guards:
                    txt = canon(v).show()
                    if _interesting(txt):
                        pending.append((name, (' & '.join(guards), '=', txt)))
            else:
                k = {'+=': 'add', '-=': 'sub', '*=': 'mul', '/=': 'div'}.get(op)
                if k is None:
                    raise Unsupported(op)
                env[name] = (k, env.get(name, ('sym', name)), v)
                if effects is not None and guards:
                    pending.append((name, (' & '.join(guards), op, canon(v).show())))
        except Unsupported:
            env.pop(name, None)

    def block(stmts, env, guards):
        for i_st, st in enumerate(stmts):
            t = st['type']
            live = lambda names, _later=stmts[i_st + 1:]: {n for n in names if any(
                x['type'] == 'Identifier' and x['name'] == n for s_ in _later for x in jsast.jwalk(s_))}
            if t == 'VariableDeclaration':
                for d in st['declarations']:
                    if d['id']['type'] == 'Identifier' and d.get('init') is not None:
                        assign(d['id']['name'], '=', d['init'], env, guards)
                    elif d['id']['type'] == 'ArrayPattern' and d.get('init') is not None:
                        # const [a, b] = e  is  a = e[0], b = e[1]
                        for i_, el in enumerate(d['id']['elements']):
                            if el is not None and el['type'] == 'Identifier':
                                assign(el['name'], '=', {'type': 'MemberExpression', 'computed': True, 'object': d['init'],
                                                         'property': {'type': 'Literal', 'value': i_, 'raw': str(i_)}}, env, guards)
            elif t == 'ExpressionStatement' and st['expression']['type'] == 'AssignmentExpression' and st['expression']['left']['type'] == 'Identifier':
                x = st['expression']
                assign(x['left']['name'], x['operator'], x['right'], env, guards)
            elif t == 'ReturnStatement':
                if st.get('argument') is None:
                    out.append((jsast.line(st), None, 'bare return'))
                else:
                    try:
                        out.append((jsast.line(st), canon(js_ir(st['argument'], env)).show(), None))
                    except Unsupported as e:
                        out.append((jsast.line(st), None, str(e)))
            elif t == 'BlockStatement':
                block(st['body'], env, guards)
            elif t == 'IfStatement':
                try:
                    g = ccanon(js_cond(st['test'], env))
                    g, ng = ('not(%s)' % g[1], g[1]) if isinstance(g, tuple) else (g, 'not(%s)' % g)
                except Unsupported:
                    g = ng = '?'
                envs = {}
                for key, gg in (('consequent', g), ('alternate', ng)):
                    sub = st.get(key)
                    envs[key] = dict(env)
                    if sub:
                        block(sub['body'] if sub['type'] == 'BlockStatement' else [sub], envs[key], guards + [gg])
                try:
                    cond = js_cond(st['test'], env)
                except Unsupported:
                    cond = None
                op_ = _merge(env, envs['consequent'], envs['alternate'], cond, _js_assigned(st), lambda x: x)
                if not guards:
                    flush(live(op_))
            elif t in ('ForStatement', 'WhileStatement', 'TryStatement', 'ForInStatement', 'ForOfStatement', 'DoWhileStatement'):
                for key in ('body', 'block', 'handler', 'finalizer'):
                    sub = st.get(key)
                    if not sub:
                        continue
                    if sub['type'] == 'CatchClause':
                        sub = sub['body']
                    block(sub['body'] if sub['type'] == 'BlockStatement' else [sub], dict(env), guards + ['?'])
                op_ = _merge(env, None, None, None, _js_assigned(st), lambda x: x)
                if not guards:
                    flush(live(op_))
            else:
                _merge(env, None, None, None, _js_assigned(st), lambda x: x)
    body = fn['body']
    block(body['body'] if body['type'] == 'BlockStatement' else [{'type': 'ReturnStatement', 'argument': body, 'loc': body.get('loc')}], {}, [])
    return out
