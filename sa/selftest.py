"""Checker validation (both ways) on scratch copies of the tree under analysis.

Not a property verdict: it validates the tools.  Every variant is a textual edit of a scratch copy (made with
mkdtemp outside /repo and /verif, removed immediately afterwards) that is expected either to FIRE (a finding of
the named rule whose text mentions the named fragment) or to stay SILENT (behaviour-preserving twin).
A variant whose `old` text is not present in the tree under analysis is skipped and counted as skipped.
Exit 0 all as expected, 2 otherwise (never 1: a selftest failure is not a VIOLATION).
"""
import concurrent.futures as cf
import json
import os
import shutil
import subprocess
import sys
import tempfile

from .core import VERIF

COPY = ['athlib', 'js/src', 'json', 'scripts/make-patterns-js.py']


def make_copy(repo):
    d = tempfile.mkdtemp(prefix='athlib-sa-')
    for rel in COPY:
        src = os.path.join(repo, rel)
        dst = os.path.join(d, rel)
        if os.path.isdir(src):
            shutil.copytree(src, dst, ignore=shutil.ignore_patterns('__pycache__', '*.pyc'))
        elif os.path.exists(src):
            os.makedirs(os.path.dirname(dst), exist_ok=True)
            shutil.copy(src, dst)
    return d


def run_variant(repo, v):
    d = make_copy(repo)
    try:
        if v.get('patch'):
            r = subprocess.run(['git', 'apply', '--unsafe-paths', '--directory', d, v['patch']], capture_output=True, text=True, cwd='/')
            if r.returncode != 0:
                r = subprocess.run(['patch', '-p1', '-s', '-i', v['patch']], capture_output=True, text=True, cwd=d)
                if r.returncode != 0:
                    return {'id': v['id'], 'status': 'skipped', 'why': 'patch does not apply: %s' % (r.stdout + r.stderr)[-120:]}
        for ed in v['edits']:
            p = os.path.join(d, ed['file'])
            s = open(p, encoding='utf-8').read()
            if ed.get('rename'):
                # behaviour-preserving rename of local variables inside one function (whole-word, that function's text only)
                import ast as _ast, re as _re
                tree = _ast.parse(s)
                fnn = [n for n in _ast.walk(tree) if isinstance(n, _ast.FunctionDef) and n.name == ed['rename']['function']][0]
                lines = s.split('\n')
                seg = '\n'.join(lines[fnn.lineno - 1:fnn.end_lineno])
                for a, b in ed['rename']['map'].items():
                    seg = _re.sub(r'(?<![\w.\'\"])%s(?![\w\'\"(])(?!=[^=])' % _re.escape(a), b, seg)
                s2 = '\n'.join(lines[:fnn.lineno - 1] + [seg] + lines[fnn.end_lineno:])
                _ast.parse(s2)
                open(p, 'w', encoding='utf-8').write(s2)
                continue
            if ed.get('transform') == 'unparse':
                # behaviour-preserving reformat: drops comments, normalises layout, quotes and line numbers
                import ast as _ast
                open(p, 'w', encoding='utf-8').write(_ast.unparse(_ast.parse(s)) + '\n')
                continue
            if s.count(ed['old']) < 1:
                return {'id': v['id'], 'status': 'skipped', 'why': 'edit does not apply: %s' % ed['old'][:50]}
            s = s.replace(ed['old'], ed['new'], ed.get('count', 1))
            open(p, 'w', encoding='utf-8').write(s)
        env = dict(os.environ)
        if os.environ.get('SELFTEST_FAST') == '1' and v['expect'] != 'silent':
            # iteration mode: a must-fire variant is decided on the source as written only (the full mode also shows that no
            # normalised view clears it, which costs one re-analysis per view)
            env['SA_NO_VIEWS'] = '1'
        r = subprocess.run([os.path.join(VERIF, 'check'), v['property'], '--repo', d, '--tier', v.get('tier', 'quick'),
                            '--quiet', '--no-evidence'],
                           capture_output=True, text=True, timeout=900, env=env)
        out = r.stdout + r.stderr
        lines = [l for l in out.splitlines() if l.startswith(('FINDING', 'KNOWN-FINDING', 'ANALYSIS-ERROR'))]
        new = [l for l in lines if l.startswith('FINDING')]
        if v['expect'] == 'silent':
            ok = r.returncode == 0 and not new
        else:
            want_rule = v.get('rule')
            want_text = v.get('mentions')
            hit = [l for l in new if (not want_rule or (' %s ' % want_rule) in l) and (not want_text or want_text in l)]
            ok = r.returncode == 1 and bool(hit)
        return {'id': v['id'], 'status': 'ok' if ok else 'UNEXPECTED', 'rc': r.returncode, 'lines': lines[:6],
                'expect': v['expect']}
    finally:
        shutil.rmtree(d, ignore_errors=True)


def load_seeded():
    out = []
    d = os.path.join(VERIF, 'seeded')
    for sid in sorted(os.listdir(d)) if os.path.isdir(d) else []:
        mp = os.path.join(d, sid, 'meta.json')
        if os.path.exists(mp):
            m = json.load(open(mp))
            if m.get('detected_by_own_check'):
                out.append({'id': 'seeded-' + sid, 'property': m['property'], 'expect': 'fire', 'patch': os.path.join(d, sid, 'patch.diff'), 'edits': []})
            else:
                # a change that shows only under another property's quantifier (e.g. only with threads): that property's check fires
                for prop in sorted({c.split('/')[0] for c in m.get('detected_by', [])}):
                    out.append({'id': 'seeded-%s-via-%s' % (sid, prop), 'property': prop, 'expect': 'fire',
                                'patch': os.path.join(d, sid, 'patch.diff'), 'edits': []})
    return out


def load_neutral():
    """harmless changes written by independent sub-agents (false-alarm rounds, /verif/neutral): the property's own check, and every
    check that raised an alarm when the change was first evaluated, must stay silent"""
    out = []
    d = os.path.join(VERIF, 'neutral')
    for sid in sorted(os.listdir(d)) if os.path.isdir(d) else []:
        mp = os.path.join(d, sid, 'meta.json')
        if not os.path.exists(mp):
            continue
        m = json.load(open(mp))
        if m.get('verdict', 'harmless') != 'harmless':
            continue
        if m.get('known_limit'):
            continue            # recorded in DESIGN.md as a shape the checks do not see through yet
        props = {m['property']} | {c.split('/')[0] for c in (m.get('alarms_on_first_evaluation') or {})}
        for prop in sorted(props):
            out.append({'id': 'neutral-%s-%s' % (sid, prop), 'property': prop, 'expect': 'silent',
                        'patch': os.path.join(d, sid, 'patch.diff'), 'edits': []})
    return out


def load_variants():
    out = load_seeded() + load_neutral()
    d = os.path.join(VERIF, 'selftest')
    for fn in sorted(os.listdir(d)) if os.path.isdir(d) else []:
        if fn.endswith('.json'):
            out += json.load(open(os.path.join(d, fn)))
    return out


def main(repo, only=None):
    vs = load_variants()
    if only:
        vs = [v for v in vs if v['property'] in only or v['id'] in only]
    res = []
    with cf.ThreadPoolExecutor(max_workers=int(os.environ.get('SA_JOBS', '12'))) as ex:
        for r in ex.map(lambda v: run_variant(repo, v), vs):
            res.append(r)
            if r['status'] != 'ok':
                print('SELFTEST %s %s %s' % (r['status'], r['id'], json.dumps({k: r[k] for k in r if k not in ('id', 'status')})[:600]))
    n_ok = sum(1 for r in res if r['status'] == 'ok')
    n_skip = sum(1 for r in res if r['status'] == 'skipped')
    n_bad = len(res) - n_ok - n_skip
    print('SELFTEST variants=%d ok=%d skipped=%d unexpected=%d' % (len(res), n_ok, n_skip, n_bad))
    return 0 if n_bad == 0 else 2


if __name__ == '__main__':
    sys.exit(main(sys.argv[1] if len(sys.argv) > 1 else '/repo', set(sys.argv[2:]) or None))
