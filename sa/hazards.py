"""Rule GEN: value-independent hazards that break "the answer is a function of the arguments, defined on the whole domain" in any
function the property speaks about (the call-graph closure of its entry points, sa/scope.py) or at module level of its modules.
Each is a contradiction between what an expression can hold and how it is used, visible in the shape of the code:

  IDX0     a position (.index(), .find(), next(i for i, ... in enumerate(...))) tested for truth: position 0 is a
           hit and is falsy; find()'s -1 is a miss and is truthy
  STALE    inside a loop, a name assigned only in a try body whose handler neither assigns it nor leaves the iteration, and read after
           the try: on the handled path it is unbound (first iteration) or still holds the previous iteration's value
  ONESHOT  a module-level name bound to a generator expression / map / filter / zip / iter and read inside a function: the second
           caller finds it exhausted
  UNITGUESS  if <input> >= C: <input> = k * <input>: the unit of an input is guessed from its size (discontinuous; breaks inverses)
  TYPEERASE  f(str(x)) where f branches on isinstance(param, str): the conversion erases the distinction the callee draws
  ARGSWAP  f(a, b) where the callee's parameters are named (b, a): swapped positional arguments
  MUTDEF   a mutable default argument changed in place;  FINDSPAN  a matched group located again by text search (first occurrence);
  ENVDEP   a call that reads the working directory / environment of the process
  CONCAT   in a collection display of string constants, an element written as two adjacent literals (a missing comma): two members
           silently become one
"""
import ast
import io
import tokenize

from .src import unparse


def _truth_tests(fn):
    """names used as a bare truth value: if x / if not x / while x / x and y / x if c else y (test position)"""
    out = []

    def test(e):
        if isinstance(e, ast.BoolOp):
            for v in e.values:
                test(v)
        elif isinstance(e, ast.UnaryOp) and isinstance(e.op, ast.Not):
            test(e.operand)
        elif isinstance(e, ast.Name):
            out.append(e)
    for n in ast.walk(fn):
        if isinstance(n, (ast.If, ast.While, ast.IfExp, ast.Assert)):
            test(n.test)
    return out


def _is_position(v):
    if isinstance(v, ast.Call) and isinstance(v.func, ast.Attribute) and v.func.attr in ('index', 'find', 'rfind', 'rindex'):
        return '.%s()' % v.func.attr
    if isinstance(v, ast.Call) and isinstance(v.func, ast.Name) and v.func.id == 'next' and v.args and isinstance(v.args[0], ast.GeneratorExp):
        g = v.args[0]
        it = g.generators[0].iter
        if isinstance(it, ast.Call) and isinstance(it.func, ast.Name) and it.func.id == 'enumerate' and isinstance(g.generators[0].target, ast.Tuple) \
                and isinstance(g.elt, ast.Name) and isinstance(g.generators[0].target.elts[0], ast.Name) and g.elt.id == g.generators[0].target.elts[0].id:
            return 'next(i for i, ... in enumerate(...))'
    return None


def idx0(fn):
    out = []
    pos = {}
    for n in ast.walk(fn):
        if isinstance(n, ast.Assign) and len(n.targets) == 1 and isinstance(n.targets[0], ast.Name):
            k = _is_position(n.value)
            if k:
                pos[n.targets[0].id] = k
        # (the index of a `for i, x in enumerate(...)` loop is left alone: `if i:` = "not the first item" is an idiom)
    # a name that has any non-position definition is left alone (e.g. re-used as a flag)
    for n in ast.walk(fn):
        if isinstance(n, ast.Assign):
            for t in n.targets:
                if isinstance(t, ast.Name) and t.id in pos and not _is_position(n.value):
                    pos.pop(t.id, None)
    for t in _truth_tests(fn):
        if t.id in pos:
            st = t
            while not isinstance(st, ast.stmt):
                st = st._parent
            out.append(('IDX0', t.lineno, '`%s` holds a position (%s) and is tested for truth in `%s`: position 0 is a hit and counts as false%s'
                        % (t.id, pos[t.id], unparse(st).split('\n')[0][:70], ' (and -1, the miss of find(), counts as true)' if 'find' in pos[t.id] else ''),
                        '%s tested for truth' % pos[t.id]))
    return out


def stale(fn):
    out = []
    for loop in ast.walk(fn):
        if not isinstance(loop, (ast.For, ast.While)):
            continue
        body = loop.body
        for i, st in enumerate(body):
            if not isinstance(st, ast.Try) or st.finalbody:
                continue
            assigned = {t.id for s in st.body for n in ast.walk(s) if isinstance(n, ast.Assign) for t in n.targets if isinstance(t, ast.Name)}
            if not assigned:
                continue
            before = {t.id for s in body[:i] for n in ast.walk(s) if isinstance(n, (ast.Assign, ast.AugAssign))
                      for t in (n.targets if isinstance(n, ast.Assign) else [n.target]) if isinstance(t, ast.Name)}
            for h in st.handlers:
                leaves = any(isinstance(x, (ast.Continue, ast.Break, ast.Return, ast.Raise)) for s in h.body for x in ast.walk(s))
                h_assigned = {t.id for s in h.body for n in ast.walk(s) if isinstance(n, ast.Assign) for t in n.targets if isinstance(t, ast.Name)}
                if leaves:
                    continue
                for name in sorted(assigned - h_assigned - before):
                    later = [n for s in body[i + 1:] + st.orelse for n in ast.walk(s) if isinstance(n, ast.Name) and n.id == name and isinstance(n.ctx, ast.Load)]
                    if later:
                        out.append(('STALE', later[0].lineno,
                                    '`%s` is assigned only in the try body at line %d; when `except %s` handles the error it is not assigned, yet `%s` '
                                    'is read afterwards in the same iteration: it is unbound on the first iteration (UnboundLocalError) and otherwise still '
                                    'holds the previous item\'s value' % (name, st.lineno, ast.unparse(h.type) if h.type else '', name),
                                    'loop variable %s survives a handled error' % name))
    return out


def unitguess(fn):
    """if <param> <cmp> C [and ...]: <param> = k * <param>   -- the unit of an input is guessed from its size"""
    out = []
    params = {a.arg for a in fn.args.args + fn.args.kwonlyargs}
    for n in ast.walk(fn):
        if not isinstance(n, ast.If):
            continue
        sized = set()
        for c in ast.walk(n.test):
            if isinstance(c, ast.Compare) and len(c.ops) == 1 and isinstance(c.ops[0], (ast.Gt, ast.GtE, ast.Lt, ast.LtE)):
                for a, b in ((c.left, c.comparators[0]), (c.comparators[0], c.left)):
                    if isinstance(a, ast.Name) and a.id in params and isinstance(b, ast.Constant) and isinstance(b.value, (int, float)):
                        sized.add(a.id)
        if not sized:
            continue
        for st in n.body:
            tgt = val = None
            if isinstance(st, ast.Assign) and len(st.targets) == 1 and isinstance(st.targets[0], ast.Name):
                tgt, val = st.targets[0].id, st.value
                scaled = isinstance(val, ast.BinOp) and isinstance(val.op, (ast.Mult, ast.Div)) and any(
                    isinstance(x, ast.Name) and x.id == tgt for x in (val.left, val.right)) and any(
                    isinstance(x, ast.Constant) and isinstance(x.value, (int, float)) and x.value not in (0, 1) for x in (val.left, val.right))
            elif isinstance(st, ast.AugAssign) and isinstance(st.target, ast.Name) and isinstance(st.op, (ast.Mult, ast.Div)):
                tgt, val = st.target.id, st.value
                scaled = isinstance(val, ast.Constant) and isinstance(val.value, (int, float)) and val.value not in (0, 1)
            else:
                continue
            if tgt in sized and scaled:
                out.append(('UNITGUESS', st.lineno,
                            'the input `%s` is rescaled (`%s`) when `%s` holds: its unit is guessed from its size, so the function is discontinuous '
                            'at the threshold and values on the two sides of it are read in different units' % (tgt, unparse(st), unparse(n.test)[:60]),
                            'input %s rescaled by size' % tgt))
    return out


ONESHOT_CALLS = ('map', 'filter', 'zip', 'iter', 'reversed', 'enumerate')


def oneshot(mod, fns):
    out = []
    gens = {}
    for st in mod.tree.body:
        if isinstance(st, ast.Assign) and (isinstance(st.value, ast.GeneratorExp) or (
                isinstance(st.value, ast.Call) and isinstance(st.value.func, ast.Name) and st.value.func.id in ONESHOT_CALLS)):
            for t in st.targets:
                if isinstance(t, ast.Name):
                    gens[t.id] = st
    if not gens:
        return out
    for q, fn in fns:
        for n in ast.walk(fn):
            if isinstance(n, ast.Name) and isinstance(n.ctx, ast.Load) and n.id in gens:
                out.append((q, 'ONESHOT', n.lineno,
                            '%s reads the module-level name `%s`, which is bound to a one-shot iterator (%s): the first call that iterates it '
                            'uses it up, every later call sees it empty' % (q, n.id, unparse(gens[n.id].value)[:50]), 'module-level iterator %s' % n.id))
                break
    return out


def concat(mod):
    """implicit concatenation of adjacent string literals inside a collection display of string constants"""
    out = []
    src = mod.source if hasattr(mod, 'source') else open(mod.path, encoding='utf-8').read()
    lines = src.split('\n')
    blines = {}

    def segment(e):
        # source text of one constant (utf-8 column offsets); only that text is tokenised: tokenising a whole file is quadratic
        # in the length of its longest line on CPython 3.12 (a generated / reformatted table on one line costs gigabytes)
        if e.end_lineno - e.lineno > 12:
            return None
        seg = []
        for ln in range(e.lineno, e.end_lineno + 1):
            b_ = blines.get(ln)
            if b_ is None:
                b_ = blines[ln] = lines[ln - 1].encode('utf-8')
            lo = e.col_offset if ln == e.lineno else 0
            hi = e.end_col_offset if ln == e.end_lineno else len(b_)
            seg.append(b_[lo:hi].decode('utf-8', 'replace'))
        return '\n'.join(seg)

    class _Adj(object):
        """positions-free replacement of the old token set: `inside(e)` is true when the constant e is written as 2+ literals"""
        def __init__(self):
            self.memo = {}

        def inside(self, e):
            k = (e.lineno, e.col_offset)
            if k in self.memo:
                return self.memo[k]
            r = False
            seg = segment(e)
            if seg is not None and len(seg) > len(e.value) + 2 and len(seg) < 4000:
                try:
                    n_str = sum(1 for t in tokenize.generate_tokens(io.StringIO('(' + seg + ')').readline) if t.type == tokenize.STRING)
                    r = n_str >= 2
                except (tokenize.TokenError, SyntaxError, IndentationError):
                    r = False
            self.memo[k] = r
            return r
    adj = _Adj()
    for n in ast.walk(mod.tree):
        if isinstance(n, ast.Compare) and len(n.ops) == 1 and isinstance(n.ops[0], (ast.In, ast.NotIn)) \
                and isinstance(n.comparators[0], ast.Constant) and isinstance(n.comparators[0].value, str):
            e = n.comparators[0]
            inside = adj.inside(e)
            if inside:
                out.append(('CONCAT', e.lineno,
                            '`%s` tests membership in %r, a single string made of adjacent literals (a missing comma in what was meant as a '
                            'collection): `in` is a substring test here, so every substring of it is a member' % (unparse(n)[:60], e.value),
                            'membership in concatenated %r' % e.value))
        if isinstance(n, (ast.Tuple, ast.List, ast.Set)) and len(n.elts) >= 3 and all(
                isinstance(e, ast.Constant) and isinstance(e.value, str) for e in n.elts):
            for e in n.elts:
                inside = len(e.value) <= 24 and adj.inside(e)
                if inside:
                    out.append(('CONCAT', e.lineno,
                                'the element %r of a collection of %d string constants is written as adjacent literals (a missing comma): two '
                                'members have silently become one, and neither of them is in the collection' % (e.value, len(n.elts)),
                                'element %r' % e.value))
    return out


def typeerase(fn, fn_index):
    """f(str(x)) where f dispatches on isinstance(param, str) / isStr(param): the conversion erases what the callee tests"""
    out = []
    for c in ast.walk(fn):
        if not (isinstance(c, ast.Call) and isinstance(c.func, ast.Name) and c.func.id in fn_index):
            continue
        callee = fn_index[c.func.id]
        cparams = [a.arg for a in callee.args.args]
        for i, a in enumerate(c.args):
            conv = isinstance(a, ast.Call) and isinstance(a.func, ast.Name) and a.func.id in ('str', 'repr') and len(a.args) == 1 \
                and not isinstance(a.args[0], ast.Constant)
            conv = conv or (isinstance(a, ast.BinOp) and isinstance(a.op, ast.Mod) and isinstance(a.left, ast.Constant) and a.left.value in ('%s', '%r'))
            conv = conv or isinstance(a, ast.JoinedStr)
            if not conv and isinstance(a, ast.Name):
                # the name was re-bound to its own text form earlier in the caller:  x = str(x)
                for r_ in ast.walk(fn):
                    if isinstance(r_, ast.Assign) and r_.lineno < c.lineno and len(r_.targets) == 1 and isinstance(r_.targets[0], ast.Name) \
                            and r_.targets[0].id == a.id and isinstance(r_.value, ast.Call) and isinstance(r_.value.func, ast.Name) \
                            and r_.value.func.id in ('str', 'repr') and r_.value.args and isinstance(r_.value.args[0], ast.Name) \
                            and r_.value.args[0].id == a.id:
                        conv = True
            if not conv or i >= len(cparams):
                continue
            p_ = cparams[i]
            for t in ast.walk(callee):
                if isinstance(t, ast.Call) and isinstance(t.func, ast.Name) and t.func.id in ('isinstance', 'isStr') and t.args \
                        and isinstance(t.args[0], ast.Name) and t.args[0].id == p_ and (
                            t.func.id == 'isStr' or any(isinstance(x, ast.Name) and x.id in ('str', 'bytes', 'basestring', 'unicode') for x in ast.walk(t.args[1]))):
                    out.append(('TYPEERASE', c.lineno,
                                '`%s` converts the argument to text before calling %s, which decides by `%s` whether it was given text or a number: '
                                'after the conversion every value is text, so numbers are treated as the text form' % (unparse(c)[:60], c.func.id, unparse(t)),
                                'text conversion before %s' % c.func.id))
                    break
    return out


def argswap(fn, fn_index, method_index):
    """f(a, b) where the callee's parameters are (b, a): two positional arguments, each named like the other's parameter"""
    out = []
    for c in ast.walk(fn):
        if not isinstance(c, ast.Call):
            continue
        callee = None
        skip = 0
        if isinstance(c.func, ast.Name) and c.func.id in fn_index:
            callee = fn_index[c.func.id]
        elif isinstance(c.func, ast.Attribute) and c.func.attr in method_index and len(
                {tuple(a.arg for a in f_.args.args) for f_ in method_index[c.func.attr]}) == 1:
            callee = method_index[c.func.attr][0]
            skip = 1 if callee.args.args and callee.args.args[0].arg in ('self', 'cls') else 0
        if callee is None:
            continue
        cparams = [a.arg for a in callee.args.args][skip:]
        names = [a.id if isinstance(a, ast.Name) else None for a in c.args]
        for i, a in enumerate(names):
            if a is None or i >= len(cparams) or a == cparams[i] or a not in cparams:
                continue
            j = cparams.index(a)
            if j < len(names) and names[j] == cparams[i] and i < j:
                out.append(('ARGSWAP', c.lineno,
                            '`%s` passes `%s` where %s expects `%s` and `%s` where it expects `%s`: the two arguments are swapped'
                            % (unparse(c)[:70], a, callee.name, cparams[i], names[j], cparams[j]), 'arguments %s / %s of %s' % (a, names[j], callee.name)))
    return out


def mutdef(fn):
    """a parameter with a mutable default ([] / {} / set()) that the function changes in place: the default object is shared by
    every call that omits the argument"""
    out = []
    a = fn.args
    pos = a.args
    defaults = dict(zip([x.arg for x in pos[len(pos) - len(a.defaults):]], a.defaults))
    defaults.update({k.arg: v for k, v in zip(a.kwonlyargs, a.kw_defaults) if v is not None})
    mut = {n for n, v in defaults.items() if isinstance(v, (ast.List, ast.Dict, ast.Set)) or (
        isinstance(v, ast.Call) and isinstance(v.func, ast.Name) and v.func.id in ('list', 'dict', 'set'))}
    if not mut:
        return out
    # a parameter re-bound before use (x = list(x) / x = x or []) is a fresh object from then on
    rebound = {}
    for n in ast.walk(fn):
        if isinstance(n, ast.Assign):
            for t in n.targets:
                if isinstance(t, ast.Name) and t.id in mut:
                    rebound[t.id] = min(rebound.get(t.id, n.lineno), n.lineno)
    for n in ast.walk(fn):
        name = None
        if isinstance(n, ast.AugAssign) and isinstance(n.target, ast.Name) and n.target.id in mut:
            name, what = n.target.id, unparse(n)
        elif isinstance(n, ast.Call) and isinstance(n.func, ast.Attribute) and isinstance(n.func.value, ast.Name) and n.func.value.id in mut \
                and n.func.attr in ('append', 'extend', 'insert', 'pop', 'remove', 'clear', 'sort', 'reverse', 'update', 'setdefault', 'add', 'discard', 'popitem'):
            name, what = n.func.value.id, unparse(n)
        elif isinstance(n, (ast.Assign, ast.Delete)):
            for t in n.targets:
                if isinstance(t, ast.Subscript) and isinstance(t.value, ast.Name) and t.value.id in mut:
                    name, what = t.value.id, unparse(n)
        if name:
            # an insertion guarded by `x not in param` is idempotent: the default settles after the first call
            c_, p_ = n, getattr(n, '_parent', None)
            idem = False
            while p_ is not None and p_ is not fn:
                if isinstance(p_, ast.If) and isinstance(p_.test, ast.Compare) and len(p_.test.ops) == 1 and isinstance(p_.test.ops[0], ast.NotIn) \
                        and isinstance(p_.test.comparators[0], ast.Name) and p_.test.comparators[0].id == name \
                        and isinstance(n, ast.Call) and any(unparse(a_) == unparse(p_.test.left) for a_ in n.args):
                    idem = True
                c_, p_ = p_, getattr(p_, '_parent', None)
            if idem:
                continue
        if name and not (name in rebound and rebound[name] < n.lineno):
            out.append(('MUTDEF', n.lineno,
                        'the parameter `%s` defaults to a mutable object and `%s` changes it in place: the default is created once, so what one call '
                        'adds is still there in the next call that omits the argument' % (name, what[:60]), 'mutable default %s changed in place' % name))
    return out


def findspan(fn):
    """x.find(g) / x.index(g) where g is the text of a group of a match on x: the position of a matched group is m.span(k); a text
    search finds the first occurrence of the same characters, which may be an earlier place"""
    out = []
    grp = set()
    for n in ast.walk(fn):
        if isinstance(n, ast.For) and isinstance(n.iter, ast.Call) and isinstance(n.iter.func, ast.Attribute) and n.iter.func.attr == 'items' \
                and isinstance(n.iter.func.value, ast.Call) and isinstance(n.iter.func.value.func, ast.Attribute) and n.iter.func.value.func.attr == 'groupdict' \
                and isinstance(n.target, ast.Tuple) and len(n.target.elts) == 2 and isinstance(n.target.elts[1], ast.Name):
            grp.add(n.target.elts[1].id)
        if isinstance(n, ast.Assign) and len(n.targets) == 1 and isinstance(n.targets[0], ast.Name):
            v = n.value
            if isinstance(v, ast.Call) and isinstance(v.func, ast.Attribute) and v.func.attr == 'group':
                grp.add(n.targets[0].id)
    # one step of derivation: s = v.strip()
    for _ in range(2):
        for n in ast.walk(fn):
            if isinstance(n, ast.Assign) and len(n.targets) == 1 and isinstance(n.targets[0], ast.Name) and isinstance(n.value, ast.Call) \
                    and isinstance(n.value.func, ast.Attribute) and isinstance(n.value.func.value, ast.Name) and n.value.func.value.id in grp \
                    and n.value.func.attr in ('strip', 'lstrip', 'rstrip', 'upper', 'lower'):
                grp.add(n.targets[0].id)
    for n in ast.walk(fn):
        if isinstance(n, ast.Call) and isinstance(n.func, ast.Attribute) and n.func.attr in ('find', 'index', 'rfind', 'rindex') and n.args \
                and isinstance(n.args[0], ast.Name) and n.args[0].id in grp:
            out.append(('FINDSPAN', n.lineno,
                        '`%s` searches the subject for the text of a matched group: the search returns the first place where those characters occur, '
                        'which is an earlier place whenever the same text occurs twice; the position of the group is the span the match reports'
                        % unparse(n), 'group text located by %s()' % n.func.attr))
    return out


ENV_CALLS = {'getcwd', 'getcwdb', 'chdir', 'abspath', 'realpath', 'absolute', 'resolve', 'cwd', 'expanduser', 'getenv'}


def envdep(fn):
    """calls whose result depends on process-wide mutable environment (working directory, environment variables)"""
    out = []
    for n in ast.walk(fn):
        if isinstance(n, ast.Call) and isinstance(n.func, ast.Attribute) and n.func.attr in ENV_CALLS:
            base = unparse(n.func.value)
            if n.func.attr in ('abspath', 'realpath') and n.args and isinstance(n.args[0], ast.Name) and n.args[0].id == '__file__':
                continue
            # making absolute a path that was just found to exist relative to the working directory is the caller's explicit choice
            arg0 = unparse(n.args[0]) if n.args else base
            found = False
            c_, p_ = n, getattr(n, '_parent', None)
            while p_ is not None and p_ is not fn:
                if isinstance(p_, ast.If) and any(c_ is s_ or any(c_ is y for y in ast.walk(s_)) for s_ in p_.body):
                    for t_ in ast.walk(p_.test):
                        if isinstance(t_, ast.Call) and isinstance(t_.func, ast.Attribute) and t_.func.attr in ('isfile', 'exists', 'isdir', 'is_file') \
                                and ((t_.args and unparse(t_.args[0]) == arg0) or unparse(t_.func.value) == arg0):
                            found = True
                c_, p_ = p_, getattr(p_, '_parent', None)
            if found:
                continue
            if n.func.attr in ('absolute', 'resolve', 'cwd', 'expanduser') or base.split('.')[0] in ('os', 'Path', 'pathlib'):
                out.append(('ENVDEP', n.lineno,
                            '`%s` depends on the working directory / environment of the process at the time of the call: the same arguments give '
                            'another answer after an os.chdir()' % unparse(n)[:60], '%s()' % n.func.attr))
    return out


def stripset(fn):
    """STRIPSET: x.strip / lstrip / rstrip(S) with a constant S of two or more characters that reads as a prefix / suffix rather than
    as a set of characters: a character occurs twice in it, or it mixes digits with other visible characters ('.0', '0:',
    'T00:00:00.000Z').  str.strip takes a character SET: rstrip('.0') also eats the zeros of '40.0' -> '4'."""
    out = []
    for n in ast.walk(fn):
        if isinstance(n, ast.Call) and isinstance(n.func, ast.Attribute) and n.func.attr in ('strip', 'lstrip', 'rstrip') \
                and len(n.args) == 1 and not n.keywords and isinstance(n.args[0], ast.Constant) and isinstance(n.args[0].value, str):
            S = n.args[0].value
            if len(S) < 2:
                continue
            repeated = len(set(S)) < len(S)
            digits = [c for c in S if c.isdigit()]
            others = [c for c in S if not c.isdigit() and not c.isspace()]
            if repeated or (digits and others):
                out.append(('STRIPSET', n.lineno,
                            '`%s`: the argument of %s is a SET of characters, not a %s: every trailing/leading run of the characters %s is removed '
                            '(e.g. %r loses more than the affix)' % (unparse(n)[:70], n.func.attr, 'suffix' if n.func.attr == 'rstrip' else 'prefix',
                                                                   sorted(set(S)), ('4' + S if n.func.attr != 'rstrip' else '40' + S[-2:] if len(S) > 1 else S)),
                            '%s(%r)' % (n.func.attr, S)))
    return out


def scan(repo, scope):
    """[(rel, qualname or '<module>', rule, lineno, message, key)] over the functions of `scope` and the module level of their files"""
    out = []
    by_rel = {}
    for rel, q in scope:
        by_rel.setdefault(rel, []).append(q)
    n_fn = 0
    fn_index = {}
    for m_ in repo.all_python():
        if m_.rel.startswith('athlib/'):
            for q_, f_ in m_.functions.items():
                if '.' not in q_:
                    fn_index.setdefault(q_, f_)
    method_index = {}
    for m_ in repo.all_python():
        if m_.rel.startswith('athlib/'):
            for q_, f_ in m_.functions.items():
                if '.' in q_:
                    method_index.setdefault(q_.split('.')[-1], []).append(f_)
    for rel, qs in sorted(by_rel.items()):
        mod = repo.module(rel)
        fns = [(q, mod.functions[q]) for q in sorted(qs) if q in mod.functions]
        for q, fn in fns:
            n_fn += 1
            for rule, line, msg, key in idx0(fn) + stale(fn) + unitguess(fn) + typeerase(fn, fn_index) + argswap(fn, fn_index, method_index) + mutdef(fn) + findspan(fn) + envdep(fn) + stripset(fn):
                out.append((rel, q, rule, line, msg, key))
        for q, rule, line, msg, key in oneshot(mod, fns):
            out.append((rel, q, rule, line, msg, key))
        for rule, line, msg, key in concat(mod):
            out.append((rel, '<module>', rule, line, msg, key))
    return out, n_fn
