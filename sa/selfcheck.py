"""setup-time liveness fixtures of the engines (validates the tools, not the properties).
Each engine is exercised on a tiny embedded example that must behave as stated; exit 0/2."""
import ast
import re
import re._parser as sp
import sys

from . import rx, regops as ro, fold
from .cfg import CFG


def main():
    bad = []
    # E3: automata vs re.match on a fixed battery
    pats = [r"^(?:[sS]?[dD][tT](?P<n>\s*\d\.?\d*\s*[Kk][Gg]?|)|[hH][jJ])$", r"^\d+\.\d*", r"^(\d{1,2}:)?(\d{1,2})(\.?\d+)?$",
            r"^(?:(?P<h>\d\d?)([hH](?:[rR]|[wW]))|[tT](?P<m>\d+))$", r"^NT$", r"^[^ab]x?$"]
    parsed = [sp.parse(p) for p in pats]
    A = rx.Alphabet(parsed, extra_chars=' .:0123456789abcxKkGgNTdDtThHjJ\n\t')
    strs = ['', 'DT', 'dt1.5kg', 'DT 1.50 K', 'HJ', 'hj\n', 'HJ\n\n', '12', '12.', '12.5x', '1:02.5', '1:2:3', 'NT', 'NT\n', 'NTx',
            '24HR', 'T30', 't', 'cx', 'c', 'ax', 'c\n', '\n', 'DT\t1kg', 'DT١kg', 'sdt', 'SDT2K ', '99:59', '1.', '.5', '5.5.5']
    n = 0
    for p, pr in zip(pats, parsed):
        d = rx.determinize(rx.nfa_of(pr, A))
        c = re.compile(p)
        for s in strs:
            n += 1
            if rx.accepts(d, s) != bool(c.match(s)):
                bad.append('automaton/re.match mismatch: %r on %r' % (p, s))
    # regops: strip_trailing / drop_last / first_token on a finite language
    L = ro.const_lang(A, '1.500')
    z = ro.strip_trailing(L, frozenset([A.block_of('0')]))
    if not rx.accepts(z, '1.5') or rx.accepts(z, '1.50'):
        bad.append('strip_trailing')
    if not rx.accepts(ro.drop_last(L, 2), '1.5'):
        bad.append('drop_last')
    if not rx.accepts(ro.first_token(ro.const_lang(A, ' DT 1kg'), frozenset(b for b in range(A.n) if A.reps[b].isspace())), 'DT'):
        bad.append('first_token')
    # E2: folder on a closed initialiser
    src = "import re\ndef j(*r):\n    return '|'.join(x.pattern for x in r)\nA = re.compile('a')\nB = re.compile(j(A, A))\nT = tuple(x.upper() for x in ('a','b'))\n"
    env = fold.Folder().fold_module(ast.parse(src))
    if getattr(env.get('B'), 'pattern', None) != 'a|a' or env.get('T') != ('A', 'B'):
        bad.append('folder')
    # CFG: raise inside if reaches exit_raise
    f = ast.parse("def f(x):\n    if x:\n        raise ValueError()\n    return 1\n").body[0]
    g = CFG(f)
    if not any(s is g.exit_raise for nd in g.nodes for s, _ in nd.succ):
        bad.append('cfg')
    for b in bad:
        print('SELFCHECK failed: ' + b)
    print('SELFCHECK %s (%d automaton/re.match comparisons)' % ('ok' if not bad else 'FAILED', n))
    return 0 if not bad else 2


if __name__ == '__main__':
    sys.exit(main())
