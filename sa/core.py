"""E9: findings, obligations, evidence, known findings, exit codes.

Exit codes: 0 property held on everything analysed (open known findings are printed as
KNOWN-FINDING lines), 1 at least one finding that known_findings.json does not list
(a `VIOLATION property=<id> replay=<path>` line is printed), 2 ANALYSIS-ERROR (the
analyser could not fill a slot / an anchor vanished / an instance floor was missed).
"""
import hashlib
import json
import os
import time

VERIF = os.path.dirname(os.path.dirname(os.path.abspath(__file__)))


class AnalysisError(Exception):
    """The analyser cannot decide: anchor vanished, construct outside the supported subset."""


class Finding:
    def __init__(self, prop, rule, construct, file, line, message, witness=None):
        self.prop = prop
        self.rule = rule
        self.construct = construct      # stable key: never a line number
        self.file = file
        self.line = line
        self.message = message
        self.witness = witness

    def key(self):
        return (self.prop, self.rule, self.construct)

    def as_dict(self):
        return {'property': self.prop, 'rule': self.rule, 'construct': self.construct,
                'file': self.file, 'line': self.line, 'message': self.message,
                'witness': self.witness}

    def text(self):
        loc = '%s:%s' % (self.file, self.line) if self.line else self.file
        w = (' | witness: %r' % (self.witness,)) if self.witness is not None else ''
        return '%s %s [%s] %s: %s%s' % (self.prop, self.rule, self.construct, loc, self.message, w)


def norm_stmt(text):
    """normalised statement text used in construct keys (whitespace-insensitive)"""
    return ' '.join(str(text).split())


class Context:
    """per-run collector handed to a property check"""

    def __init__(self, prop, tier, repo, seed=0):
        self.prop = prop
        self.tier = tier
        self.repo = repo
        self.seed = seed
        self.findings = []
        self.infos = []
        self.obligations = []       # (rule, description, ok, detail)
        self.analysed = {}          # label -> count or list
        self.rules = {}             # rule -> one line
        self.floors = []            # (label, got, minimum)
        self.samples = []
        self.assumptions = []
        self.explanation = ''
        self.extra = {}
        self.t0 = time.time()
        self._seen = set()

    # ---- recording
    def rule(self, rid, text):
        self.rules[rid] = text

    def finding(self, rule, construct, file, line, message, witness=None):
        f = Finding(self.prop, rule, norm_stmt(construct), file, line, message, witness)
        if f.key() in self._seen:
            return
        self._seen.add(f.key())
        self.findings.append(f)
        self.obligations.append((rule, norm_stmt(construct), False, message))

    def ok(self, rule, description, detail=None):
        """an obligation that was checked and holds"""
        self.obligations.append((rule, norm_stmt(description), True, detail))

    def info(self, text):
        self.infos.append(text)

    def count(self, label, n):
        self.analysed[label] = self.analysed.get(label, 0) + n

    def note(self, label, value):
        self.analysed[label] = value

    def floor(self, label, got, minimum):
        """instance-count floor confirmed by hand on the pinned tree; evaluated after the check has run: missing it
        without any finding that explains it is an ANALYSIS-ERROR (a rule matching too few sites passes vacuously)"""
        self.floors.append((label, got, minimum))

    def check_floors(self):
        if self.findings:
            return
        for label, got, minimum in self.floors:
            if got < minimum:
                raise AnalysisError('instance floor missed: %s = %d < %d (a rule matching too few sites would pass '
                                    'vacuously)' % (label, got, minimum))

    def sample(self, s):
        if len(self.samples) < 40:
            self.samples.append(s)

    def assume(self, text):
        if text not in self.assumptions:
            self.assumptions.append(text)


# ---------------------------------------------------------------- known findings
def load_known():
    p = os.path.join(VERIF, 'known_findings.json')
    if not os.path.exists(p):
        return []
    with open(p) as f:
        return json.load(f)['findings']


def split_findings(ctx):
    known = [k for k in load_known() if k['property'] == ctx.prop]
    open_keys = {(k['property'], k['rule'], norm_stmt(k['construct'])): k for k in known if k.get('status') == 'open'}
    fixed_keys = {(k['property'], k['rule'], norm_stmt(k['construct'])): k for k in known if k.get('status') == 'fixed'}
    new, kf, returned = [], [], []
    for f in ctx.findings:
        if f.key() in open_keys:
            kf.append((f, open_keys[f.key()]))
        else:
            new.append(f)
            if f.key() in fixed_keys:
                returned.append(f)
    absent_open = [k for key, k in open_keys.items() if key not in {f.key() for f in ctx.findings}]
    return new, kf, returned, absent_open


# ---------------------------------------------------------------- evidence
def jsonable(x, depth=0):
    if depth > 12:
        return str(x)
    if isinstance(x, (str, int, float, bool)) or x is None:
        return x
    if isinstance(x, dict):
        return {(k if isinstance(k, str) else str(k)): jsonable(v, depth + 1) for k, v in x.items()}
    if isinstance(x, (list, tuple, set, frozenset)):
        return [jsonable(v, depth + 1) for v in (sorted(x, key=str) if isinstance(x, (set, frozenset)) else x)]
    return str(x)


def write_evidence(ctx, level, new, kf, status):
    obligations = len(ctx.obligations)
    discharged = sum(1 for o in ctx.obligations if o[2])
    distinct = len({(o[0], o[1]) for o in ctx.obligations})
    samples = list(ctx.samples)
    for o in ctx.obligations[:12]:
        samples.append({'rule': o[0], 'obligation': o[1], 'holds': o[2], 'detail': o[3]})
    cov = {
        'explanation': ctx.explanation or 'static analysis of the working tree; see rules',
        'rules': ctx.rules,
        'analysed': ctx.analysed,
        'instance_floors': [{'what': a, 'found': b, 'minimum': c} for a, b, c in ctx.floors],
        'evaluations': obligations,
        'distinct_nontrivial': distinct,
        'rule': 'one evaluation = one obligation (rule instance at a concrete construct: call site, path, table '
                'cell, language inclusion); distinct = distinct (rule, construct) pairs; all are non-trivial in '
                'that each names a construct found in the parsed tree',
        'samples': samples or [{'note': 'no obligations'}],
        'obligations': obligations,
        'discharged': discharged,
        'checker_cmd': './check %s --tier %s' % (ctx.prop, ctx.tier),
        'trusted_base': ctx.extra.get('trusted_base', ['CPython ast/sre parsers', '/verif/sa engines']),
        'exhaustive': bool(ctx.extra.get('exhaustive', False)),
        'findings_new': [f.as_dict() for f in new],
        'findings_known': [f.as_dict() for f, _ in kf],
        'infos': ctx.infos[:50],
        'status': status,
    }
    for k, v in ctx.extra.items():
        if k not in cov:
            cov[k] = v
    ev = {
        'property_id': ctx.prop,
        'tier': ctx.tier,
        'seed': int(ctx.seed),
        'level': level,
        'coverage': cov,
        'assumptions': ctx.assumptions,
        'wall_s': round(time.time() - ctx.t0, 3),
        'violations': len(new),
    }
    d = os.path.join(VERIF, 'evidence')
    os.makedirs(d, exist_ok=True)
    tmp = os.path.join(d, '.%s.json.tmp' % ctx.prop)
    with open(tmp, 'w') as f:
        json.dump(jsonable(ev), f, indent=1)
    os.replace(tmp, os.path.join(d, '%s.json' % ctx.prop))
    return ev


def write_replay(ctx, new):
    d = os.path.join(VERIF, 'out', 'replay')
    os.makedirs(d, exist_ok=True)
    h = hashlib.sha1(json.dumps([f.as_dict() for f in new], sort_keys=True, default=str).encode()).hexdigest()[:10]
    p = os.path.join(d, '%s-%s.json' % (ctx.prop, h))
    with open(p, 'w') as f:
        json.dump({'property': ctx.prop, 'tier': ctx.tier, 'repo': ctx.repo,
                   'findings': [x.as_dict() for x in new]}, f, indent=1, default=str)
    return p
