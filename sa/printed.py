"""Rule PRINTED ("the value checked is the value printed").

A validator that returns `'%.Nf' % v` prints v rounded to N decimals (to nearest).  If the guards that decided to accept v
looked at the raw float, a value just below a threshold c on the N-decimal grid passes the guard and prints as c, and the
printed text is refused (or answered differently) when validated again.  Structural necessary conditions, decided by a
must-dataflow ("v is quantised") over the statement CFG of the function, on the paths that can reach the format:

  P1  at the format, v is quantised: its last assignment is round(., k) with k <= N
  P2  every quantity derived from v (an assignment to another name whose right side reads v) on a path to the format is
      computed from the quantised v
  P3  every raise-guard that compared the raw v with a constant c has a counterpart after the quantisation (a test of the
      quantised v against c that refuses or carries)

Tests over parameters that are never assigned (e.g. `prec is None`) are correlated: the analysis assumes the polarity
under which the format statement is reached and prunes the contradicting branches.
"""
import ast
import re

from .cfg import CFG

FLOAT_SPEC = re.compile(r'%(?:\(\w+\))?[#0\- +]*\d*(?:\.(\d+))?([fFeEgGdsr%])')


def float_formats(fn):
    """[(BinOp node, operand Name, decimals)] for '%..f' formats outside raise statements"""
    out = []
    for n in ast.walk(fn):
        if isinstance(n, ast.BinOp) and isinstance(n.op, ast.Mod) and isinstance(n.left, ast.Constant) and isinstance(n.left.value, str):
            p = getattr(n, '_parent', None)
            in_raise = False
            while p is not None and p is not fn:
                if isinstance(p, ast.Raise):
                    in_raise = True
                p = getattr(p, '_parent', None)
            par = getattr(n, '_parent', None)
            if in_raise or (isinstance(par, ast.Call) and isinstance(par.func, ast.Name) and par.func.id in ('float', 'Decimal')):
                continue        # error message, or the quantising idiom float('%.2f' % x)
            specs = [(m.group(1), m.group(2)) for m in FLOAT_SPEC.finditer(n.left.value) if m.group(2) != '%']
            args = n.right.elts if isinstance(n.right, ast.Tuple) else [n.right]
            if len(specs) != len(args):
                continue
            for (dec, conv), a in zip(specs, args):
                if conv in 'fF' and isinstance(a, ast.Name):
                    out.append((n, a.id, int(dec) if dec is not None else 6))
    return out


def stmt_of(n):
    while not isinstance(n, ast.stmt):
        n = n._parent
    return n


def reads(e, v):
    return any(isinstance(x, ast.Name) and x.id == v and isinstance(x.ctx, ast.Load) for x in ast.walk(e))


def is_quantising(value, places):
    if isinstance(value, ast.Constant) and isinstance(value.value, (int, float)) and not isinstance(value.value, bool):
        return round(value.value, places) == value.value
    if isinstance(value, ast.Call) and isinstance(value.func, ast.Name) and value.func.id == 'round' and len(value.args) == 2 \
            and isinstance(value.args[1], ast.Constant) and isinstance(value.args[1].value, int) and value.args[1].value <= places:
        return True
    # float('%.2f' % x)
    if isinstance(value, ast.Call) and isinstance(value.func, ast.Name) and value.func.id == 'float' and value.args \
            and isinstance(value.args[0], ast.BinOp) and isinstance(value.args[0].op, ast.Mod) and isinstance(value.args[0].left, ast.Constant):
        m = FLOAT_SPEC.fullmatch(str(value.args[0].left.value))
        return bool(m and m.group(2) in 'fF' and m.group(1) is not None and int(m.group(1)) <= places)
    return False


def assumptions(fn, node):
    """{test text: polarity} from the ancestor ifs of node whose tests read only never-assigned parameters"""
    assigned = set()
    for n in ast.walk(fn):
        if isinstance(n, ast.Name) and isinstance(n.ctx, ast.Store):
            assigned.add(n.id)
    params = {a.arg for a in fn.args.args + fn.args.kwonlyargs} - assigned
    out = {}
    c, p = node, getattr(node, '_parent', None)
    while p is not None and p is not fn:
        if isinstance(p, ast.If):
            names = {x.id for x in ast.walk(p.test) if isinstance(x, ast.Name)}
            if names and names <= params:
                out[ast.unparse(p.test)] = any(c is s for s in p.body)
        c, p = p, getattr(p, '_parent', None)
    return out


def analyse(fn):
    """[(rule, variable, lineno, message, key)], n_formats"""
    problems = []
    fmts = float_formats(fn)
    g = CFG(fn)
    done = set()
    for fnode, v, places in fmts:
        fstmt = stmt_of(fnode)
        if (id(fstmt), v) in done:
            continue
        done.add((id(fstmt), v))
        assume = assumptions(fn, fnode)

        def succs(nd):
            for s, lab in nd.succ:
                if nd.kind == 'test' and lab in ('T', 'F'):
                    pol = assume.get(ast.unparse(nd.ast))
                    if pol is not None and pol != (lab == 'T'):
                        continue
                yield s
        # nodes that can reach the format statement
        target = [nd for nd in g.nodes if nd.kind in ('stmt', 'return') and nd.ast is fstmt]
        if not target:
            continue
        preds = {}
        for nd in g.nodes:
            for s in succs(nd):
                preds.setdefault(s.id, []).append(nd)
        can = set()
        work = list(target)
        while work:
            nd = work.pop()
            if nd.id in can:
                continue
            can.add(nd.id)
            work += preds.get(nd.id, [])
        # forward must-dataflow Q(v); None = not reached yet
        Q = {g.entry.id: False}
        work = [g.entry]
        while work:
            nd = work.pop()
            q = Q[nd.id]
            a = nd.ast
            if nd.kind == 'stmt' and isinstance(a, (ast.Assign, ast.AugAssign, ast.AnnAssign)):
                tg = a.targets if isinstance(a, ast.Assign) else [a.target]
                flat = []
                for t in tg:
                    flat += t.elts if isinstance(t, (ast.Tuple, ast.List)) else [t]
                if any(isinstance(t, ast.Name) and t.id == v for t in flat):
                    q = isinstance(a, ast.Assign) and is_quantising(a.value, places)
            for s in succs(nd):
                if s.id not in can:
                    continue
                new = q if s.id not in Q else (Q[s.id] and q)
                if s.id not in Q or new != Q[s.id]:
                    Q[s.id] = new
                    work.append(s)
        raw_guards = []
        quant_consts = set()
        for nd in g.nodes:
            if nd.id not in can or nd.id not in Q:
                continue
            a = nd.ast
            q = Q[nd.id]
            if nd.kind in ('stmt', 'return') and a is fstmt and not q:
                problems.append(('P1', v, fstmt.lineno,
                                 '`%s` prints %s rounded to %d decimals, but the checks before it saw the unrounded value: a value just below a '
                                 'limit passes and prints as the limit, so the returned text is refused or changed when validated again'
                                 % (ast.unparse(fnode), v, places), 'format of %s' % v))
            if nd.kind == 'stmt' and isinstance(a, ast.Assign) and not q and reads(a.value, v) and a is not fstmt:
                tnames = [t.id for t in a.targets if isinstance(t, ast.Name)]
                if tnames and v not in tnames and not is_quantising(a.value, places):
                    problems.append(('P2', v, a.lineno,
                                     '`%s` is computed from the unrounded %s, while %s is printed with %d decimals: limits checked on %s '
                                     'can differ between a value and its printed form' % (ast.unparse(a)[:80], v, v, places, tnames[0]),
                                     '%s derived from raw %s' % (tnames[0], v)))
            if nd.kind == 'test':
                for c in ast.walk(a):
                    if isinstance(c, ast.Compare) and len(c.ops) == 1 and isinstance(c.left, ast.Name) and c.left.id == v:
                        consts = {x.value for x in ast.walk(c.comparators[0]) if isinstance(x, ast.Constant)
                                  and isinstance(x.value, (int, float)) and not isinstance(x.value, bool)}
                        if q:
                            quant_consts |= consts
                        elif isinstance(c.ops[0], (ast.Gt, ast.GtE)) and isinstance(c.comparators[0], ast.Constant):
                            # raw guard: does its true branch refuse?
                            ifs = getattr(a, '_parent', None)
                            if isinstance(ifs, ast.If) and any(isinstance(x, ast.Raise) for s in ifs.body for x in ast.walk(s)):
                                raw_guards.append((c, consts))
        # P4: the limits examined in raise-guards on v are examined again after every assignment that gives v a new magnitude
        def pure_requantise(value):
            return (isinstance(value, ast.Call) and isinstance(value.func, ast.Name) and value.func.id == 'round' and value.args
                    and isinstance(value.args[0], ast.Name) and value.args[0].id == v)
        all_limits = set()
        guard_at = {}
        for nd in g.nodes:
            if nd.id in can and nd.kind == 'test':
                ifs = getattr(nd.ast, '_parent', None)
                refuses = isinstance(ifs, ast.If) and any(isinstance(x, ast.Raise) for s_ in ifs.body for x in ast.walk(s_))
                if not refuses:
                    continue
                for c in ast.walk(nd.ast):
                    if isinstance(c, ast.Compare) and len(c.ops) == 1 and isinstance(c.left, ast.Name) and c.left.id == v \
                            and isinstance(c.ops[0], (ast.Gt, ast.GtE)) and isinstance(c.comparators[0], ast.Constant) \
                            and isinstance(c.comparators[0].value, (int, float)):
                        guard_at.setdefault(nd.id, set()).add(c.comparators[0].value)
                        all_limits.add(c.comparators[0].value)
        if all_limits:
            S = {g.entry.id: frozenset()}
            work = [g.entry]
            while work:
                nd = work.pop()
                cur = S[nd.id]
                a = nd.ast
                if nd.kind == 'stmt' and isinstance(a, (ast.Assign, ast.AugAssign)):
                    tg = a.targets if isinstance(a, ast.Assign) else [a.target]
                    flat = []
                    for t in tg:
                        flat += t.elts if isinstance(t, (ast.Tuple, ast.List)) else [t]
                    if any(isinstance(t, ast.Name) and t.id == v for t in flat):
                        if not (isinstance(a, ast.Assign) and (pure_requantise(a.value) or isinstance(a.value, ast.Constant))):
                            cur = frozenset()
                if nd.id in guard_at:
                    cur = cur | guard_at[nd.id]
                for s_ in succs(nd):
                    if s_.id not in can:
                        continue
                    new = cur if s_.id not in S else (S[s_.id] & cur)
                    if s_.id not in S or new != S[s_.id]:
                        S[s_.id] = new
                        work.append(s_)
            for nd in target:
                miss = all_limits - S.get(nd.id, frozenset())
                if miss:
                    problems.append(('P4', v, fstmt.lineno,
                                     '%s is compared with the limit(s) %s before it is given a new value on some path to `%s`, and not again '
                                     'afterwards: the new value can be printed beyond a limit that the validation of the printed text enforces'
                                     % (v, sorted(miss), ast.unparse(fnode)), 'limits %s not re-examined' % sorted(miss)))
        for c, consts in raw_guards:
            missing = consts - quant_consts
            if missing and not any(p[0] == 'P1' and p[1] == v for p in problems):
                problems.append(('P3', v, c.lineno,
                                 'the guard `%s` looks at the unrounded %s; after the rounding to %d decimals nothing compares %s with %s again, so '
                                 'a value that rounds up to the limit is printed at the limit' % (ast.unparse(c), v, places, v, sorted(missing)),
                                 'raw guard %s' % ast.unparse(c)))
    return problems, len(fmts)
