"""E5 T-TABLE: guard-prefix evaluation of a method over a finite state-label domain.

The method body is evaluated statement by statement until the first effectful statement (the guards are then
behind us).  Conditions that compare the state attribute with constants are evaluated exactly; orderings between
two non-constant expressions become a 3-valued atom; every other atomic condition becomes a free boolean atom keyed
by its normalised text.  All valuations are enumerated and projected away by the caller.
"""
import ast
import itertools
import operator

from .core import AnalysisError

ORD = {'lt': -1, 'eq': 0, 'gt': 1}


class _Raise(Exception):
    pass


class _Proceed(Exception):
    pass


class GuardTable:
    def __init__(self, fn, states, state_attr='state', self_name='self', consts=None):
        self.fn = fn
        self.consts = consts or {}      # module-level constants of string / tuple-of-string type (folded), e.g. named state groups
        self.states = states
        self.state_attr = state_attr
        self.self_name = self_name
        self.atoms = {}

    def is_state(self, e, env):
        return (isinstance(e, ast.Attribute) and e.attr == self.state_attr and isinstance(e.value, ast.Name)
                and e.value.id == self.self_name) or (isinstance(e, ast.Name) and env.get('@alias:' + e.id) == 'state')

    def run(self, state, valuation):
        atoms = self.atoms
        env = {}
        wrote_state = []

        def ev(e):
            if self.is_state(e, env):
                return env.get('@state', state)
            if isinstance(e, ast.Constant):
                return e.value
            if isinstance(e, ast.Name) and e.id in self.consts and ('@alias:' + e.id) not in env:
                return self.consts[e.id]
            if isinstance(e, (ast.Tuple, ast.List, ast.Set)):
                return tuple(ev(x) for x in e.elts)
            if isinstance(e, ast.BoolOp):
                if isinstance(e.op, ast.And):
                    v = True
                    for x in e.values:
                        v = ev(x)
                        if not v:
                            return v
                    return v
                v = False
                for x in e.values:
                    v = ev(x)
                    if v:
                        return v
                return v
            if isinstance(e, ast.UnaryOp) and isinstance(e.op, ast.Not):
                return not ev(e.operand)
            if isinstance(e, ast.Compare) and len(e.ops) == 1:
                l, r = e.left, e.comparators[0]
                op = e.ops[0]
                ls, rs = self.is_state(l, env), self.is_state(r, env)
                if ls or rs or (isinstance(l, ast.Constant) and isinstance(r, (ast.Constant, ast.Tuple, ast.List))):
                    a, b = ev(l), ev(r)
                    if isinstance(op, (ast.In, ast.NotIn)) and not isinstance(b, (tuple, list, set, frozenset, str, dict)):
                        raise AnalysisError('the state is tested for membership in %s, which is not a constant collection' % ast.unparse(r))
                    f = {ast.Eq: operator.eq, ast.NotEq: operator.ne, ast.In: lambda x, y: x in y,
                         ast.NotIn: lambda x, y: x not in y}.get(type(op))
                    if f is None:
                        raise AnalysisError('state compared with %s' % type(op).__name__)
                    return f(a, b)
                if isinstance(op, (ast.Lt, ast.LtE, ast.Gt, ast.GtE)) and not isinstance(l, ast.Constant) \
                        and not isinstance(r, ast.Constant):
                    key = 'ord(%s,%s)' % (ast.unparse(l), ast.unparse(r))
                    atoms.setdefault(key, ('lt', 'eq', 'gt'))
                    o = ORD[valuation.get(key, 'lt')]
                    return {ast.Lt: o < 0, ast.LtE: o <= 0, ast.Gt: o > 0, ast.GtE: o >= 0}[type(op)]
            key = ast.unparse(e)
            atoms.setdefault(key, (True, False))
            return valuation.get(key, True)

        def block(stmts):
            for st in stmts:
                if isinstance(st, ast.Expr) and isinstance(st.value, ast.Constant):
                    continue
                if isinstance(st, ast.If):
                    block(st.body if ev(st.test) else st.orelse)
                    continue
                if isinstance(st, ast.Raise):
                    raise _Raise()
                if isinstance(st, ast.Assert):
                    continue
                if isinstance(st, ast.Assign) and len(st.targets) == 1:
                    t = st.targets[0]
                    if isinstance(t, ast.Attribute) and t.attr == self.state_attr and isinstance(st.value, ast.Constant):
                        # a state write among the guards: later guards see the new state, as the code does
                        env['@state'] = st.value.value
                        wrote_state.append(st.value.value)
                        continue
                    if isinstance(t, ast.Name) and self.is_state(st.value, env):
                        env['@alias:' + t.id] = 'state'
                        continue
                    if isinstance(t, ast.Name):
                        continue      # opaque local (prev_height, jumper, j ...)
                    raise _Proceed()
                if isinstance(st, (ast.Return, ast.Expr, ast.For, ast.While, ast.AugAssign, ast.With, ast.Delete)):
                    raise _Proceed()
                if isinstance(st, ast.Pass):
                    continue
                raise AnalysisError('guard table: statement %s at line %d' % (type(st).__name__, st.lineno))
        try:
            block(self.fn.body)
            return 'proceed', wrote_state
        except _Raise:
            return 'raise', wrote_state
        except _Proceed:
            return 'proceed', wrote_state

    def table(self):
        for s in self.states:
            self.run(s, {})
        changed = True
        while changed:
            n = len(self.atoms)
            if n > 12:
                raise AnalysisError('guard table: too many atomic conditions (%d)' % n)
            for s in self.states:
                for vals in itertools.product(*self.atoms.values()):
                    self.run(s, dict(zip(self.atoms, vals)))
            changed = len(self.atoms) != n
        res = {}
        for s in self.states:
            outs = {}
            for vals in itertools.product(*self.atoms.values()):
                outs[vals] = self.run(s, dict(zip(self.atoms, vals)))[0]
            res[s] = outs
        return res
