"""Memo transparency rules for functions that cache results in a container that outlives the call (a module-level
dict, or a dict attribute of self).  A memo is recognised by a store  D[K] = V  whose container D is also read with
the same key expression K in the same function.  Rules (each a necessary condition for "the cached answer equals the
fresh answer"):
  M1 key identity      K is built only from plain names (a name or a tuple of names), each of them a parameter or a
                       local that is the working value the rest of the function uses; a key derived through a lossy
                       operation (upper(), type(), a slice ...) can merge inputs the function distinguishes.
  M2 key completeness  every parameter read on the miss path between the lookup and the store is part of K.
  M3 stored = returned the stored value is the value the miss path returns (not re-assigned between store and return).
  M4 lookup after refusal   no hit-return precedes a refusal guard (raise) of the function unless K is the identity
                       of the parameters the guard tests (covered by M1: a non-identity key before a guard is reported).
"""
import ast

from .src import call_name, stmt_key, unparse


def names(e):
    return {n.id for n in ast.walk(e) if isinstance(n, ast.Name)}


def is_plain_key(k):
    if isinstance(k, ast.Name):
        return True
    if isinstance(k, ast.Tuple):
        return all(isinstance(x, (ast.Name, ast.Constant)) for x in k.elts)
    return False


def container_text(t):
    """text of the container of a subscript target if it outlives the call: module-level name or self attribute"""
    if isinstance(t, ast.Subscript):
        v = t.value
        if isinstance(v, ast.Name):
            return v.id
        if isinstance(v, ast.Attribute) and isinstance(v.value, ast.Name) and v.value.id == 'self':
            return 'self.' + v.attr
    return None


def find_memos(fn, module_containers):
    """[(container text, key node, store node, value node)] for stores into long-lived containers that are also read"""
    params = {a.arg for a in fn.args.args + fn.args.kwonlyargs}
    local_containers = set()
    for n in ast.walk(fn):
        if isinstance(n, ast.Assign) and isinstance(n.value, (ast.Dict, ast.List, ast.DictComp)) or \
                (isinstance(n, ast.Assign) and isinstance(n.value, ast.Call) and call_name(n.value) in ('dict', 'list', 'OrderedDict')):
            for t in n.targets:
                if isinstance(t, ast.Name):
                    local_containers.add(t.id)
    out = []
    # stores through the library's helper:  _add_to_cache(D, K, V)
    for n in ast.walk(fn):
        if isinstance(n, ast.Call) and call_name(n) == '_add_to_cache' and len(n.args) >= 3 and isinstance(n.args[0], ast.Name) \
                and n.args[0].id in module_containers:
            fake = ast.Assign(targets=[ast.Subscript(value=n.args[0], slice=n.args[1], ctx=ast.Store())], value=n.args[2])
            ast.copy_location(fake, n)
            fake.lineno = n.lineno
            out.append((n.args[0].id, n.args[1], fake, n.args[2]))
    for n in ast.walk(fn):
        if not isinstance(n, ast.Assign):
            continue
        for t in n.targets:
            c = container_text(t)
            if c is None:
                continue
            if not (c.startswith('self.') or (c in module_containers and c not in params and c not in local_containers)):
                continue
            key = t.slice
            ktxt = ast.unparse(key)
            # is the container read with the same key (hit path)?
            read = False
            for m in ast.walk(fn):
                if isinstance(m, ast.Subscript) and isinstance(m.ctx, ast.Load) and container_text(m) == c and ast.unparse(m.slice) == ktxt:
                    read = True
                if isinstance(m, ast.Call) and isinstance(m.func, ast.Attribute) and m.func.attr == 'get' and m.args \
                        and ast.unparse(m.func.value) == c and ast.unparse(m.args[0]) == ktxt:
                    read = True
            if read:
                out.append((c, key, n, n.value))
    return out


def working_names(fn, upto_line):
    """parameters and locals re-bound from themselves (p = p.strip()) before upto_line: the working values"""
    params = {a.arg for a in fn.args.args + fn.args.kwonlyargs} - {'self', 'cls'}
    return params


def analyse(fn, module_containers, cls_node=None):
    """[(rule, message, node)]"""
    out = []
    # containers defined in the class body and never re-bound per instance are shared by all instances
    class_level = set()
    if cls_node is not None:
        per_instance = {t.attr for f in cls_node.body if isinstance(f, ast.FunctionDef) for n in ast.walk(f)
                        if isinstance(n, ast.Assign) for t in n.targets
                        if isinstance(t, ast.Attribute) and isinstance(t.value, ast.Name) and t.value.id == 'self'}
        for st in cls_node.body:
            if isinstance(st, (ast.Assign, ast.AnnAssign)):
                for t in (st.targets if isinstance(st, ast.Assign) else [st.target]):
                    if isinstance(t, ast.Name) and t.id not in per_instance:
                        class_level.add('self.' + t.id)
    params = {a.arg for a in fn.args.args + fn.args.kwonlyargs} - {'self', 'cls'}
    memos = find_memos(fn, module_containers)
    for cont, key, store, value in memos:
        ktxt = ast.unparse(key)
        knames = names(key)
        # key variable defined from an expression?  resolve one level:  key = <expr>
        kdefs = {}
        for n in ast.walk(fn):
            if isinstance(n, ast.Assign) and len(n.targets) == 1 and isinstance(n.targets[0], ast.Name) and n.targets[0].id in knames \
                    and n.targets[0].id not in params and n.lineno <= store.lineno:
                kdefs.setdefault(n.targets[0].id, []).append(n.value)
        # M1
        lossy = None
        if not is_plain_key(key):
            lossy = ktxt
        for kn, defs in kdefs.items():
            for d in defs:
                if not is_plain_key(d):
                    lossy = '%s = %s' % (kn, unparse(d))
        if lossy:
            out.append(('M1', 'the memo %s is keyed by %s, which is not the plain argument(s): inputs that the function '
                        'distinguishes can share an entry, so an answer (or a refusal) depends on what was asked before' % (cont, lossy), store))
        # effective key parameters
        kparams = set()
        for kn in knames:
            if kn in params:
                kparams.add(kn)
            for d in kdefs.get(kn, []):
                kparams |= names(d) & params
        # the lookup (first read of the container with this key)
        look = None
        for m in ast.walk(fn):
            if (isinstance(m, ast.Subscript) and container_text(m) == cont and isinstance(m.ctx, ast.Load)) or \
                    (isinstance(m, ast.Compare) and any(ast.unparse(c) == cont for c in m.comparators)) or \
                    (isinstance(m, ast.Call) and isinstance(m.func, ast.Attribute) and m.func.attr == 'get' and ast.unparse(m.func.value) == cont):
                if look is None or m.lineno < look:
                    look = m.lineno
        look = look or fn.lineno
        # M2: parameters read on the miss path between lookup and store
        used = set()
        for n in ast.walk(fn):
            ln = getattr(n, 'lineno', None)
            if ln is not None and look < ln <= store.lineno and isinstance(n, ast.Name) and isinstance(n.ctx, ast.Load) and n.id in params \
                    and _can_flow_to(fn, n, store):
                used.add(n.id)
        missing = sorted(used - kparams)
        if missing:
            out.append(('M2', 'the memo %s is keyed by %s but the value it stores is computed from the parameter(s) %s as well: a later '
                        'call with the same key and another %s gets the answer of the earlier call' % (cont, ktxt, ', '.join(missing), missing[0]), store))
        # M5: a memo in a class-level container is shared by every instance; if the miss path consults the instance (self.attr,
        # self.method()) the instance is an input that the key does not separate
        if cont in class_level:
            inst = sorted({'self.' + n.attr for n in ast.walk(fn) if isinstance(n, ast.Attribute) and isinstance(n.value, ast.Name)
                           and n.value.id == 'self' and isinstance(n.ctx, ast.Load) and 'self.' + n.attr != cont
                           and look <= getattr(n, 'lineno', 0) <= store.lineno})
            if inst and 'self' not in knames:
                out.append(('M5', 'the memo %s lives in the class body, so every instance shares it, but the value it stores is computed from '
                            'the instance (%s) and the key %s does not identify the instance: two instances built with different data '
                            'answer from one table' % (cont, ', '.join(inst[:4]), ktxt), store))
        # M3: stored value is what the miss path returns
        stored_name = value.id if isinstance(value, ast.Name) else None
        if len(store.targets) > 1:
            for t in store.targets:
                if isinstance(t, ast.Name):
                    stored_name = t.id
        later_rets = [r for r in ast.walk(fn) if isinstance(r, ast.Return) and r.lineno >= store.lineno and r.value is not None]
        if stored_name and later_rets:
            for r in later_rets:
                rn = r.value.id if isinstance(r.value, ast.Name) else None
                reassigned = [a for a in ast.walk(fn) if isinstance(a, (ast.Assign, ast.AugAssign)) and store.lineno < a.lineno <= r.lineno
                              and any(isinstance(x, ast.Name) and x.id == stored_name for t in (a.targets if isinstance(a, ast.Assign) else [a.target]) for x in ast.walk(t))]
                if rn == stored_name and reassigned:
                    out.append(('M3', 'the memo %s stores %s before it is finished (%s comes after the store): a repeated call returns the '
                                'unfinished value' % (cont, stored_name, stmt_key(reassigned[0])), store))
                    break
                if rn is not None and rn != stored_name and not (isinstance(r.value, ast.Subscript)):
                    # returns another name: is it derived from the stored one?
                    defs = [a.value for a in ast.walk(fn) if isinstance(a, ast.Assign) and store.lineno < a.lineno <= r.lineno
                            and any(isinstance(t, ast.Name) and t.id == rn for t in a.targets)]
                    if defs and any(stored_name in names(d) for d in defs):
                        out.append(('M3', 'the memo %s stores %s but the call returns %s, computed from it after the store: a repeated '
                                    'call returns the stored, unfinished value' % (cont, stored_name, rn), store))
                        break
    return out, memos


MUTATORS = {'append', 'extend', 'insert', 'pop', 'remove', 'clear', 'sort', 'reverse', 'update', 'setdefault', 'add',
            'discard', 'popitem', '__setitem__', '__delitem__'}


def _terminates(body):
    if not body:
        return False
    last = body[-1]
    if isinstance(last, (ast.Return, ast.Raise, ast.Continue, ast.Break)):
        return True
    if isinstance(last, ast.If) and last.orelse:
        return _terminates(last.body) and _terminates(last.orelse)
    return False


def _can_flow_to(fn, node, target):
    """False only when no execution that evaluates `node` can go on to `target`: node sits in an exception handler and the target is
    in the body / else part of the same try (a handler never continues there), or the handler always leaves the function"""
    parent = {}
    for p in ast.walk(fn):
        for c in ast.iter_child_nodes(p):
            parent[id(c)] = p
    def inside(x, container_nodes):
        ids = {id(y) for c in container_nodes for y in ast.walk(c)}
        return id(x) in ids
    cur = node
    while id(cur) in parent:
        par = parent[id(cur)]
        if isinstance(cur, ast.ExceptHandler) and isinstance(par, ast.Try):
            if inside(target, [cur]):
                return True
            if inside(target, par.body + par.orelse):
                return False
            if _terminates(cur.body) and not inside(target, par.finalbody):
                return False
        cur = par
    return True


def shared_alias_mutations(fn, module_names):
    """[(message, node)]: a local name bound to an element of a module-level table (X = TABLE[k] / TABLE.get(k) / a loop
    variable over TABLE) is mutated in place: the change is visible to every later call"""
    out = []
    gdecl = set()
    for n in ast.walk(fn):
        if isinstance(n, ast.Global):
            gdecl.update(n.names)
    shared = set(module_names) | gdecl
    alias = {}
    for n in ast.walk(fn):
        if isinstance(n, ast.Assign) and len(n.targets) == 1 and isinstance(n.targets[0], ast.Name):
            v = n.value
            root = None
            if isinstance(v, ast.Subscript) and isinstance(v.value, ast.Name) and v.value.id in shared:
                root = v.value.id
            if isinstance(v, ast.Call) and isinstance(v.func, ast.Attribute) and v.func.attr == 'get' and isinstance(v.func.value, ast.Name) \
                    and v.func.value.id in shared:
                root = v.func.value.id
            if root:
                alias.setdefault(n.targets[0].id, []).append((root, n))
    for n in ast.walk(fn):
        tgt = None
        if isinstance(n, ast.Call) and isinstance(n.func, ast.Attribute) and n.func.attr in MUTATORS and isinstance(n.func.value, ast.Name) \
                and n.func.value.id in alias:
            tgt = n.func.value.id
        if isinstance(n, (ast.Assign, ast.AugAssign)):
            for t in (n.targets if isinstance(n, ast.Assign) else [n.target]):
                if isinstance(t, ast.Subscript) and isinstance(t.value, ast.Name) and t.value.id in alias:
                    tgt = t.value.id
        if tgt:
            # a re-binding to a fresh object before the mutation on every path would make it safe; we only accept the
            # case where the name has a second, fresh definition that textually dominates (same block, earlier)
            fresh = [a for a in ast.walk(fn) if isinstance(a, ast.Assign) and any(isinstance(t, ast.Name) and t.id == tgt for t in a.targets)
                     and isinstance(a.value, (ast.Dict, ast.Call)) and not (isinstance(a.value, ast.Call) and call_name(a.value) == 'get')
                     and a.lineno < n.lineno and a.lineno > alias[tgt][0][1].lineno and getattr(a, '_parent', None) is getattr(n, '_parent', None)]
            if fresh:
                continue
            root = alias[tgt][0][0]
            out.append(('%s aliases an entry of the shared table %s (%s) and is then changed in place (%s): the change stays in the table '
                        'for every later call' % (tgt, root, stmt_key(alias[tgt][0][1]), stmt_key(n)), n))
    # the same without a local name for the row: SHARED[k][f] = v / SHARED[k].append(v) - an element of an element of a shared table
    for n in ast.walk(fn):
        tg = []
        if isinstance(n, (ast.Assign, ast.AugAssign)):
            tg = [t for t in (n.targets if isinstance(n, ast.Assign) else [n.target])]
            tg = [x for t in tg for x in (t.elts if isinstance(t, (ast.Tuple, ast.List)) else [t])]
        elif isinstance(n, ast.Call) and isinstance(n.func, ast.Attribute) and n.func.attr in MUTATORS:
            tg = [ast.Subscript(value=n.func.value, slice=ast.Constant(value=0), ctx=ast.Store())] if isinstance(n.func.value, ast.Subscript) else []
        for t in tg:
            if isinstance(t, ast.Subscript) and isinstance(t.value, ast.Subscript):
                b = t.value
                depth = 1
                while isinstance(b, ast.Subscript):
                    b = b.value
                    depth += 1
                if isinstance(b, ast.Name) and b.id in shared and depth >= 2 and b.id not in {x.id for x in ast.walk(fn) if isinstance(x, ast.Name)
                                                                                           and isinstance(x.ctx, ast.Store) and b.id not in gdecl}:
                    out.append(('a row of the shared table %s is changed in place (%s): the change stays in the table for every later call'
                                % (b.id, stmt_key(n)), n))
    return out


def scan_files(repo, rels, skip=()):
    """memo transparency and shared-entry mutation over every function of the given files:
    [(rel, qualname, rule, message, node)]"""
    from .props.c19 import module_mutables
    out = []
    n_fn = 0
    for rel in rels:
        if not rel.endswith('.py'):
            continue
        try:
            mod = repo.module(rel)
        except Exception:
            continue
        mm = set(module_mutables(mod)) | {t.id for st in mod.tree.body if isinstance(st, ast.Assign) for t in st.targets
                                          if isinstance(t, ast.Name) and isinstance(st.value, (ast.Constant,)) and st.value.value is None}
        for q, fn in mod.functions.items():
            if (rel, q) in skip or q.split('.')[-1] in ('__init__',):
                continue
            n_fn += 1
            cls_node = mod.classes.get(q.split('.')[0]) if '.' in q else None
            res, memos = analyse(fn, mm, cls_node)
            for rule, msg, node in res:
                out.append((rel, q, rule, msg, node))
            for msg, node in shared_alias_mutations(fn, mm):
                out.append((rel, q, 'ALIAS', msg, node))
        for q, msg, node in instance_memo_problems(mod):
            out.append((rel, q, 'STALE', msg, node))
    return out, n_fn


# ---- instance memos: a derived value cached in an attribute with explicit invalidation ------------------------------------------

def instance_memos(mod):
    """[(class name, holder function, memo attribute, [computing functions])] for the idiom
         if self.X is None: self.X = <expr>      (or `if not hasattr` / `== None`)
         return self.X
    inside a method or property"""
    out = []
    for cname, cnode in mod.classes.items():
        if '.' in cname:
            continue
        meths = {f.name: f for f in cnode.body if isinstance(f, ast.FunctionDef)}
        for f in meths.values():
            for st in f.body:
                if not (isinstance(st, ast.If) and isinstance(st.test, ast.Compare) and len(st.test.ops) == 1
                        and isinstance(st.test.ops[0], (ast.Is, ast.Eq)) and isinstance(st.test.comparators[0], ast.Constant)
                        and st.test.comparators[0].value is None and isinstance(st.test.left, ast.Attribute)
                        and isinstance(st.test.left.value, ast.Name) and st.test.left.value.id == 'self'):
                    continue
                attr = st.test.left.attr
                stores = [a for a in st.body if isinstance(a, ast.Assign) and any(
                    isinstance(t, ast.Attribute) and t.attr == attr and isinstance(t.value, ast.Name) and t.value.id == 'self' for t in a.targets)]
                returns = [r for r in ast.walk(f) if isinstance(r, ast.Return) and isinstance(r.value, ast.Attribute) and r.value.attr == attr]
                if not stores or not returns:
                    continue
                comp = []
                for a in stores:
                    for c in ast.walk(a.value):
                        if isinstance(c, ast.Attribute) and isinstance(c.value, ast.Name) and c.value.id == 'self' and c.attr in meths:
                            comp.append(meths[c.attr])
                    if not comp:
                        comp.append(f)      # computed inline
                out.append((cname, f, attr, comp, meths, stores))
    return out


def attr_reads(fn, meths, seen=None):
    """attribute names read on self by fn, transitively through self.method() / self.property"""
    seen = seen if seen is not None else set()
    if fn.name in seen:
        return set()
    seen.add(fn.name)
    out = set()
    for n in ast.walk(fn):
        if isinstance(n, ast.Attribute) and isinstance(n.value, ast.Name) and n.value.id == 'self' and isinstance(n.ctx, ast.Load):
            if n.attr in meths:
                out |= attr_reads(meths[n.attr], meths, seen)
            else:
                out.add(n.attr)
    return out


def observed_chars(comp_fns, attr):
    """the set of characters whose counts are all that the computing functions observe of the list-of-strings attribute, or None
    when it is read in any other way.  Patterns: self.A[i].count('c')  and  <gen>.count('c') for <gen> in self.A[...]"""
    chars = set()
    for fn in comp_fns:
        for n in ast.walk(fn):
            if not (isinstance(n, ast.Attribute) and n.attr == attr and isinstance(n.value, ast.Name) and n.value.id == 'self'
                    and isinstance(n.ctx, ast.Load)):
                continue
            p = getattr(n, '_parent', None)
            if isinstance(p, ast.Subscript) and p.value is n:
                pp = getattr(p, '_parent', None)
                ppp = getattr(pp, '_parent', None)
                if isinstance(pp, ast.Attribute) and pp.attr == 'count' and isinstance(ppp, ast.Call) and ppp.func is pp \
                        and len(ppp.args) == 1 and isinstance(ppp.args[0], ast.Constant) and isinstance(ppp.args[0].value, str):
                    chars |= set(ppp.args[0].value)
                    continue
                if isinstance(pp, ast.comprehension) and pp.iter is p and isinstance(pp.target, ast.Name):
                    gen = getattr(pp, '_parent', None)
                    ok = True
                    for u in ast.walk(gen):
                        if isinstance(u, ast.Name) and u.id == pp.target.id and isinstance(u.ctx, ast.Load):
                            up = getattr(u, '_parent', None)
                            upp = getattr(up, '_parent', None)
                            if isinstance(up, ast.Attribute) and up.attr == 'count' and isinstance(upp, ast.Call) and len(upp.args) == 1 \
                                    and isinstance(upp.args[0], ast.Constant) and isinstance(upp.args[0].value, str):
                                chars |= set(upp.args[0].value)
                            else:
                                ok = False
                    if ok:
                        continue
                return None
            if isinstance(p, ast.Call) and call_name(p) == 'len':
                return None
            return None
    return chars


def instance_memo_problems(mod):
    """[(qualname of the writer, message, node)]: a write of an attribute the memo depends on that is not followed, in the same
    function and on the same receiver, by a reset of the memo"""
    out = []
    for cname, holder, attr, comp, meths, stores in instance_memos(mod):
        deps = set()
        for c in comp:
            if c is holder:
                for a in stores:
                    for n in ast.walk(a.value):
                        if isinstance(n, ast.Attribute) and isinstance(n.value, ast.Name) and n.value.id == 'self':
                            deps.add(n.attr)
            else:
                deps |= attr_reads(c, meths)
        deps.discard(attr)
        for q, fn in mod.functions.items():
            if q.split('.')[-1] == '__init__' or fn is holder:
                continue
            resets = {}
            for n in ast.walk(fn):
                if isinstance(n, ast.Assign) and isinstance(n.value, ast.Constant) and n.value.value is None:
                    for t in n.targets:
                        if isinstance(t, ast.Attribute) and t.attr == attr:
                            resets.setdefault(ast.unparse(t.value), []).append(n.lineno)
            for n in ast.walk(fn):
                tgt = None
                if isinstance(n, (ast.Assign, ast.AugAssign)):
                    for t in (n.targets if isinstance(n, ast.Assign) else [n.target]):
                        for x in ([t] + (list(t.elts) if isinstance(t, (ast.Tuple, ast.List)) else [])):
                            b = x
                            while isinstance(b, ast.Subscript):
                                b = b.value
                            if isinstance(b, ast.Attribute) and b.attr in deps:
                                tgt = b
                elif isinstance(n, ast.Call) and isinstance(n.func, ast.Attribute) and n.func.attr in (
                        'append', 'extend', 'pop', 'insert', 'clear', 'remove', 'update', 'setdefault', 'sort', 'reverse') \
                        and isinstance(n.func.value, ast.Attribute) and n.func.value.attr in deps:
                    tgt = n.func.value
                if tgt is None:
                    continue
                recv = ast.unparse(tgt.value)
                # a write that cannot change what the computation observes: appending characters it does not count
                obs = observed_chars([c for c in comp if c is not holder] or comp, tgt.attr)
                added = None
                if isinstance(n, ast.AugAssign) and isinstance(n.op, ast.Add) and isinstance(n.value, ast.Constant) and isinstance(n.value.value, str) \
                        and isinstance(n.target, ast.Subscript):
                    added = n.value.value
                if isinstance(n, ast.Call) and n.func.attr == 'append' and len(n.args) == 1 and isinstance(n.args[0], ast.Constant) \
                        and isinstance(n.args[0].value, str):
                    added = n.args[0].value
                if obs is not None and added is not None and not (set(added) & obs):
                    continue
                # the memo may be dropped before the write, as long as nothing recomputes it in between
                rl = resets.get(recv, [])
                rereads = [x.lineno for x in ast.walk(fn) if isinstance(x, ast.Attribute) and x.attr == holder.name and isinstance(x.ctx, ast.Load)]
                if not any(ln >= n.lineno or not any(ln < r_ <= n.lineno for r_ in rereads) for ln in rl):
                    out.append((q, '%s.%s caches a value computed from %s in the attribute %s and drops it only in some writers; %s changes '
                                   '`%s.%s` (%s) without dropping the memo of `%s`, so the cached value is stale afterwards' % (
                                       cname, holder.name, sorted(deps), attr, q, recv, tgt.attr, unparse(n)[:60], recv), n))
    return out

