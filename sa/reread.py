"""Rule REREAD (C12.R8): the texts a validator returns are not re-interpreted by its own input fix-ups.

`check_performance_for_discipline` repairs what people type (colon for stop in sprints, stop for colon in distance events,
h:m:s for m:s.cc at 800/1500/3000, a leading 0:) before it parses, and prints times without trailing zeros.  Validating a
returned value again must give it back unchanged, so no returned text may lie in the trigger language of a fix-up that applies
to the same event.  Everything is decided on regular languages:

  Out(branch)   the texts of one formatting branch: format string -> language (widths / decimals from the spec, value ranges from
                the guards that C12.R5 proves: seconds < 60 under minutes, minutes < 60 under hours, seconds < 100 alone), pushed
                through the trailing-zero stripping by abstract execution of its statements (drop-last to a fixpoint)
  Trig(fix-up)  the text conditions of the `if` that guards the fix-up ('x' in t, 'y' not in t, startswith, number of chunks)
  class         the event condition of that `if` (distance <= 200, distance >= 800, discipline in [...]); a (class, branch) pair
                is considered only if some duration of the branch satisfies the documented speed limits for a distance of the class

A non-empty Out(branch) & Trig(fix-up) for a feasible pair is reported with the shortest such text.
"""
import ast
import re
import re._parser as sp

from . import regops as ro
from . import rx
from .core import AnalysisError
from .src import call_name, unparse


def _lang(P, regex):
    return P.exact(list(sp.parse(regex)))


def format_language(P, fmt, args, roles, branch):
    """language of `fmt % args` for the timed arm; branch in ('hours', 'minutes', 'seconds')"""
    specs = re.findall(r'%([0-9.]*)([df])', fmt)
    lits = re.split(r'%[0-9.]*[df]', fmt)
    if len(specs) != len(args):
        raise AnalysisError('format %r: arity' % fmt)
    out = re.escape(lits[0])
    for (flags, conv), a, lit in zip(specs, args, lits[1:]):
        nm = a.id if isinstance(a, ast.Name) else None
        role = {v: k for k, v in roles.items()}.get(nm)
        if conv == 'd' and role == 'hours':
            piece = '[1-9][0-9]*'
        elif conv == 'd' and role == 'minutes':
            piece = '[0-5][0-9]' if branch == 'hours' else '[1-9][0-9]*'
            if flags not in ('02',) and branch == 'hours':
                piece = '[0-9]|[1-5][0-9]'
        elif conv == 'f' and role == 'seconds':
            m = re.fullmatch(r'(0?)(\d*)\.(\d+)', flags)
            if not m:
                raise AnalysisError('format %r: float spec' % fmt)
            dec = int(m.group(3))
            width = int(m.group(2)) if m.group(2) else 0
            pad2 = bool(m.group(1)) and width >= dec + 3
            if branch in ('hours', 'minutes'):
                ip = '[0-5][0-9]' if pad2 else '(?:[0-9]|[1-5][0-9])'
            else:
                ip = '(?:[0-9]|[1-9][0-9])'
            piece = '%s\\.[0-9]{%d}' % (ip, dec) if dec else ip
        else:
            raise AnalysisError('format %r: argument %s has no role' % (fmt, unparse(a)))
        out += '(?:%s)' % piece + re.escape(lit)
    return _lang(P, out)


def blocks_of(P, chars):
    return frozenset(P.A.block_of(c) for c in chars)


def exec_strip(P, L, stmts, var):
    """abstract execution of the trailing-character stripping statements on the language L of `var`"""
    A = P.A

    def len_gt(k):
        return rx.diff(P.ANY, ro.lengths_lt(A, k + 1))

    def cond_lang(t):
        # conjunction of  var.endswith('c')  and  len(var) > k
        parts = t.values if isinstance(t, ast.BoolOp) and isinstance(t.op, ast.And) else [t]
        d = P.ANY
        for p in parts:
            if isinstance(p, ast.Call) and call_name(p) == 'endswith' and ast.unparse(p.func.value) == var and p.args \
                    and isinstance(p.args[0], ast.Constant) and isinstance(p.args[0].value, str) and len(p.args[0].value) == 1:
                d = rx.inter(d, ro.ends_with_any(A, blocks_of(P, p.args[0].value)))
            elif isinstance(p, ast.Compare) and len(p.ops) == 1 and isinstance(p.ops[0], ast.Gt) and call_name(p.left) == 'len' \
                    and ast.unparse(p.left.args[0]) == var and isinstance(p.comparators[0], ast.Constant):
                d = rx.inter(d, len_gt(p.comparators[0].value))
            else:
                raise AnalysisError('stripping condition outside the modelled subset: %s' % unparse(p))
        return d

    def is_drop_last(st):
        return isinstance(st, ast.Assign) and len(st.targets) == 1 and ast.unparse(st.targets[0]) == var \
            and isinstance(st.value, ast.Subscript) and ast.unparse(st.value.value) == var and isinstance(st.value.slice, ast.Slice) \
            and (st.value.slice.lower is None or ast.unparse(st.value.slice.lower) == '0') and st.value.slice.upper is not None \
            and ast.unparse(st.value.slice.upper) == '-1'

    for st in stmts:
        if isinstance(st, ast.If) and not st.orelse:
            c = cond_lang(st.test)
            inside = exec_strip(P, rx.inter(L, c), st.body, var)
            L = rx.union(rx.diff(L, c), inside)
        elif isinstance(st, ast.While) and len(st.body) == 1 and is_drop_last(st.body[0]):
            c = cond_lang(st.test)
            done = rx.diff(L, c)
            cur = rx.inter(L, c)
            for _ in range(12):
                if P.is_empty(cur):
                    break
                nxt = ro.drop_last(cur, 1)
                done = rx.union(done, rx.diff(nxt, c))
                cur = rx.inter(nxt, c)
            else:
                raise AnalysisError('stripping loop did not reach a fixpoint in 12 rounds')
            L = done
        elif is_drop_last(st):
            L = ro.drop_last(L, 1)
        elif isinstance(st, ast.Assign) and ast.unparse(st.targets[0]) == var and isinstance(st.value, ast.Call) \
                and call_name(st.value) == 'rstrip' and ast.unparse(st.value.func.value) == var and st.value.args \
                and isinstance(st.value.args[0], ast.Constant):
            L = ro.strip_trailing(L, blocks_of(P, st.value.args[0].value))
        else:
            raise AnalysisError('output post-processing outside the modelled subset: %s' % unparse(st)[:60])
    return L


def text_trigger(P, test, tv, extra=None):
    """(language of texts satisfying the text conditions of `test`, [class conditions as source text])"""
    A = P.A
    parts = []

    def flat(t):
        if isinstance(t, ast.BoolOp) and isinstance(t.op, ast.And):
            for v in t.values:
                flat(v)
        else:
            parts.append(t)
    flat(test)
    L = P.ANY
    cls = []
    for p in parts:
        if isinstance(p, ast.Compare) and len(p.ops) == 1 and isinstance(p.ops[0], (ast.In, ast.NotIn)) \
                and isinstance(p.left, ast.Constant) and isinstance(p.left.value, str) and ast.unparse(p.comparators[0]) == tv:
            d = _lang(P, '[\\s\\S]*' + re.escape(p.left.value) + '[\\s\\S]*')
            L = rx.inter(L, d if isinstance(p.ops[0], ast.In) else rx.diff(P.ANY, d))
        elif isinstance(p, ast.Call) and call_name(p) == 'startswith' and ast.unparse(p.func.value) == tv and p.args \
                and isinstance(p.args[0], ast.Constant):
            L = rx.inter(L, _lang(P, re.escape(p.args[0].value) + '[\\s\\S]*'))
        else:
            cls.append(p)
    return L, cls


def class_bounds(cls, distance_name, discipline_name):
    """(lo, hi, description) of the distances an event-class condition admits; None bounds = open"""
    lo, hi = None, None
    desc = []
    for p in cls:
        t = ast.unparse(p)
        desc.append(t)
        if isinstance(p, ast.Name) and p.id == distance_name:
            lo = max(lo or 1, 1)
        elif isinstance(p, ast.Compare) and len(p.ops) == 1 and ast.unparse(p.left) == distance_name \
                and isinstance(p.comparators[0], ast.Constant):
            v, op = p.comparators[0].value, p.ops[0]
            if isinstance(op, ast.LtE):
                hi = v if hi is None else min(hi, v)
            elif isinstance(op, ast.Lt):
                hi = v - 1 if hi is None else min(hi, v - 1)
            elif isinstance(op, ast.GtE):
                lo = v if lo is None else max(lo, v)
            elif isinstance(op, ast.Gt):
                lo = v + 1 if lo is None else max(lo, v + 1)
            elif isinstance(op, ast.Eq):
                lo = hi = v
        elif isinstance(p, ast.Compare) and len(p.ops) == 1 and isinstance(p.ops[0], ast.In) and ast.unparse(p.left) == discipline_name \
                and isinstance(p.comparators[0], (ast.List, ast.Tuple)):
            ds = [int(x.value) for x in p.comparators[0].elts if isinstance(x, ast.Constant) and str(x.value).isdigit()]
            if ds:
                lo = min(ds) if lo is None else max(lo, min(ds))
                hi = max(ds) if hi is None else min(hi, max(ds))
        else:
            return None
    return lo, hi, ' and '.join(desc)


BRANCH_DURATION = {'hours': (3600, None), 'minutes': (60, None), 'seconds': (0, 100)}


def feasible(lo, hi, branch, vmin=0.5, vfast_short=11.0, vfast_long=10.0):
    """is there a distance d in [lo, hi] and a duration in the branch's range with vmin <= d/duration <= vfast?"""
    dlo, dhi = BRANCH_DURATION[branch]
    cands = set()
    for d in (lo, hi, 200, 400, 401, 800, 1000, 1500, 3000, 5000, 10000, 42195):
        if d is None:
            continue
        if (lo is None or d >= lo) and (hi is None or d <= hi):
            cands.add(d)
    if lo is None and hi is None:
        return True
    for d in cands:
        tmax = d / vmin                      # slowest admissible duration
        tmin = d / (vfast_short if d <= 400 else vfast_long)
        a = max(tmin, dlo)
        b = tmax if dhi is None else min(tmax, dhi - 0.01)
        if a <= b:
            return True
    return False


def analyse(P, fn, roles, param_text):
    """[(key, message, witness)], n_outputs, n_fixups"""
    # --- the formatting block: if/elif/else assigning  t = FORMAT % (...)  followed by the stripping statements and `return t`
    out_blocks = []
    for n in ast.walk(fn):
        if isinstance(n, ast.If) and n.orelse:
            chain, cur = [], n
            while True:
                asg = [s for s in cur.body if isinstance(s, ast.Assign) and isinstance(s.value, ast.BinOp) and isinstance(s.value.op, ast.Mod)
                       and isinstance(s.value.left, ast.Constant) and isinstance(s.value.left.value, str) and 'f' in s.value.left.value]
                if len(cur.body) != 1 or not asg:
                    chain = None
                    break
                chain.append((cur.test, asg[0]))
                if len(cur.orelse) == 1 and isinstance(cur.orelse[0], ast.If):
                    cur = cur.orelse[0]
                    continue
                asg = [s for s in cur.orelse if isinstance(s, ast.Assign) and isinstance(s.value, ast.BinOp) and isinstance(s.value.left, ast.Constant)]
                if len(cur.orelse) != 1 or not asg:
                    chain = None
                    break
                chain.append((None, asg[0]))
                break
            if chain and len(chain) >= 2 and not any(n is c2 for b in out_blocks for c2 in ast.walk(b[0])):
                out_blocks.append((n, chain))
    out_blocks = [b for b in out_blocks if not any(b[0] is not o[0] and any(b[0] is x for x in ast.walk(o[0])) for o in out_blocks)]
    if len(out_blocks) != 1:
        raise AnalysisError('timed arm: the formatting if-chain was not found (%d candidates)' % len(out_blocks))
    node, chain = out_blocks[0]
    var = ast.unparse(chain[0][1].targets[0])
    parent = node._parent
    body = parent.body if node in getattr(parent, 'body', []) else parent.orelse
    i = body.index(node)
    post = []
    for st in body[i + 1:]:
        if isinstance(st, ast.Return):
            if ast.unparse(st.value) != var:
                raise AnalysisError('timed arm: the formatted text is not what is returned')
            break
        post.append(st)
    else:
        raise AnalysisError('timed arm: no return after the formatting block')
    outs = {}
    for test, asg in chain:
        if test is None:
            branch = 'seconds'
        else:
            nm = ast.unparse(test)
            branch = {roles['hours']: 'hours', roles['minutes']: 'minutes'}.get(nm)
            if branch is None:
                raise AnalysisError('timed arm: formatting branch on %s' % nm)
        args = asg.value.right.elts if isinstance(asg.value.right, ast.Tuple) else [asg.value.right]
        L = format_language(P, asg.value.left.value, args, roles, branch)
        outs[branch] = exec_strip(P, L, post, var)
    # --- the fix-ups: ifs of the function that re-assign the text parameter from itself, with their (possibly nested) conditions
    fixups = []
    disc_name = fn.args.args[0].arg
    # the name(s) bound to  <text>.split(':')
    chunk_names = {t.id for n in ast.walk(fn) if isinstance(n, ast.Assign) and isinstance(n.value, ast.Call) and call_name(n.value) == 'split'
                   and ast.unparse(n.value.func.value) == param_text for t in n.targets if isinstance(t, ast.Name)}

    def visit(stmts, conds):
        for st in stmts:
            if isinstance(st, ast.If):
                inner = conds + [st.test]
                direct = [s for s in st.body if isinstance(s, ast.Assign) and ast.unparse(s.targets[0]) == param_text
                          and any(isinstance(x, ast.Name) and x.id in ({param_text} | chunk_names) for x in ast.walk(s.value))]
                if direct:
                    fixups.append((inner, direct[0]))
                visit(st.body, inner)
                visit(st.orelse, conds)
    visit(fn.body, [])
    problems = []
    n_fix = 0
    for conds, asg in fixups:
        L = P.ANY
        cls = []
        split_eq = None
        for c in conds:
            # len(chunks) == k with chunks = text.split(':')
            if isinstance(c, ast.Compare) and call_name(c.left) == 'len' and isinstance(c.ops[0], ast.Eq) and isinstance(c.comparators[0], ast.Constant) \
                    and ast.unparse(c.left.args[0]) in chunk_names:
                split_eq = c.comparators[0].value
                continue
            l2, c2 = text_trigger(P, c, param_text)
            L = rx.inter(L, l2)
            cls += c2
        if split_eq is not None:
            L = rx.inter(L, _lang(P, '[^:]*' + ':[^:]*' * (split_eq - 1)))
        cb = class_bounds(cls, roles['distance'], disc_name)
        if cb is None:
            continue            # a condition that is not about the event (e.g. on other parameters): not a re-reading of the output
        lo, hi, desc = cb
        n_fix += 1
        for branch, O in sorted(outs.items()):
            hit = rx.inter(O, L)
            w = P.wit(hit)
            if w is None:
                continue
            if not feasible(lo, hi, branch):
                continue
            v_ = asg.value
            if isinstance(v_, ast.Call) and call_name(v_) == 'replace' and len(v_.args) >= 2 and all(isinstance(a_, ast.Constant) for a_ in v_.args[:2]):
                what = 'replace %r by %r' % (v_.args[0].value, v_.args[1].value)
            elif isinstance(v_, ast.Subscript):
                what = 'drop a prefix'
            else:
                what = 'rebuild from %s chunks' % (split_eq if split_eq is not None else 'the')
            where = 'distance %s..%s' % (lo if lo is not None else '', hi if hi is not None else '')
            # the key names the fix-up by what it does and the class by its bounds: no local names, no source text
            problems.append(('fix-up (%s) for %s re-reads the %s-format output' % (what, where, branch),
                             'a time returned in the %s format can be %r; for an event with %s the validator rewrites such a text before parsing '
                             '(`%s`), so the returned value is read as a different time (or refused) when it is validated again'
                             % ({'hours': 'h:mm:ss', 'minutes': 'm:ss', 'seconds': 'seconds-only'}[branch], w, desc or 'any distance', unparse(asg)[:70]), w))
    return problems, len(outs), n_fix
